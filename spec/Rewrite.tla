------------------------------- MODULE Rewrite -------------------------------
(***************************************************************************)
(* Envelope address rewriting of maddy (extension X15, pattern B):         *)
(* modify.replace_sender / modify.replace_rcpt, the modifier group         *)
(* (`modify { ... }`) and the three scopes of the message pipeline.        *)
(* Sources: docs/reference/modifiers/envelope.md, docs/reference/          *)
(* smtp-pipeline.md (flow :17-41, modify :160-194), internal/modify/       *)
(* replace_addr.go, internal/modify/group.go.                              *)
(*                                                                         *)
(* One state per input row.  A string of the implementation is a record    *)
(* [l, d] of two tokens: l names a local part (or a whole domain-less      *)
(* string), d a domain ("" = the string has no "@domain" part).  The       *)
(* harness (harness/rewritecheck/alphabet.go) spells the tokens and maps   *)
(* every string the code produces back (an unknown string is Junk).        *)
(* What the property needs to know about a token is stated here: its       *)
(* normal form (LNorm / DNorm: case folding, NFC, A-label -> U-label),     *)
(* whether it is a valid mailbox name / domain, whether it is a quoted     *)
(* string.                                                                 *)
(*                                                                         *)
(* Row families:                                                           *)
(*   "mod"  [who, addr, mods]   one address through a modifier group       *)
(*   "pipe" [g, s, d, from, rcpts] an envelope through a real msgpipeline  *)
(*          with `modify` at pipeline / source / destination scope         *)
(*   "doc"  [doc]               a configuration example of the             *)
(*          documentation must load                                        *)
(* For every row: Rule(in) the documented result (operational), Viol(in,   *)
(* out) the violated predicates (declarative where the documentation       *)
(* leaves freedom), RuleWith(in, devs) the result with named deviations    *)
(* of the code on HEAD:                                                    *)
(*   "LocalNotValidated"   a value found under the local-part key that     *)
(*                         has no domain is joined with the domain and     *)
(*                         used without validation (`dog food@d`, `@d`)    *)
(*   "QuotedFullAsLocal"   a value found under the local-part key that is  *)
(*                         a full address with a quoted local part is      *)
(*                         taken for a local part (`"a b"@x@d`)            *)
(*   "NullLookedUp"        the null reverse-path is looked up like an      *)
(*                         address (a table that answers every key         *)
(*                         rewrites it or makes MAIL FROM:<> fail)         *)
(*   "FailurePermanent"    a failing table lookup is answered with a       *)
(*                         permanent reply (554) (pipe rows)               *)
(*   "DocLocalPartName"    email_with_domain.md's example names the        *)
(*                         module email_local_part (doc rows)              *)
(*   "DocChainQuote"       chain.md's first example has an unescaped quote *)
(*                         inside a quoted argument (doc rows)             *)
(***************************************************************************)
EXTENDS Integers, Sequences, FiniteSets, TLC, Json

CONSTANTS Fams,       \* families enumerated: subset of {"mod0", "mod1", "mod2", "mod3", "pipe0", "pipe", "doc"}
          PipeFull,   \* mod2 / pipe rows: the whole space (thorough) or its core (quick)
          Devs,       \* deviations switched on for AsIsSatisfiesProp
          Gen         \* print the rows

VARIABLE in

S(l, d) == [l |-> l, d |-> d]
Null == S("", "")
Junk == S("?", "?")        \* a string outside the alphabet

Max(X) == CHOOSE x \in X : \A y \in X : y <= x
RECURSIVE Cat(_)
Cat(ss) == IF ss = <<>> THEN <<>> ELSE Head(ss) \o Cat(Tail(ss))

(***************************************************************************)
(* The alphabet.  Local tokens: cat dog mouse list bird (atoms), CAT (an   *)
(* upper/mixed-case spelling of cat), pm / PM (postmaster / PostMaster),   *)
(* e / E (a non-ASCII local part, NFC lower case / NFD upper case), q / Q  *)
(* (the quoted string "dog food" / "Dog Food"), qat (the quoted string     *)
(* "c@t"), sp (`dog food`, not quoted: not a valid local part), "" (empty).*)
(* Domain tokens: a / A (example.org / EXAMPLE.Org), b (example.net), i    *)
(* (an IDN as U-labels), ix / IX (its A-label spelling, lower / upper      *)
(* case), bad (`exa..mple`), 0 (nothing after the at-sign), "" (no         *)
(* at-sign at all).                                                        *)
(***************************************************************************)
LNorm(l) == CASE l = "CAT" -> "cat" [] l = "PM" -> "pm" [] l = "E" -> "e" [] l = "Q" -> "q" [] OTHER -> l
DNorm(d) == CASE d = "A" -> "a" [] d \in {"ix", "IX"} -> "i" [] OTHER -> d
LQuoted(l) == l \in {"q", "Q", "qat"}
LValid(l) == l \notin {"", "sp", "?"}
DValid(d) == d \notin {"", "0", "bad", "?"}

IsPm(s) == s.d = "" /\ LNorm(s.l) = "pm"
\* what can be split into local part and domain (RFC 5321 forward-path; "postmaster" has no domain)
WellFormed(s) == IsPm(s) \/ (s.l \notin {"", "?"} /\ s.d \notin {"", "0", "?"})
Valid(s) == IsPm(s) \/ (LValid(s.l) /\ DValid(s.d))
AllValid(vs) == \A i \in 1..Len(vs) : Valid(vs[i])
\* envelope.md: "The address is normalized before lookup (Punycode in domain-part is decoded, Unicode is
\* normalized to NFC, the whole string is case-folded)."
Norm(s) == IF IsPm(s) THEN S("pm", "") ELSE S(LNorm(s.l), DNorm(s.d))

(***************************************************************************)
(* Tables (abstract).  [k, impl, e, fail, from, to, opt]:                  *)
(*   k = "map"    entries e = <<[key, vs]..>> (last entry of a key wins),  *)
(*                lookups of the keys in `fail` fail; impl says which real *)
(*                module holds it: static | file | sql | scripted          *)
(*   k = "dommap" regexp "(.+)@<from>" "$1@<to[1]>" ...                    *)
(*   k = "lpdom"  chain { step email_localpart[_optional]                  *)
(*                        step email_with_domain <to..> }                  *)
(*   k = "const"  a regexp table matching every key: "<e[1].vs[1]>"        *)
(***************************************************************************)
T(k, impl, e, fail, from, to, opt) == [k |-> k, impl |-> impl, e |-> e, fail |-> fail, from |-> from, to |-> to, opt |-> opt]
Map(impl, e) == T("map", impl, e, <<>>, "", <<>>, FALSE)
FailMap(e, fail) == T("map", "scripted", e, fail, "", <<>>, FALSE)
DomMap(from, to) == T("dommap", "regexp", <<>>, <<>>, from, to, FALSE)
LpDom(to, opt) == T("lpdom", "chain", <<>>, <<>>, "", to, opt)
Const(v) == T("const", "regexp", <<[key |-> Null, vs |-> <<v>>]>>, <<>>, "", <<>>, FALSE)
En(key, vs) == [key |-> key, vs |-> vs]

\* table.email_with_domain quotes the key when it needs quoting (X01: address.QuoteMbox): `dog food` -> "dog food"
QuoteMbox(l) == IF l = "sp" THEN "q" ELSE l
Entries(t, key) ==
  LET hits == {i \in 1..Len(t.e) : t.e[i].key = key}
  IN IF hits = {} THEN <<>> ELSE t.e[Max(hits)].vs
LOk(vs) == [res |-> "ok", vs |-> vs]
Look(t, key) ==
  CASE t.k = "map" -> IF \E i \in 1..Len(t.fail) : t.fail[i] = key THEN [res |-> "fail", vs |-> <<>>]
                      ELSE LOk(Entries(t, key))
    [] t.k = "dommap" -> LOk(IF key.d = t.from /\ key.l # "" THEN [i \in 1..Len(t.to) |-> S(key.l, t.to[i])] ELSE <<>>)
    [] t.k = "lpdom" -> LOk(IF key = Null \/ key.d = ""
                            THEN (IF t.opt \/ IsPm(key) THEN [i \in 1..Len(t.to) |-> S(QuoteMbox(key.l), t.to[i])] ELSE <<>>)
                            ELSE [i \in 1..Len(t.to) |-> S(QuoteMbox(key.l), t.to[i])])
    [] t.k = "const" -> LOk(t.e[1].vs)

(***************************************************************************)
(* One replace_sender / replace_rcpt on one address.                       *)
(* envelope.md: "First, the whole address is looked up.  If there is no    *)
(* replacement, local-part of the address is looked up separately and is   *)
(* replaced in the address while keeping the domain part intact.           *)
(* Replacements are not applied recursively".  From the code: a value      *)
(* under the local-part key that is itself a full address replaces the     *)
(* whole address (replace_addr_test.go "test": "test2@example.org"); every *)
(* result is validated ("refusing to replace recipient with the invalid    *)
(* address"); a lookup error is returned; the sender takes the first       *)
(* value.  lax: a sender's values after the first need not be valid.       *)
(***************************************************************************)
Ok(o) == [res |-> "ok", out |-> o, why |-> ""]
Err(w) == [res |-> "err", out |-> <<>>, why |-> w]

Compose(v, dom) == IF v.d # "" THEN v ELSE S(v.l, dom)
\* the value as HEAD composes it, and whether HEAD validates it
HeadFull(v) == v.d # "" /\ ~LQuoted(v.l)
ComposeD(v, dom, devs) ==
  IF v.d # "" /\ LQuoted(v.l) /\ "QuotedFullAsLocal" \in devs THEN Junk ELSE Compose(v, dom)
CheckedD(v, devs) ==
  IF v.d # "" THEN ~(LQuoted(v.l) /\ "QuotedFullAsLocal" \in devs)
  ELSE "LocalNotValidated" \notin devs

Rel(who, lax, vs) == IF who = "sender" /\ lax THEN <<vs[1]>> ELSE vs

RewriteOne(t, who, s, devs, lax) ==
  IF s = Null /\ "NullLookedUp" \notin devs THEN Ok(<<s>>)
  ELSE IF s # Null /\ ~WellFormed(s) THEN Err("malformed")
  ELSE
    LET k1 == IF s = Null THEN Null ELSE Norm(s)
        r1 == Look(t, k1)
    IN
    IF r1.res = "fail" THEN Err("tablefail")
    ELSE IF r1.vs # <<>> THEN (IF AllValid(Rel(who, lax, r1.vs)) THEN Ok(r1.vs) ELSE Err("invalidrepl"))
    ELSE IF s = Null \/ IsPm(s) THEN Ok(<<s>>)
    ELSE
      LET k2 == S(k1.l, "")
          r2 == Look(t, k2)
          vs == Rel(who, lax, r2.vs)
          outs == [i \in 1..Len(r2.vs) |-> ComposeD(r2.vs[i], k1.d, devs)]
      IN
      IF r2.res = "fail" THEN Err("tablefail")
      ELSE IF r2.vs = <<>> THEN Ok(<<s>>)
      ELSE IF \A i \in 1..Len(vs) : CheckedD(vs[i], devs) => Valid(outs[i]) THEN Ok(outs)
      ELSE Err("invalidrepl")

\* a replace_sender does nothing to recipients and vice versa; the sender keeps one address
RewriteFor(m, who, s, devs, lax) ==
  IF (m.m = "replace_sender") # (who = "sender") THEN Ok(<<s>>)
  ELSE LET r == RewriteOne(m.t, who, s, devs, lax)
       IN IF r.res = "ok" /\ who = "sender" THEN Ok(<<r.out[1]>>) ELSE r

(***************************************************************************)
(* A modifier group (group.go: "runs them serially"): every modifier is    *)
(* applied to every address the previous one produced, in order; an error  *)
(* anywhere fails the whole.                                               *)
(***************************************************************************)
RECURSIVE RunStack(_, _, _, _, _)
RunStack(mods, who, ss, devs, lax) ==
  IF mods = <<>> THEN Ok(ss)
  ELSE
    LET rs == [i \in 1..Len(ss) |-> RewriteFor(Head(mods), who, ss[i], devs, lax)]
        bad == {i \in 1..Len(ss) : rs[i].res = "err"}
    IN IF bad # {} THEN Err(rs[CHOOSE i \in bad : \A j \in bad : i <= j].why)
       ELSE RunStack(Tail(mods), who, Cat([i \in 1..Len(ss) |-> rs[i].out]), devs, lax)

(***************************************************************************)
(* The pipeline (smtp-pipeline.md:17-41): pipeline-level modifiers, then   *)
(* the modifiers of the source block; then per recipient the destination   *)
(* block is selected on the rewritten address and its modifiers run.       *)
(* "Modifiers that affect source address ... will be no-op inside          *)
(* destination blocks."  The configuration of a pipe row:                  *)
(*   modify { g }  default_source { modify { s }                           *)
(*     destination example.net { modify { d }  deliver_to &T1 }            *)
(*     default_destination { deliver_to &T2 } }                            *)
(***************************************************************************)
DestOf(x) == IF DNorm(x.d) = "b" THEN "T1" ELSE "T2"
RcOk(dl) == [res |-> "ok", dl |-> dl, why |-> ""]
RcErr(w) == [res |-> "err", dl |-> <<>>, why |-> w]
PipeRcpt(g, s, d, r, devs) ==
  LET a == RunStack(g, "rcpt", <<r>>, devs, FALSE) IN
  IF a.res = "err" THEN RcErr(a.why) ELSE
  LET b == RunStack(s, "rcpt", a.out, devs, FALSE) IN
  IF b.res = "err" THEN RcErr(b.why) ELSE
  LET per == [i \in 1..Len(b.out) |->
                IF ~WellFormed(b.out[i]) THEN Err("malformed")
                ELSE IF DestOf(b.out[i]) = "T1" THEN RunStack(d, "rcpt", <<b.out[i]>>, devs, FALSE)
                ELSE Ok(<<b.out[i]>>)]
      bad == {i \in 1..Len(per) : per[i].res = "err"}
  IN IF bad # {} THEN RcErr(per[CHOOSE i \in bad : \A j \in bad : i <= j].why)
     ELSE RcOk(Cat([i \in 1..Len(per) |-> [j \in 1..Len(per[i].out) |-> [t |-> DestOf(b.out[i]), a |-> per[i].out[j]]]]))

PipeRule(i, devs) ==
  LET a == RunStack(i.g, "sender", <<i.from>>, devs, FALSE)
      b == IF a.res = "ok" THEN RunStack(i.s, "sender", a.out, devs, FALSE) ELSE a
  IN IF b.res = "err" THEN [mail |-> "err", why |-> b.why, from |-> Null, rc |-> <<>>]
     ELSE [mail |-> "ok", why |-> "", from |-> b.out[1],
           rc |-> [k \in 1..Len(i.rcpts) |-> PipeRcpt(i.g, i.s, i.d, i.rcpts[k], devs)]]

(***************************************************************************)
(* The documentation's own configuration examples must load.               *)
(***************************************************************************)
Docs == {"envelope", "chain-strip", "chain-aliases", "ewd-chain", "localpart"}
DocRule(i, devs) == [res |-> IF (i.doc = "ewd-chain" /\ "DocLocalPartName" \in devs)
                                \/ (i.doc = "chain-strip" /\ "DocChainQuote" \in devs)
                             THEN "loaderr" ELSE "ok"]

RuleWith(i, devs) ==
  CASE i.fam = "mod" -> RunStack(i.mods, i.who, <<i.addr>>, devs, FALSE)
    [] i.fam = "pipe" -> PipeRule(i, devs)
    [] i.fam = "doc" -> DocRule(i, devs)
Rule(i) == RuleWith(i, {})

(***************************************************************************)
(* The property.                                                           *)
(***************************************************************************)
\* same addresses, the domain of a pass-through / composed address may be spelt either way
SameAddr(x, y) == x.l = y.l /\ DNorm(x.d) = DNorm(y.d)
SameOut(o, p) == o.res = p.res /\ (o.res = "ok" => Len(o.out) = Len(p.out) /\ \A i \in 1..Len(o.out) : SameAddr(o.out[i], p.out[i]))

\* one modifier of the matching kind on one address: the clauses of envelope.md one by one
Viol1(t, who, s, o) ==
  LET k1 == Norm(s)
      r1 == Look(t, k1)
      k2 == S(k1.l, "")
      r2 == Look(t, k2)
      rel(vs) == IF who = "sender" THEN <<vs[1]>> ELSE vs
      unchanged == o.res = "ok" /\ o.out = <<s>>
      want2 == [i \in 1..Len(r2.vs) |-> Compose(r2.vs[i], k1.d)]
      okLocal(vs, w) == o.res = "ok" /\ Len(o.out) = Len(w) /\
                        \A i \in 1..Len(w) : IF vs[i].d # "" THEN o.out[i] = w[i] ELSE SameAddr(o.out[i], w[i])
  IN
  IF s = Null THEN {p \in {"NullSenderRewritten"} : ~unchanged}
  ELSE IF ~WellFormed(s) THEN {p \in {"MalformedRewritten"} : ~(o.res = "err" \/ unchanged)}
  ELSE IF r1.res = "fail" THEN {p \in {"TableFailureIgnored"} : o.res # "err"}
  ELSE IF r1.vs # <<>> THEN
     (IF ~AllValid(rel(r1.vs)) THEN {p \in {"InvalidReplacementAccepted"} : o.res # "err"}
      ELSE IF AllValid(r1.vs) THEN {p \in {"FullKeyResultWrong"} : ~(o.res = "ok" /\ o.out = rel(r1.vs))}
      ELSE {p \in {"FullKeyResultWrong"} : ~(o.res = "err" \/ (o.res = "ok" /\ o.out = rel(r1.vs)))})
  ELSE IF IsPm(s) THEN {p \in {"MissingKeyChanged"} : ~unchanged}
  ELSE IF r2.res = "fail" THEN {p \in {"TableFailureIgnored"} : o.res # "err"}
  ELSE IF r2.vs = <<>> THEN {p \in {"MissingKeyChanged"} : ~unchanged}
  ELSE IF ~AllValid(rel(want2)) THEN {p \in {"InvalidReplacementAccepted"} : o.res # "err"}
  ELSE IF AllValid(want2) THEN {p \in {"LocalKeyResultWrong"} : ~okLocal(rel(r2.vs), rel(want2))}
  ELSE {p \in {"LocalKeyResultWrong"} : ~(o.res = "err" \/ okLocal(rel(r2.vs), rel(want2)))}

ModViol(i, o) ==
  IF o.res = "panic" THEN {"Crashed"}
  ELSE IF o.res = "loaderr" THEN {"ConfigRefused"}
  ELSE
    LET strict == RunStack(i.mods, i.who, <<i.addr>>, {}, FALSE)
        lax == RunStack(i.mods, i.who, <<i.addr>>, {}, TRUE)
        malformed == i.addr # Null /\ ~WellFormed(i.addr)
        single == Len(i.mods) = 1 /\ (i.mods[1].m = "replace_sender") = (i.who = "sender")
    IN
    \* results are addresses: valid, or the address that came in
    {p \in {"InvalidResult"} : o.res = "ok" /\ \E k \in 1..Len(o.out) : ~Valid(o.out[k]) /\ o.out[k] # i.addr}
    \cup {p \in {"SenderExpanded"} : i.who = "sender" /\ o.res = "ok" /\ Len(o.out) # 1}
    \cup (IF single THEN Viol1(i.mods[1].t, i.who, i.addr, o)
          ELSE IF i.addr = Null THEN {p \in {"NullSenderRewritten"} : ~(o.res = "ok" /\ o.out = <<Null>>)}
          ELSE IF malformed THEN {p \in {"MalformedRewritten"} : ~(o.res = "err" \/ (o.res = "ok" /\ o.out = <<i.addr>>))}
          ELSE {p \in {"StackResultWrong"} : ~(SameOut(o, strict) \/ SameOut(o, lax))})

\* an envelope: o = [load, mail = [res, tmp], from, fin, rc = <<[res, tmp, dl = <<[t, a]..>>]..>>]
PipeViol(i, o) ==
  IF o.load = "panic" THEN {"Crashed"}
  ELSE IF o.load # "ok" THEN {"ConfigRefused"}
  ELSE
    LET p == PipeRule(i, {})
        anyDl == \E k \in 1..Len(o.rc) : o.rc[k].res = "ok"
        sameDl(x, y) == Len(x) = Len(y) /\ \A k \in 1..Len(x) : x[k].t = y[k].t /\ SameAddr(x[k].a, y[k].a)
    IN
    IF p.mail = "err" THEN
         {q \in {"SenderFailureIgnored"} : o.mail.res # "err"}
         \cup {q \in {"TableFailurePermanent"} : p.why = "tablefail" /\ o.mail.res = "err" /\ ~o.mail.tmp}
    ELSE IF o.mail.res # "ok" THEN {"SenderRefused"}
    ELSE
      {q \in {"SenderWrong"} : anyDl /\ ~SameAddr(o.from, p.from)}
      \cup {q \in {"DeliveryNotCompleted"} : anyDl /\ o.fin # "commit"}    \* body hooks of the groups, Commit
      \cup {q \in {"NullSenderRewritten"} : anyDl /\ i.from = Null /\ o.from # Null}
      \cup UNION {
          IF p.rc[k].res = "err" THEN
              {q \in {"RcptFailureIgnored"} : o.rc[k].res # "err"}
              \cup {q \in {"TableFailurePermanent"} : p.rc[k].why = "tablefail" /\ o.rc[k].res = "err" /\ ~o.rc[k].tmp}
          ELSE {q \in {"RcptRefused"} : o.rc[k].res # "ok"}
               \cup {q \in {"EnvelopeWrong"} : o.rc[k].res = "ok" /\ ~sameDl(o.rc[k].dl, p.rc[k].dl)}
               \cup {q \in {"InvalidResult"} : o.rc[k].res = "ok" /\ \E j \in 1..Len(o.rc[k].dl) :
                                                 ~Valid(o.rc[k].dl[j].a) /\ o.rc[k].dl[j].a # i.rcpts[k]}
          : k \in 1..Len(i.rcpts)}

DocViol(i, o) == {p \in {"DocExampleRefused"} : o.res # "ok"}

Viol(i, o) ==
  CASE i.fam = "mod" -> ModViol(i, o)
    [] i.fam = "pipe" -> PipeViol(i, o)
    [] i.fam = "doc" -> DocViol(i, o)

\* what the harness records for a row whose code behaves like r (used to judge the rule itself)
AsOut(i, r, devs) ==
  CASE i.fam = "mod" -> [res |-> r.res, out |-> r.out]
    [] i.fam = "pipe" ->
        [load |-> "ok",
         mail |-> [res |-> r.mail, tmp |-> r.mail = "err" /\ r.why = "tablefail" /\ "FailurePermanent" \notin devs],
         from |-> r.from,
         fin |-> IF r.mail = "ok" /\ \E k \in 1..Len(r.rc) : r.rc[k].res = "ok" THEN "commit" ELSE "none",
         rc |-> [k \in 1..Len(r.rc) |-> [res |-> r.rc[k].res, dl |-> r.rc[k].dl,
                                         tmp |-> r.rc[k].res = "err" /\ r.rc[k].why = "tablefail" /\ "FailurePermanent" \notin devs]]]
    [] i.fam = "doc" -> r

(***************************************************************************)
(* The input space.                                                        *)
(***************************************************************************)
cat == "cat"  dog == "dog"  mouse == "mouse"  list == "list"  bird == "bird"

\* the aliases file of envelope.md, extended: local and full keys, 1:N, a target that is a key itself
TAlias(impl) == Map(impl, <<
    En(S(cat, ""), <<S(dog, "")>>), En(S(cat, "a"), <<S(cat, "b")>>),
    En(S(list, ""), <<S(dog, ""), S(mouse, "")>>), En(S(list, "a"), <<S(cat, "b"), S(mouse, "a")>>),
    En(S(dog, ""), <<S(mouse, "b")>>), En(S("pm", ""), <<S(cat, "a")>>) >>)
\* keys that need the documented normalisation; keys not in normal form never match
TNorm == Map("static", <<
    En(S("e", "i"), <<S(dog, "a")>>), En(S("CAT", "a"), <<S(bird, "a")>>), En(S(cat, "A"), <<S(bird, "b")>>),
    En(S("e", ""), <<S(mouse, "")>>), En(S(dog, "i"), <<S(dog, "A"), S("E", "IX")>>), En(S("PM", ""), <<S(bird, "a")>>),
    En(S(mouse, ""), <<S("pm", "")>>) >>)
\* quoted strings as keys and values
TQuote == Map("static", <<
    En(S("q", ""), <<S(dog, "")>>), En(S("q", "a"), <<S(mouse, "a")>>),
    En(S(cat, ""), <<S("q", "")>>), En(S(dog, ""), <<S("qat", "")>>),
    En(S(mouse, ""), <<S("q", "b")>>), En(S(list, "a"), <<S("Q", "b"), S("qat", "a")>>) >>)
\* values that are not addresses
TBad == Map("static", <<
    En(S(cat, ""), <<S("sp", "")>>), En(S(dog, ""), <<Null>>), En(S(mouse, ""), <<S("sp", "b")>>),
    En(S(list, ""), <<S(dog, "bad")>>), En(S(cat, "b"), <<S("sp", "a")>>), En(S(dog, "b"), <<S(dog, "")>>),
    En(S(list, "b"), <<S("pm", "")>>), En(S(mouse, "b"), <<S(dog, "a"), S("sp", "a")>>),
    En(S(bird, ""), <<S(dog, ""), S("sp", "")>>) >>)
\* lookups that fail
TFailFull == FailMap(<<En(S(dog, ""), <<S(mouse, "")>>)>>, <<S(cat, "a"), S("pm", "")>>)
TFailLocal == FailMap(<<En(S(cat, "a"), <<S(dog, "a")>>)>>, <<S(cat, ""), S(list, "")>>)

Tables1 == {TAlias("static"), TAlias("file"), TAlias("sql"), TNorm, TQuote, TBad, TFailFull, TFailLocal,
            DomMap("b", <<"a">>), DomMap("b", <<"a", "i">>), DomMap("i", <<"b">>),
            LpDom(<<"a">>, FALSE), LpDom(<<"a", "b">>, TRUE), Const(S(bird, "a"))}
\* tables combined in groups of two and three
Tables2 == {TAlias("static"), TBad, TFailLocal, DomMap("b", <<"a", "i">>)}
           \cup (IF PipeFull THEN {TNorm, LpDom(<<"a", "b">>, FALSE)} ELSE {})
Tables3 == {TAlias("static"), TNorm, DomMap("b", <<"a">>)}

Addrs == {S(cat, "a"), S("CAT", "A"), S(cat, "b"), S(cat, "i"), S(cat, "ix"), S("CAT", "IX"),
          S(dog, "a"), S(dog, "b"), S(dog, "ix"), S(list, "a"), S(list, "b"), S(mouse, "a"), S(mouse, "b"),
          S("e", "i"), S("E", "IX"), S("q", "a"), S("Q", "A"), S(bird, "a"), S(bird, "b"),
          S("pm", ""), S("PM", ""), Null, S(cat, ""), S(cat, "0"), S("", "a")}
\* quoted local parts through email_localpart are X01-F5's business
NotX01(t, a) == ~(t.k = "lpdom" /\ LQuoted(a.l))

Mod(m, t) == [m |-> m, t |-> t]
MKinds == {"replace_rcpt", "replace_sender"}
Whos == {"rcpt", "sender"}
ModRow(who, a, mods) == [fam |-> "mod", who |-> who, addr |-> a, mods |-> mods]

AddrsOf(w) == IF w = "sender" THEN Addrs ELSE Addrs \ {Null}
RowsMod1 == UNION {{ModRow(w, a, <<Mod(m, t)>>) : a \in AddrsOf(w), m \in MKinds, t \in Tables1} : w \in Whos}
RowsMod2 == UNION {{ModRow(w, a, <<Mod(m1, t1), Mod(m2, t2)>>) :
                      a \in AddrsOf(w), m1 \in MKinds, m2 \in MKinds, t1 \in Tables2, t2 \in Tables2} : w \in Whos}
RowsMod3 == {ModRow("rcpt", a, <<Mod("replace_rcpt", t1), Mod("replace_rcpt", t2), Mod("replace_rcpt", t3)>>) :
               a \in Addrs \ {Null}, t1 \in Tables3, t2 \in Tables3, t3 \in Tables3}
\* a handful of rows on which every deviation of HEAD shows (the as-is runs)
RowsMod0 == UNION {{ModRow(w, a, <<Mod(m, t)>>) : a \in {S(cat, "a"), S(mouse, "a"), Null} \cap AddrsOf(w), m \in MKinds,
                      t \in {TBad, TQuote, LpDom(<<"a", "b">>, TRUE), Const(S(bird, "a"))}} : w \in Whos}
RowsModOK == {r \in (IF "mod0" \in Fams THEN RowsMod0 ELSE {}) \cup (IF "mod1" \in Fams THEN RowsMod1 ELSE {}) \cup (IF "mod2" \in Fams THEN RowsMod2 ELSE {})
                     \cup (IF "mod3" \in Fams THEN RowsMod3 ELSE {}) :
                \A k \in 1..Len(r.mods) : NotX01(r.mods[k].t, r.addr)}

\* pipeline rows: groups of modifiers at the three scopes
StacksCore == {<<>>, <<Mod("replace_rcpt", TAlias("static"))>>,
               <<Mod("replace_rcpt", TBad)>>, <<Mod("replace_rcpt", TFailLocal)>>,
               <<Mod("replace_sender", TFailFull)>>,
               <<Mod("replace_sender", Const(S(bird, "a")))>>,
               <<Mod("replace_rcpt", DomMap("a", <<"b", "i">>)), Mod("replace_sender", DomMap("b", <<"a">>))>>}
StacksMore == {<<Mod("replace_rcpt", TNorm)>>, <<Mod("replace_sender", TAlias("static"))>>,
               <<Mod("replace_rcpt", TAlias("sql")), Mod("replace_rcpt", DomMap("b", <<"a">>))>>}
Stacks == IF PipeFull THEN StacksCore \cup StacksMore ELSE StacksCore
Froms == IF PipeFull THEN {S(cat, "a"), S(dog, "b"), Null, S("pm", "")} ELSE {S(cat, "a"), Null}
RcptLists == {<<S(cat, "a")>>, <<S(list, "a"), S(bird, "b")>>, <<S(dog, "b"), S(cat, "b")>>, <<S(mouse, "a"), S("pm", "")>>}
             \cup (IF PipeFull THEN {<<S("CAT", "IX")>>, <<S(list, "b")>>} ELSE {})
RowsPipe == IF "pipe" \in Fams
            THEN {[fam |-> "pipe", g |-> g, s |-> s, d |-> d, from |-> f, rcpts |-> rs] :
                     g \in Stacks, s \in Stacks, d \in Stacks, f \in Froms, rs \in RcptLists}
            ELSE {}
RowsPipe0 == IF "pipe0" \in Fams
             THEN {[fam |-> "pipe", g |-> g, s |-> <<>>, d |-> <<>>, from |-> S(cat, "a"), rcpts |-> <<S(cat, "b")>>] :
                     g \in {<<Mod("replace_rcpt", TFailLocal)>>, <<Mod("replace_sender", TFailFull)>>}}
             ELSE {}
RowsDoc == IF "doc" \in Fams THEN {[fam |-> "doc", doc |-> x] : x \in Docs} ELSE {}

Rows == RowsModOK \cup RowsPipe \cup RowsPipe0 \cup RowsDoc

Init == in \in Rows
Next == UNCHANGED in
Spec == Init /\ [][Next]_in

\* the documented rule satisfies the declarative property on every row
RuleSatisfiesProp == Viol(in, AsOut(in, Rule(in), {})) = {}
\* with the deviations of HEAD it does not (checked to fail: the predicates are not vacuous)
AsIsSatisfiesProp == Viol(in, AsOut(in, RuleWith(in, Devs), Devs)) = {}

Emit == Gen => PrintT(<<"ROW", ToJson([in |-> in, exp |-> AsOut(in, Rule(in), {})])>>)
=============================================================================
