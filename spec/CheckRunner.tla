------------------------------ MODULE CheckRunner ------------------------------
(***************************************************************************)
(* Design specification of the check side of maddy's message pipeline      *)
(* (internal/msgpipeline/check_runner.go: checkStates, runAndMergeResults, *)
(* checkConnSender, checkRcpt, checkBody, applyResults; msgpipeline.go:    *)
(* Start, AddRcpt, Body, BodyNonAtomic, Commit, Abort), at the granularity *)
(* of the calls visible at its boundaries: one action per command issued   *)
(* on the pipeline (Cmd), per finished check call (CallDone), per call on  *)
(* a delivery target (Tgt) and per command result (Ret).                   *)
(*                                                                         *)
(* A configuration places every check on a set of scopes (global "G", the  *)
(* source block "S", destination blocks "D1"/"D2"; the same check object   *)
(* may be referenced from several), gives it a verdict per stage and       *)
(* routes 1..3 recipients to destination blocks.  Per message the runner   *)
(* keeps one state per check, created lazily on the first visit of a block *)
(* that lists the check, with a replay of the connection and sender stage  *)
(* and of the recipients checked so far.  The checks of a group run in     *)
(* parallel: `run.pend` is the set of calls in flight, CallDone(c) merges  *)
(* any of them (reject dominates, quarantine accumulates, ignore/none =    *)
(* nothing).  applyResults copies the merged quarantine flag (and the      *)
(* DMARC quarantine action) into the message metadata which the targets    *)
(* observe.                                                                *)
(*                                                                         *)
(* Besides none/ignore/quarantine/reject (what FailAction.Apply makes of a *)
(* failure) a check may return the raw combined result Reject &&           *)
(* Quarantine (ExtraV; check.milter does): reject wins - it counts as a    *)
(* reject in the merge and its quarantine half is dropped with the group.  *)
(*                                                                         *)
(* Two further dimensions (constants Kinds, ModOn):                         *)
(*  kind "qpipe"  the target of block D1 is the real queue; once committed  *)
(*                it hands the message to its own target with the          *)
(*                quarantine flag the pipeline set (action Relay);         *)
(*  kind "rpipe"  the target of block D1 is the real remote target, which  *)
(*                refuses a message that is flagged when the body reaches  *)
(*                it, on the atomic and on the per-recipient path alike;   *)
(*  mod "on"      the destination blocks carry a recipient modifier that   *)
(*                may fail for one recipient (action Mod): that RCPT is    *)
(*                refused, and the refusal does not change which blocks'   *)
(*                checks see the body (the block was attached to the       *)
(*                message before the modifier ran).                        *)
(*                                                                         *)
(* Three more dimensions (constants EarlyOn, DupOn, Dmarcs/Vias; see also   *)
(* CheckRunnerObs.tla):                                                     *)
(*  early   the connection-time entry RunEarlyChecks: before Start the      *)
(*          driver issues command "early"; the checks of the global block   *)
(*          that have the module.EarlyCheck hook (cfg.early, any subset of  *)
(*          them, so a hooked check is listed before and after plain ones)  *)
(*          run concurrently (ECallDone) and any refusal (cfg.everd)        *)
(*          refuses the connection: no message follows.                     *)
(*  dup     a RCPT command may repeat an address given before (cfg.dupof[i] *)
(*          = position of its first occurrence, 0 = new address): checks    *)
(*          that have seen the address are not asked again, the targets are *)
(*          told again, and a recipient refused by the verdict of its own   *)
(*          check group stays refused (k.rejd).                             *)
(*  dmarc   the action of the published DMARC policy is one of off / none / *)
(*          quar / rej; "rej" refuses the body in applyResults, after every *)
(*          body check has passed, on both body paths.  cfg.dmvia (how the  *)
(*          policy is published: p / sp, From domain / organizational       *)
(*          domain) is an input the design is independent of: it is chosen  *)
(*          here only so that TLC enumerates it for the replay.             *)
(*                                                                         *)
(* Deviations of the code from this design are named and switched by Devs: *)
(*  "NABody"            BodyNonAtomic (per-recipient body path) skips the  *)
(*                      destination-scope body checks and applyResults     *)
(*                      (DESIGN 6 row 6).                                  *)
(*  "BodyPerScope"      checkBody calls CheckBody on every state of the    *)
(*                      visited block, so a check referenced from several  *)
(*                      scopes sees the body once per scope (row 7).       *)
(*  "ReplayRejectLeaks" a reject returned for a replayed recipient (one    *)
(*                      answered earlier) fails the command being handled, *)
(*                      i.e. refuses a different recipient.                *)
(*  "DupAfterReject"    a recipient refused by the verdict of a check that  *)
(*                      keeps its state (global / source block, or a block  *)
(*                      visited before) is accepted when the RCPT command   *)
(*                      is repeated: the check has "seen" the address and   *)
(*                      is not asked again, and its answer is forgotten.    *)
(***************************************************************************)
EXTENDS CheckRunnerObs, TLC, SequencesExt, FiniteSetsExt, Json

CONSTANTS NChecks,      \* number of checks (1..4); names c1.. in default completion order
          MaxRcpts,     \* 1..3
          MaxNonNone,   \* at most this many non-"none" cells in the verdict table
          MaxScopes,    \* a check is referenced from at most this many scopes
          Dmarcs,       \* subset of {"off", "none", "quar", "rej"}: action of the published DMARC policy
          Vias,         \* how that policy is published (opaque to the design; replayed by the harness)
          EarlyOn,      \* TRUE: the connection-time entry RunEarlyChecks is driven before Start
          DupOn,        \* TRUE: a RCPT command may repeat an earlier address
          ExtraV,       \* subset of Combined: raw Reject && Quarantine results in the verdict alphabet
          Only1On,      \* TRUE: rcpt-stage verdicts may apply to recipient r1 only
          WithRemote,   \* TRUE: include the remote-target scenario
          Froms,        \* subset of {"addr", "null"}: ordinary sender / the null reverse-path (same behaviour)
          Kinds,        \* subset of {"pipe", "rpipe"}: recording targets / the real remote target behind D1
          ModOn,        \* TRUE: destination blocks may carry a recipient modifier that fails for one recipient
          Lazy,         \* TRUE: verdicts, routes, body path are chosen when first consulted
                        \* (same behaviours, shared prefixes); FALSE: chosen up-front (CfgS, CfgF)
          Devs,         \* enabled deviations
          Gen,          \* TRUE: keep the history, print complete behaviours, bound the delays
          MaxDelay      \* Gen: completions out of default order per behaviour

CheckSeq == SubSeq(<<"c1", "c2", "c3", "c4">>, 1, NChecks)
Checks == ToSet(CheckSeq)
N      == NChecks
Idx(c) == CHOOSE i \in 1..N : CheckSeq[i] = c

VARIABLES cfg,     \* configuration of the behaviour (fixed)
          drv,     \* driver: which command comes next
          k,       \* checkRunner: reg (states), seenR (checkedRcptsPerCheck), checked, mq, bodySeen
          metaQ,   \* MsgMetadata.Quarantine
          used,    \* destination blocks with an accepted recipient (rcptModifiersState)
          tg,      \* delivery per target: "none" | "open" | "done"
          run,     \* command in progress
          devs,    \* deviations that changed this behaviour
          delays,  \* Gen: delays spent
          obs,     \* observation state (CheckRunnerObs)
          hist     \* Gen: history

vars == <<cfg, drv, k, metaQ, used, tg, run, devs, delays, obs, hist>>
View == <<cfg, drv, k, metaQ, used, tg, run, devs, obs>>

(* ------------------------------------------------------------------------ *)
(* configurations                                                           *)
(* ------------------------------------------------------------------------ *)
PlaceRank(P) == (IF "G" \in P THEN 8 ELSE 0) + (IF "S" \in P THEN 4 ELSE 0)
                + (IF "D1" \in P THEN 2 ELSE 0) + (IF "D2" \in P THEN 1 ELSE 0)
PlaceSet  == {P \in SUBSET Scopes : Cardinality(P) <= MaxScopes}
\* checks are interchangeable: placements in non-decreasing rank, unused checks first
PlaceSeqs == {p \in [1..N -> PlaceSet] :
                /\ \A i \in 1..(N - 1) : PlaceRank(p[i]) <= PlaceRank(p[i + 1])
                /\ p[N] # {}}
Cells(p)    == {i \in 1..N : p[i] # {}} \X Stages
CellSets(p) == UNION {kSubset(n, Cells(p)) : n \in 0..MaxNonNone}
\* destination blocks are interchangeable: the first recipient goes to D1
Routes == {rt \in UNION {[1..n -> DBlocks] : n \in 1..MaxRcpts} : rt[1] = "D1"}

\* The configuration is revealed step by step ("?" = not consulted yet); a behaviour depends
\* only on the cells it consults, so this is the same set of behaviours as choosing everything
\* up-front, with shared prefixes.
BaseCfg(p, kd, fr) ==
  [place |-> [c \in Checks |-> p[Idx(c)]],
   verd  |-> [c \in Checks |-> [s \in Stages |-> "?"]],
   only1 |-> {}, route |-> <<>>, dupof |-> <<>>, path |-> "?", dmarc |-> "?", dmvia |-> "?", kind |-> kd,
   early |-> {}, everd |-> {}, eon |-> FALSE,
   mod |-> IF ModOn /\ kd = "pipe" THEN "?" ELSE "off", mfail |-> {}, from |-> fr, nafin |-> "?",
   nn |-> 0, cells |-> {}, fixed |-> FALSE]

RemoteCfg ==
  [place |-> [c \in Checks |-> {}], verd |-> [c \in Checks |-> [s \in Stages |-> "none"]],
   only1 |-> {}, route |-> <<"D1">>, dupof |-> <<0>>, path |-> "atomic", dmarc |-> "off", dmvia |-> "-", kind |-> "remote",
   early |-> {}, everd |-> {}, eon |-> FALSE,
   mod |-> "off", mfail |-> {}, from |-> "addr", nafin |-> "commit", nn |-> 0, cells |-> {}, fixed |-> TRUE]

Idle == [st |-> "idle", op |-> "", r |-> "", items |-> <<>>, todo |-> <<>>, pend |-> {},
         rej |-> FALSE, anyrej |-> FALSE, gq |-> FALSE, tq |-> {}, tfail |-> FALSE, res |-> ""]

InitWith(c) ==
  /\ cfg = c
  /\ drv = [ph |-> IF c.kind = "remote" THEN "remote" ELSE IF c.eon THEN "early" ELSE IF Lazy THEN "start" ELSE "cfgS",
            i |-> 1, acc |-> {}, fin |-> ""]
  /\ k = [reg |-> {}, seenR |-> [x \in Checks |-> {}], checked |-> <<>>, mq |-> FALSE, bodySeen |-> {}, rejd |-> {}]
  /\ metaQ = (c.kind = "remote")
  /\ used = {}
  /\ tg = [t \in Targets |-> "none"]
  /\ run = Idle
  /\ devs = {} /\ delays = 0
  /\ obs = ObsInit(Checks)
  /\ hist = <<>>

\* which checks of the global block have the connection-time hook, which of them refuse the connection
WithEarly(c) == IF ~EarlyOn THEN {c}
                ELSE UNION {{[c EXCEPT !.early = ea, !.everd = er, !.eon = TRUE] : er \in SUBSET ea} :
                            ea \in SUBSET ChecksIn(c, "G")}

Init ==
  \/ \E p \in PlaceSeqs : \E kd \in Kinds : \E fr \in Froms : \E c \in WithEarly(BaseCfg(p, kd, fr)) : InitWith(c)
  \/ WithRemote /\ InitWith(RemoteCfg)

(* up-front choice of the verdict table (~Lazy): which cells are not "none", then their values *)
CfgS ==
  /\ drv.ph = "cfgS"
  /\ \E S \in CellSets([i \in 1..N |-> cfg.place[CheckSeq[i]]]) : cfg' = [cfg EXCEPT !.cells = S]
  /\ drv' = [drv EXCEPT !.ph = "cfgF"]
  /\ UNCHANGED <<k, metaQ, used, tg, run, devs, delays, obs, hist>>

CfgF ==
  /\ drv.ph = "cfgF"
  /\ \E f \in [cfg.cells -> {"ignore", "quar", "reject"} \cup ExtraV] :
     \E o \in (IF Only1On THEN SUBSET {i \in 1..N : <<i, "rcpt">> \in cfg.cells} ELSE {{}}) :
       cfg' = [cfg EXCEPT !.verd = [c \in Checks |-> [s \in Stages |->
                                       IF <<Idx(c), s>> \in cfg.cells THEN f[<<Idx(c), s>>] ELSE "none"]],
                          !.only1 = {CheckSeq[i] : i \in o},
                          !.cells = {}]
  /\ drv' = [drv EXCEPT !.ph = "start"]
  /\ UNCHANGED <<k, metaQ, used, tg, run, devs, delays, obs, hist>>

H(e) == IF Gen THEN Append(hist, e) ELSE hist

(* ------------------------------------------------------------------------ *)
(* one visit of block b = checkStates(block checks) + the operation's group *)
(* ------------------------------------------------------------------------ *)
\* kind: "cs" (checkConnSender) | "rcpt" (checkRcpt r) | "body" (checkBody)
VisitItems(kk, b, kind, r) ==
  LET cs  == ChecksIn(cfg, b)
      new == cs \ kk.reg
      seen0(c) == IF c \in new THEN {} ELSE kk.seenR[c]
      grp(stage, arg, mem, isop) ==
        [t |-> "grp", stage |-> stage, arg |-> arg, mem |-> mem, new |-> new, isop |-> isop]
      cre == IF new = {} THEN <<>>
             ELSE <<grp("conn", "", new, FALSE), grp("sender", "", new, FALSE)>>
      \* replay of the recipients checked so far, to every state of the block that has not seen them
      rep == IF new = {} THEN <<>>
             ELSE SelectSeq([i \in 1..Len(kk.checked) |->
                               grp("rcpt", kk.checked[i], {c \in cs : kk.checked[i] \notin seen0(c)}, FALSE)],
                            LAMBDA g : g.mem # {})
      seen1(c) == IF new = {} THEN kk.seenR[c] ELSE seen0(c) \cup ToSet(kk.checked)
      opi == CASE kind = "rcpt" ->
                    LET m == {c \in cs : r \notin seen1(c)}
                    IN (IF m = {} THEN <<>> ELSE <<grp("rcpt", r, m, TRUE)>>) \o <<[t |-> "chk", r |-> r]>>
               [] kind = "body" ->
                    LET m == IF "BodyPerScope" \in Devs THEN cs ELSE cs \ kk.bodySeen
                    IN IF m = {} THEN <<>> ELSE <<grp("body", "", m, TRUE)>>
               [] OTHER -> <<>>
  IN cre \o rep \o <<[t |-> "reg", new |-> new]>> \o opi

AddChecked(s, r) == IF r \in ToSet(s) THEN s ELSE Append(s, r)

\* skip over bookkeeping items and empty visits up to the next group of calls
RECURSIVE Adv(_, _, _, _, _)
Adv(kk, items, todo, kind, r) ==
  IF items # <<>>
  THEN LET h == Head(items) IN
       CASE h.t = "grp" -> [k |-> kk, items |-> items, todo |-> todo]
         [] h.t = "reg" -> Adv([kk EXCEPT !.reg = @ \cup h.new], Tail(items), todo, kind, r)
         [] h.t = "chk" -> Adv([kk EXCEPT !.checked = AddChecked(@, h.r)], Tail(items), todo, kind, r)
  ELSE IF todo # <<>>
       THEN Adv(kk, VisitItems(kk, Head(todo), kind, r), Tail(todo), kind, r)
       ELSE [k |-> kk, items |-> <<>>, todo |-> <<>>]

KindOf(op) == CASE op = "start" -> "cs" [] op = "rcpt" -> "rcpt" [] OTHER -> "body"

OpenTargets == {t \in Targets : tg[t] = "open"}

\* the queue's delivery has no BodyNonAtomic: the per-recipient path hands it the body with Body
BodyOp(cf, t) == IF cf.path = "na" /\ ~(cf.kind = "qpipe" /\ t = "T1") THEN "bodyNA" ELSE "body"

(* all checks of the command passed: what follows them (cf = configuration as revealed so far) *)
AfterChecks(kk, dv, op, r, cf) ==
  CASE op = "start" ->
         /\ k' = kk /\ devs' = dv /\ cfg' = cf
         /\ run' = [Idle EXCEPT !.st = "ret", !.op = op, !.r = r, !.res = "ok"]
         /\ UNCHANGED <<used, metaQ>>
    [] op = "rcpt" ->
         LET b == RouteOf(cf, r)
             t == TargetOf(b)
         IN \* the block's recipient modifiers are attached to the message (getRcptModifiers): from here
            \* on the block takes part in the body stage, whatever happens to this recipient
            \E m \in (IF cf.mod = "?" THEN {"on", "off"} ELSE {cf.mod}) :
            /\ k' = kk /\ devs' = dv /\ cfg' = [cf EXCEPT !.mod = m]
            /\ used' = used \cup {b}
            /\ run' = [Idle EXCEPT !.st = IF m = "on" THEN "mod" ELSE "tgt", !.op = op, !.r = r,
                                   !.tq = {[t |-> t, op |-> "rcpt"]}
                                          \cup (IF tg[t] = "none" THEN {[t |-> t, op |-> "start"]} ELSE {})]
            /\ UNCHANGED metaQ
    [] op = "body" ->
         \* applyResults: quarantine flag and DMARC action
         \E dm \in (IF cf.dmarc = "?" THEN Dmarcs ELSE {cf.dmarc}) :
         \E via \in (IF cf.dmvia # "?" THEN {cf.dmvia} ELSE IF dm = "off" THEN {"-"} ELSE Vias) :
         LET skip == cf.path = "na" /\ "NABody" \in Devs
             q1   == kk.mq \/ dm = "quar"
             drej == dm = "rej" /\ ~skip       \* the policy refuses the message: no target is handed the body
         IN /\ k' = kk /\ cfg' = [cf EXCEPT !.dmarc = dm, !.dmvia = via]
            /\ metaQ' = IF skip THEN metaQ ELSE (metaQ \/ q1)
            /\ devs' = dv \cup (IF skip /\ (q1 \/ dm = "rej") THEN {"NABody"} ELSE {})
            /\ run' = IF drej THEN [Idle EXCEPT !.st = "ret", !.op = op, !.r = r, !.res = "err"]
                      ELSE [Idle EXCEPT !.st = "tgt", !.op = op, !.r = r,
                                        !.tq = {[t |-> t, op |-> BodyOp(cf, t)] : t \in OpenTargets}]
            /\ UNCHANGED used

Proceed(kk, items, todo, dv, op, r, cf) ==
  LET a == Adv(kk, items, todo, KindOf(op), r) IN
  IF a.items # <<>>
  THEN /\ k' = a.k /\ devs' = dv /\ cfg' = cf
       /\ run' = [Idle EXCEPT !.st = "grp", !.op = op, !.r = r, !.items = a.items, !.todo = a.todo,
                              !.pend = Head(a.items).mem]
       /\ UNCHANGED <<used, metaQ>>
  ELSE AfterChecks(a.k, dv, op, r, cf)

(* ------------------------------------------------------------------------ *)
(* the driver issues the next command                                       *)
(* ------------------------------------------------------------------------ *)
NextOp == CASE drv.ph = "early" -> "early" [] drv.ph = "start" -> "start" [] drv.ph = "rcpt" -> "rcpt"
            [] drv.ph = "body" -> "body" [] OTHER -> drv.fin
\* recipient ids are per address: position i names a new address (RcptSeq[i]) or repeats an earlier one
RcptAt(i, d) == IF d = 0 THEN RcptSeq[i] ELSE RcptSeq[d]
\* (for positions the configuration has fixed already; a new position is chosen in Cmd)
NextR  == IF drv.ph = "rcpt" /\ drv.i <= Len(cfg.dupof) THEN RcptAt(drv.i, cfg.dupof[drv.i]) ELSE ""
\* positions a new RCPT command may repeat: first occurrences of earlier addresses
DupChoices == IF DupOn THEN {0} \cup {j \in 1..(drv.i - 1) : cfg.dupof[j] = 0} ELSE {0}

\* Body visits the destination blocks in map order
DestOrders == IF used = {"D1", "D2"} THEN (IF Gen THEN {<<"D1", "D2">>} ELSE {<<"D1", "D2">>, <<"D2", "D1">>})
              ELSE IF used = {"D1"} THEN {<<"D1">>} ELSE IF used = {"D2"} THEN {<<"D2">>} ELSE {<<>>}

First(S) == CHOOSE c \in S : \A d \in S : Idx(c) <= Idx(d)

CmdObs(op, r) == /\ obs' = ObsCmd(obs, cfg, op, r)
                 /\ hist' = H([a |-> "cmd", op |-> op, r |-> r])

Cmd ==
  /\ run.st = "idle" /\ drv.ph \in {"early", "start", "rcpt", "body", "fin"}
  /\ LET op == NextOp
     IN CASE op \in {"commit", "abort"} ->
                \* Commit after the per-recipient body was refused for everybody by a check: the pipeline
                \* aborts the target deliveries instead (nothing is committed after a refusal)
                /\ CmdObs(op, "")
                /\ LET top == IF op = "commit" /\ obs.dead THEN "abort" ELSE op IN
                   run' = IF OpenTargets = {} THEN [Idle EXCEPT !.st = "ret", !.op = op, !.res = "ok"]
                          ELSE [Idle EXCEPT !.st = "tgt", !.op = op, !.tq = {[t |-> t, op |-> top] : t \in OpenTargets}]
                /\ UNCHANGED <<cfg, k, devs, used, metaQ>>
             [] op = "early" ->
                \* RunEarlyChecks: the hooked checks of the global block, all at once
                /\ CmdObs(op, "")
                /\ run' = IF cfg.early = {} THEN [Idle EXCEPT !.st = "ret", !.op = op, !.res = "ok"]
                          ELSE [Idle EXCEPT !.st = "egrp", !.op = op, !.pend = cfg.early]
                /\ UNCHANGED <<cfg, k, devs, used, metaQ>>
             [] op = "start" -> CmdObs(op, "") /\ Proceed(k, <<>>, <<"G", "S">>, devs, op, "", cfg)
             [] op = "rcpt"  ->
                \* the address (new, or a repetition of an earlier one) and the block it is routed to
                \* (destination blocks are interchangeable: the first recipient goes to D1)
                \E d \in (IF drv.i <= Len(cfg.route) THEN {cfg.dupof[drv.i]} ELSE DupChoices) :
                \E b \in (IF drv.i <= Len(cfg.route) THEN {cfg.route[drv.i]}
                          ELSE IF d # 0 THEN {cfg.route[d]}
                          ELSE IF drv.i = 1 \/ cfg.kind \in {"rpipe", "qpipe"} THEN {"D1"} ELSE DBlocks) :
                  LET cf == IF drv.i <= Len(cfg.route) THEN cfg
                            ELSE [cfg EXCEPT !.route = Append(@, b), !.dupof = Append(@, d)]
                      r  == RcptAt(drv.i, d)
                  IN /\ CmdObs(op, r)
                     /\ IF r \in k.rejd /\ "DupAfterReject" \notin Devs
                        THEN \* a check refused this recipient: the answer stands
                             /\ run' = [Idle EXCEPT !.st = "ret", !.op = op, !.r = r, !.res = "err"]
                             /\ cfg' = cf
                             /\ UNCHANGED <<k, devs, used, metaQ>>
                        ELSE Proceed(k, <<>>, <<"G", "S", b>>,
                                     devs \cup (IF r \in k.rejd THEN {"DupAfterReject"} ELSE {}), op, r, cf)
             [] op = "body"  ->
                /\ CmdObs(op, "")
                /\ \E pth \in (IF cfg.path = "?" THEN {"atomic", "na"} ELSE {cfg.path}) :
                  LET cf   == [cfg EXCEPT !.path = pth]
                      skip == pth = "na" /\ "NABody" \in Devs
                      dv   == devs \cup (IF skip /\ \E b \in used : ChecksIn(cfg, b) # {}
                                         THEN {"NABody"} ELSE {})
                  IN \E ord \in DestOrders :
                       Proceed(k, <<>>, <<"G", "S">> \o (IF skip THEN <<>> ELSE ord), dv, op, "", cf)
  /\ UNCHANGED <<drv, tg, delays>>

(* one of the connection-time hooks (RunEarlyChecks) finishes *)
ECallDone(c) ==
  /\ run.st = "egrp" /\ c \in run.pend
  /\ IF Gen /\ c # First(run.pend)
     THEN delays < MaxDelay /\ delays' = delays + 1
     ELSE UNCHANGED delays
  /\ LET v    == IF c \in cfg.everd THEN "reject" ELSE "none"
         p1   == run.pend \ {c}
         rej1 == run.rej \/ v = "reject"
     IN /\ obs' = ObsCall(obs, cfg, c, "early", "", v, obs.n)
        /\ hist' = H([a |-> "call", c |-> c, stage |-> "early", arg |-> ""])
        /\ run' = IF p1 # {} THEN [run EXCEPT !.pend = p1, !.rej = rej1]
                  ELSE [Idle EXCEPT !.st = "ret", !.op = "early", !.res = IF rej1 THEN "err" ELSE "ok"]
  /\ UNCHANGED <<cfg, drv, k, metaQ, used, tg, devs>>

(* ------------------------------------------------------------------------ *)
(* one of the parallel check calls of the current group finishes            *)
(* ------------------------------------------------------------------------ *)
CallDone(c) ==
  /\ run.st = "grp" /\ c \in run.pend
  /\ IF Gen /\ c # First(run.pend)
     THEN delays < MaxDelay /\ delays' = delays + 1
     ELSE UNCHANGED delays
  /\ LET g     == Head(run.items)
         raw   == cfg.verd[c][g.stage]
         only  == g.stage = "rcpt" /\ c \in cfg.only1 /\ g.arg # "r1"   \* verdict applies to r1 only
         fresh == raw = "?" /\ ~only
     IN
     \E v \in (IF only THEN {"none"} ELSE IF raw # "?" THEN {raw}
               ELSE IF cfg.nn < MaxNonNone THEN Verdicts \cup ExtraV ELSE {"none"}) :
     \E o1 \in (IF fresh /\ v # "none" /\ g.stage = "rcpt" /\ g.arg = "r1" /\ Only1On THEN BOOLEAN ELSE {FALSE}) :
     LET cf   == IF fresh THEN [cfg EXCEPT !.verd[c][g.stage] = v,
                                           !.nn = IF v # "none" THEN @ + 1 ELSE @,
                                           !.only1 = IF o1 THEN @ \cup {c} ELSE @]
                 ELSE cfg
         \* a reject for a replayed recipient other than the one being handled is moot by design
         moot == IsRej(v) /\ g.stage = "rcpt" /\ ~(run.op = "rcpt" /\ g.arg = run.r)
         leak == moot /\ "ReplayRejectLeaks" \in Devs
         rej1 == run.rej \/ (IsRej(v) /\ (~moot \/ leak))
         any1 == run.anyrej \/ IsRej(v)        \* a group with a reject does not merge its quarantines
         gq1  == run.gq \/ v = "quar"
         k1   == [k EXCEPT !.seenR[c] = IF g.stage = "rcpt" THEN @ \cup {g.arg} ELSE @,
                           !.bodySeen = IF g.stage = "body" THEN @ \cup {c} ELSE @]
         p1   == run.pend \ {c}
         dv   == devs \cup (IF leak THEN {"ReplayRejectLeaks"} ELSE {})
                      \cup (IF g.stage = "body" /\ c \in k.bodySeen THEN {"BodyPerScope"} ELSE {})
     IN /\ obs' = ObsCall(obs, cf, c, g.stage, g.arg, v, obs.n)
        /\ hist' = H([a |-> "call", c |-> c, stage |-> g.stage, arg |-> g.arg])
        /\ IF p1 # {}
           THEN /\ k' = k1 /\ devs' = dv /\ cfg' = cf
                /\ run' = [run EXCEPT !.pend = p1, !.rej = rej1, !.anyrej = any1, !.gq = gq1]
                /\ UNCHANGED <<used, metaQ>>
           ELSE IF rej1
           THEN \* the command fails; states created by this visit are discarded unless
                \* checkStates had finished (operation group)
                /\ k' = [k1 EXCEPT !.seenR = IF g.isop THEN @
                                             ELSE [x \in Checks |-> IF x \in g.new THEN {} ELSE @[x]],
                                   !.checked = IF g.isop /\ g.stage = "rcpt" THEN AddChecked(@, g.arg) ELSE @,
                                   \* a check refused the recipient being handled: states that have seen it
                                   \* (kept ones, or ones created later and shown it in a replay) will not be
                                   \* asked again, so the refusal itself is remembered
                                   !.rejd = IF g.stage = "rcpt" /\ run.op = "rcpt" /\ g.arg = run.r
                                            THEN @ \cup {g.arg} ELSE @]
                /\ devs' = dv /\ cfg' = cf
                /\ run' = [Idle EXCEPT !.st = "ret", !.op = run.op, !.r = run.r, !.res = "err"]
                /\ UNCHANGED <<used, metaQ>>
           ELSE Proceed([k1 EXCEPT !.mq = @ \/ (gq1 /\ ~any1)],
                        Tail(run.items), run.todo, dv, run.op, run.r, cf)
  /\ UNCHANGED <<drv, tg>>

(* ------------------------------------------------------------------------ *)
(* calls on the delivery targets (scripted to succeed)                      *)
(* ------------------------------------------------------------------------ *)
\* the real remote target refuses a flagged message for good; recording targets always succeed
TgtRes(x) == IF cfg.kind = "rpipe" /\ metaQ /\ x.op \in {"rcpt", "body", "bodyNA"} THEN "perm" ELSE "ok"

Tgt(x) ==
  /\ run.st = "tgt" /\ x \in run.tq
  /\ x.op = "rcpt" => [t |-> x.t, op |-> "start"] \notin run.tq
  /\ obs' = ObsTgt(obs, cfg, x.t, x.op, IF x.op = "rcpt" THEN run.r ELSE "", TgtRes(x), metaQ)
  /\ tg' = CASE x.op = "start" -> [tg EXCEPT ![x.t] = "open"]
             [] x.op = "commit" -> [tg EXCEPT ![x.t] = IF @ = "relayed" THEN @ ELSE "committed"]
             [] x.op = "abort" -> [tg EXCEPT ![x.t] = "done"]
             [] OTHER -> tg
  /\ LET tf == run.tfail \/ TgtRes(x) # "ok" IN
     run' = IF run.tq = {x} THEN [run EXCEPT !.st = "ret", !.tq = {}, !.tfail = FALSE,
                                            !.res = IF tf THEN "err" ELSE "ok"]
            ELSE [run EXCEPT !.tq = @ \ {x}, !.tfail = tf]
  /\ UNCHANGED <<cfg, drv, k, metaQ, used, devs, delays, hist>>

(* the destination block's recipient modifier rewrites the recipient - or fails (at most once) *)
Mod ==
  /\ run.st = "mod"
  \* (the modifier's answer depends on the address: a repeated address gets the answer it got before)
  /\ \E fail \in (IF cfg.fixed \/ cfg.mfail # {} \/ run.r \in drv.acc THEN {run.r \in cfg.mfail} ELSE BOOLEAN) :
       /\ cfg' = IF fail THEN [cfg EXCEPT !.mfail = @ \cup {run.r}] ELSE cfg
       /\ obs' = ObsMod(obs, cfg, RouteOf(cfg, run.r), run.r, IF fail THEN "err" ELSE "ok")
       /\ run' = IF fail THEN [Idle EXCEPT !.st = "ret", !.op = run.op, !.r = run.r, !.res = "err"]
                 ELSE [run EXCEPT !.st = "tgt"]
  /\ UNCHANGED <<drv, k, metaQ, used, tg, devs, delays, hist>>

Ret ==
  /\ run.st = "ret"
  /\ obs' = ObsRet(obs, cfg, run.op, run.r, run.res)
  /\ run' = Idle
  /\ LET ok   == run.res = "ok"
         acc1 == IF ok /\ run.op = "rcpt" THEN drv.acc \cup {run.r} ELSE drv.acc
         more == [drv EXCEPT !.i = @ + 1, !.acc = acc1]
         stop == IF acc1 = {} THEN [drv EXCEPT !.ph = "fin", !.fin = "abort", !.acc = acc1]
                 ELSE [drv EXCEPT !.ph = "body", !.acc = acc1]
     IN CASE run.op = "early" -> drv' = IF ok THEN [drv EXCEPT !.ph = IF Lazy THEN "start" ELSE "cfgS"]
                                        ELSE [drv EXCEPT !.ph = "end"]       \* connection refused: no message
          [] run.op = "start" -> drv' = IF ok THEN [drv EXCEPT !.ph = "rcpt", !.i = 1] ELSE [drv EXCEPT !.ph = "end"]
          [] run.op = "rcpt" ->
               IF drv.i < Len(cfg.route) THEN drv' = more
               ELSE \/ drv' = stop
                    \/ ~cfg.fixed /\ drv.i < MaxRcpts /\ drv' = more     \* one more recipient
          \* after a refused per-recipient body both endings occur: the LMTP endpoint and the queue commit
          \* whatever the statuses were, other callers abort (cfg.nafin, revealed here)
          [] run.op = "body" ->
               \E f \in (IF ok THEN {"commit"} ELSE IF cfg.path # "na" THEN {"abort"}
                         ELSE IF cfg.nafin = "?" THEN {"commit", "abort"} ELSE {cfg.nafin}) :
                 /\ drv' = [drv EXCEPT !.ph = "fin", !.fin = f]
                 /\ cfg' = IF ~ok /\ cfg.path = "na" THEN [cfg EXCEPT !.nafin = f] ELSE cfg
          [] OTHER -> drv' = [drv EXCEPT !.ph = "end"]
  /\ run.op # "body" => UNCHANGED cfg
  /\ UNCHANGED <<k, metaQ, used, tg, devs, delays, hist>>

(* the remote target is handed a message that is already flagged (by the queue) *)
RemoteStart ==
  /\ drv.ph = "remote"
  /\ obs' = ObsTgt(obs, cfg, "remote", "start", "", "ok", metaQ)
  /\ drv' = [drv EXCEPT !.ph = "remote2"]
  /\ UNCHANGED <<cfg, k, metaQ, used, tg, run, devs, delays, hist>>

RemoteRcpt ==
  /\ drv.ph = "remote2"
  /\ obs' = ObsTgt(obs, cfg, "remote", "rcpt", "r1", IF metaQ THEN "perm" ELSE "ok", metaQ)
  /\ drv' = [drv EXCEPT !.ph = "end"]
  /\ UNCHANGED <<cfg, k, metaQ, used, tg, run, devs, delays, hist>>

(* the committed queue behind D1 hands the message, with the metadata it keeps, to its own target *)
(* (on its own goroutine: any time after its Commit)                                               *)
Relay ==
  /\ cfg.kind = "qpipe"
  \* committed, or inside its Commit call (which is observed when it has returned)
  /\ \/ tg["T1"] = "committed"
     \/ tg["T1"] = "open" /\ run.st = "tgt" /\ [t |-> "T1", op |-> "commit"] \in run.tq
  \* its target is the real remote target, which refuses a flagged message
  /\ obs' = ObsTgt(obs, cfg, "Q1", "relay", "", IF metaQ THEN "perm" ELSE "ok", metaQ)
  /\ tg' = [tg EXCEPT !["T1"] = "relayed"]
  /\ UNCHANGED <<cfg, drv, k, metaQ, used, run, devs, delays, hist>>

End ==
  /\ drv.ph = "end" /\ run.st = "idle"
  /\ ~(cfg.kind = "qpipe" /\ tg["T1"] = "committed")
  /\ obs' = ObsEnd(obs, cfg)
  /\ drv' = [drv EXCEPT !.ph = "done"]
  /\ IF Gen THEN PrintT(<<"BEH", ToJson([cfg |-> cfg, calls |-> hist])>>) ELSE TRUE
  /\ UNCHANGED <<cfg, k, metaQ, used, tg, run, devs, delays, hist>>

Next ==
  \/ CfgS \/ CfgF \/ Cmd \/ Ret \/ End \/ Relay \/ RemoteStart \/ RemoteRcpt
  \/ \E c \in Checks : CallDone(c)
  \/ \E c \in Checks : ECallDone(c)
  \/ \E x \in run.tq : Tgt(x)
  \/ Mod
  \/ (drv.ph = "done" /\ ~Gen /\ UNCHANGED vars)

Spec == Init /\ [][Next]_vars

(* ------------------------------------------------------------------------ *)
(* properties: the predicates of CheckRunnerObs never fire; the design     *)
(* takes no deviation; every message terminates                            *)
(* ------------------------------------------------------------------------ *)
NoViolation == obs.viol = {}
NoDevs      == Devs = {} => devs = {}
TypeOK == /\ run.st \in {"idle", "grp", "egrp", "mod", "tgt", "ret"}
          /\ cfg.everd \subseteq cfg.early /\ cfg.early \subseteq ChecksIn(cfg, "G")
          /\ Len(cfg.dupof) = Len(cfg.route)
          /\ k.reg \subseteq Checks
          /\ \A t \in Targets : tg[t] \in {"none", "open", "committed", "relayed", "done"}
\* every delivery that was opened is finished when the message is over
Closed == drv.ph = "done" => \A t \in Targets : tg[t] # "open"
\* Termination: every step consumes a pending call, a target operation, a command result or a
\* command of the finite script, so the graph is acyclic except for the stuttering loop at "done";
\* TLC's deadlock check (on) shows that no other state is stuck.
=============================================================================
