\* reference configuration (bin/check X20 generates its configurations from lib/checks/x20.py): trace validation (trace.ndjson next to the module); Devs = deviations of the OPEN findings
SPECIFICATION TSpec
CONSTANTS
  Kinds = {"smtp", "lmtp"}
  Schemes = {"tcp", "tls", "unix"}
  MaxEp = 9
  Outs = {"refuse", "gdrop", "g4", "g5", "notls", "stls4", "hsfail", "badcert", "up"}
  StlsDirs = {"dflt", "yes", "no", "ayes", "ano"}
  RtlsDirs = {"none", "yes"}
  Auths = {"off", "plain", "forward", "external"}
  Srcs = {"auth", "nopass", "anon", "noconn"}
  AuthRs = {"ok", "rej5", "rej4", "noauth"}
  MailRs = {"ok", "t4", "p5", "drop"}
  RcptRs = {"ok", "t4", "p5"}
  BodyRs = {"ok", "d4", "dot5"}
  MaxRcpt = 9
  Devs = {"RequireTlsIgnored", "StarttlsOnImplicitTls"}
  Gen = FALSE
CHECK_DEADLOCK FALSE
POSTCONDITION Post

