SPECIFICATION TSpec
CONSTANTS
  Rcpts = {"r1", "r2", "r3"}
  MaxTriesSet = {1, 2, 3}
  MaxList = 3
  Devs = {}
  RwSets = {{}}
  Utf8Set = {FALSE}
  BounceStages = {"ok"}
  Gen = FALSE
CHECK_DEADLOCK FALSE
POSTCONDITION Post
