\* X09 exhaustive table ps (reference; lib/checks/x09.py renders the same text)
SPECIFICATION Spec
CONSTANTS
  Layer = "ps"
  Devs = {}
  Gen = FALSE
INVARIANTS RuleSatisfiesProp
CHECK_DEADLOCK FALSE
