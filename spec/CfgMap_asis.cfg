\* as-is: the code's deviations switched on must violate the property (one run per deviation in lib/checks/x08.py)
SPECIFICATION Spec
CONSTANTS
  Devs = {"DataSizeOverflow", "DataSizeZeroAnyUnit", "FloatIgnoresBlock", "DurationJoin"}
  Gen = FALSE
  Seed = 1
  RandN = 1
  MaxNodes = 1
INVARIANTS AsIsSatisfiesProp
CHECK_DEADLOCK FALSE
