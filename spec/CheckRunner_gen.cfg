SPECIFICATION Spec
CONSTANTS
  NChecks = 1
  MaxRcpts = 2
  MaxNonNone = 1
  MaxScopes = 2
  Dmarcs = {"off"}
  Vias = {"p"}
  EarlyOn = FALSE
  DupOn = FALSE
  ExtraV = {"rq"}
  Only1On = TRUE
  WithRemote = FALSE
  Froms = {"addr"}
  Kinds = {"pipe"}
  ModOn = FALSE
  Lazy = TRUE
  Devs = {"NABody", "BodyPerScope", "ReplayRejectLeaks"}
  Gen = TRUE
  MaxDelay = 1
CHECK_DEADLOCK FALSE
