----------------------------- MODULE DnsblTrace -----------------------------
(***************************************************************************)
(* Code -> model for X04.  trace.ndjson holds one "Row" event per input    *)
(* row the harness ran through the real check.dnsbl module (configured     *)
(* from text inside a real message pipeline):                               *)
(*   [t, seq, e |-> "Row", in |-> <input of Dnsbl.tla>,                     *)
(*    out |-> [action, stage, code, queries (sequence of [t, q]), action2]] *)
(* For every row TLC evaluates the property predicates of Dnsbl.tla on the *)
(* recorded output (viol = names of the false ones), compares the output   *)
(* with the documented rule (drift) and, for the deviations of the open    *)
(* findings (OpenDevs), lists the sets of deviations whose as-is rule       *)
(* reproduces the output exactly (devs).  Only rows that are not plainly   *)
(* accepted are listed; n / accepted are the counts.                       *)
(***************************************************************************)
EXTENDS Dnsbl

CONSTANT OpenDevs

Rows == ndJsonDeserialize("trace.ndjson")

tvars == <<in>>

OutOf(r) == [action |-> r.out.action, stage |-> r.out.stage, code |-> r.out.code,
             queries |-> Range(r.out.queries), action2 |-> r.out.action2]
DevSets == (SUBSET OpenDevs) \ {{}}
Bad(r) == Viol(r.in, OutOf(r)) # {} \/ ~SameOut(OutOf(r), Rule(r.in))
Verdict(r) == [t |-> r.t, drift |-> ~SameOut(OutOf(r), Rule(r.in)), driftAt |-> r.seq,
               viol |-> Viol(r.in, OutOf(r)),
               devs |-> Explains(DevSets, r.in, OutOf(r))]

Eval ==
  LET bad == {k \in 1..Len(Rows) : Bad(Rows[k])} IN
    [n |-> Len(Rows), accepted |-> Len(Rows) - Cardinality(bad),
     verdicts |-> {Verdict(Rows[k]) : k \in bad}]

TInit == in = <<>> /\ TLCSet(1, Eval)
TNext == UNCHANGED tvars
TSpec == TInit /\ [][TNext]_tvars

Post == PrintT(<<"VERDICTS", ToJson(TLCGet(1))>>)
=============================================================================
