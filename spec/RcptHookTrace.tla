---------------------------- MODULE RcptHookTrace ----------------------------
(***************************************************************************)
(* Per-recipient results of the delivery targets, judged on traces that   *)
(* the hooks inside internal/target/remote and internal/target/smtp       *)
(* (verif_trace.go, build tag verif) record while the REPOSITORY'S OWN    *)
(* tests run, unchanged.  One trace = one delivery: Txn, AddRcpt(r, res)  *)
(* for every recipient exactly as given, Statuses(sts) = what the         *)
(* StatusCollector was handed during BodyNonAtomic, End.  Addresses are   *)
(* renamed to x1, x2, ... in order of first appearance.  The tests' next  *)
(* hops are not scripted by a plan the specification knows, so the        *)
(* predicates evaluated are those that need none (RcptStatusObs.          *)
(* ObsStatusKeys: none for another address, none missing, not more often  *)
(* than accepted); conforming = the keys are exactly the accepted         *)
(* recipients (what RcptStatus.tla's Body step reports), anything else is *)
(* drift.                                                                  *)
(***************************************************************************)
EXTENDS RcptStatusObs, TLC, SequencesExt, Json

Trace == ndJsonDeserialize("trace.ndjson")

VARIABLES l, obs, drift, driftAt, tno
vars == <<l, obs, drift, driftAt, tno>>

Ev == Trace[l]

Init == l = 1 /\ obs = ObsInit /\ drift = FALSE /\ driftAt = 0 /\ tno = 0 /\ TLCSet(1, {})

SameBag(a, b) == /\ Len(a) = Len(b)
                 /\ \A x \in ToSet(a) \cup ToSet(b) : Count(a, x) = Count(b, x)

Step ==
  /\ l <= Len(Trace)
  /\ l' = l + 1
  /\ CASE Ev.e = "Cfg" -> obs' = ObsInit /\ drift' = FALSE /\ driftAt' = 0 /\ tno' = Ev.t
       [] Ev.e = "Txn" -> obs' = ObsTxn(obs, <<>>) /\ UNCHANGED <<drift, driftAt, tno>>
       [] Ev.e = "AddRcpt" -> obs' = ObsAddRcpt(obs, Ev.r, Ev.res) /\ UNCHANGED <<drift, driftAt, tno>>
       [] Ev.e = "Statuses" ->
            /\ obs' = ObsStatusKeys(obs, Ev.sts)
            /\ LET conforms == SameBag([i \in 1..Len(Ev.sts) |-> Ev.sts[i].k], obs.acc) IN
                 /\ drift' = (drift \/ ~conforms)
                 /\ driftAt' = IF ~drift /\ ~conforms THEN Ev.seq ELSE driftAt
            /\ UNCHANGED tno
       [] Ev.e = "End" ->
            /\ TLCSet(1, TLCGet(1) \cup {[t |-> tno, drift |-> drift, driftAt |-> driftAt, viol |-> obs.viol]})
            /\ UNCHANGED <<obs, drift, driftAt, tno>>
       [] OTHER -> UNCHANGED <<obs, drift, driftAt, tno>>

TSpec == Init /\ [][Step]_vars
Post == PrintT(<<"VERDICTS", ToJson(TLCGet(1))>>)
=============================================================================
