\* reference configuration; lib/checks/x15.py generates the ones it runs
SPECIFICATION Spec
CONSTANTS
  Fams = {"mod0", "pipe0", "doc"}
  PipeFull = FALSE
  Devs = {"DocChainQuote", "DocLocalPartName", "FailurePermanent", "LocalNotValidated", "NullLookedUp", "QuotedFullAsLocal"}
  Gen = FALSE
INVARIANTS AsIsSatisfiesProp
CHECK_DEADLOCK FALSE
