-------------------------- MODULE RcptStatusEndpObs --------------------------
(***************************************************************************)
(* Observation state and predicates for per-recipient results on the      *)
(* INBOUND side (property C09): an LMTP endpoint hands the client one      *)
(* result for every recipient it accepted in the transaction, under        *)
(* precisely the address the client gave in RCPT TO, and none for any      *)
(* other address.  The endpoint is the component that knows the client's   *)
(* literal spelling: it normalises the address before handing it to the    *)
(* pipeline and has to translate the pipeline's per-recipient results      *)
(* (reported under the normalised address) back.                           *)
(*                                                                         *)
(* Everything here is a pure function of what is visible on the socket and *)
(* of the results the (scripted) delivery target behind the pipeline gave: *)
(*   - the RCPT TO commands of the transaction, each a mailbox m and a     *)
(*     spelling s of its address, and the class of the reply to it;        *)
(*   - st: the result the target reports for each mailbox at the body      *)
(*     stage of this transaction;                                          *)
(*   - the per-recipient replies that follow the message content, in the   *)
(*     order they were written: the address each names and its class.      *)
(* Mailboxes: "u", "v" are delivered to the target; "w" is refused by the  *)
(* pipeline's routing (no such user).  Spellings: "n" the normalised form  *)
(* (what the pipeline and the target are given), "a", "b" two different    *)
(* non-normalised spellings (case variants / A-labels; concrete strings    *)
(* are the harness's business).                                            *)
(***************************************************************************)
EXTENDS Naturals, Sequences, FiniteSets

Routed == {"u", "v"}
Boxes == Routed \cup {"w"}
Spells == {"n", "a", "b"}

Min(a, b) == IF a < b THEN a ELSE b
AllOk == [m \in Routed |-> "ok"]

ObsInit == [acc |-> <<>>, st |-> AllOk, n |-> 0, viol |-> {}]

V(o, c, name) == IF c THEN o ELSE [o EXCEPT !.viol = @ \cup {[p |-> name, m |-> o.n]}]

(* a new transaction (MAIL accepted); st: results of the target for this transaction *)
ObsTxn(o, st) == [o EXCEPT !.acc = <<>>, !.st = st, !.n = @ + 1]

(* RCPT TO:<spelling s of mailbox m> answered with class res *)
ObsRcpt(o, m, s, res) == IF res = "ok" THEN [o EXCEPT !.acc = Append(@, [m |-> m, s |-> s])] ELSE o

(* the per-recipient replies after the final dot / the last chunk: reps[i] = [m, s, v] *)
(* (m = "other" when the address named is none the client used in this session)        *)
ObsReplies(o, reps) ==
  LET accS == {o.acc[i] : i \in 1..Len(o.acc)}
      k == Min(Len(reps), Len(o.acc))
      o1 == V(o,  Len(reps) = Len(o.acc), "NotOneReplyPerAcceptedRecipient")
      o2 == V(o1, \A i \in 1..Len(reps) : [m |-> reps[i].m, s |-> reps[i].s] \in accS, "ReplyForAddressNotAccepted")
      \* RFC 2033 4.2: one reply per successful RCPT, in the order of the RCPT commands
      o3 == V(o2, \A i \in 1..k : reps[i].m = o.acc[i].m /\ reps[i].s = o.acc[i].s, "ReplyNotUnderAddressAsGiven")
      o4 == V(o3, \A i \in 1..k : (reps[i].m = o.acc[i].m /\ reps[i].m \in Routed) => reps[i].v = o.st[reps[i].m],
              "ReplyIsNotTheRecipientsResult")
  IN o4
=============================================================================
