---------------------------- MODULE ErrorsTrace ----------------------------
(***************************************************************************)
(* Code -> model for C16.  trace.ndjson holds one line per row recorded    *)
(* from the real code:                                                     *)
(*                                                                         *)
(*  e = "Row"  in.t = a term of Errors.tla, out = what the real wrapErr,   *)
(*             toSMTPErr, IsTemporary, IsTemporaryOrUnspec and (att.ran)   *)
(*             one real queue delivery attempt did with the error built    *)
(*             from it                                                     *)
(*  e = "Lit"  one SMTPError composite literal of the source tree (go/ast  *)
(*             scan); helper pairs evaluated by the real helpers           *)
(*  e = "Hist" one recipient failing over several attempts of the real     *)
(*             queue: attempts made and what the failure report says       *)
(*  e = "Auth" the reply of the real submission endpoint to a SASL         *)
(*             exchange whose authentication provider fails with in.term   *)
(*  e = "Comp" a reply whose codes are computed at run time, recorded from *)
(*             the real code path (site) driven with the input in          *)
(*                                                                         *)
(* Per row TLC evaluates the property predicates of Errors.tla on the      *)
(* recorded output (viol), looks for the smallest set of OPEN deviations   *)
(* D \subseteq Devs under which the documented rule yields what was        *)
(* recorded and violates exactly the same predicates (devs; UNEXPLAINED if *)
(* there is none), and reports drift when no such D reproduces the whole   *)
(* output.                                                                 *)
(***************************************************************************)
EXTENDS Errors

Trace == ndJsonDeserialize("trace.ndjson")

NonAscii(m) == {m[i] : i \in {j \in DOMAIN m : m[j] > 127}}

\* the part of an output the predicates depend on (wording of texts left out)
Proj(out) ==
  [e   |-> [i \in DOMAIN out.e |-> [mangle |-> out.e[i].mangle, mid |-> out.e[i].mid,
                                     code |-> out.e[i].code, enh |-> out.e[i].enh,
                                     na |-> NonAscii(out.e[i].msg)]],
   q   |-> [code |-> out.q.code, enh |-> out.q.enh],
   it  |-> out.it,
   tou |-> out.tou,
   att |-> IF out.att.ran
           THEN [ran |-> TRUE, retried |-> out.att.retried, dsn |-> out.att.dsn,
                 dcode |-> out.att.dcode, denh |-> out.att.denh, status |-> out.att.status]
           ELSE [ran |-> FALSE]]

Smallest(S) == CHOOSE D \in S : \A E \in S : Cardinality(D) <= Cardinality(E)

TermVerdict(r) ==
  LET t    == r.in.t
      out  == r.out
      viol == Viol(t, out)
      same == {D \in SUBSET Devs : Rule(D, t, out.att.ran) = out}
      expl == {D \in SUBSET Devs : LET m == Rule(D, t, out.att.ran) IN
                                     Proj(m) = Proj(out) /\ Viol(t, m) = viol}
  IN [t |-> r.t, drift |-> same = {}, driftAt |-> IF same = {} THEN r.seq ELSE 0,
      viol |-> viol,
      devs |-> IF viol = {} THEN {} ELSE IF expl = {} THEN {"UNEXPLAINED"} ELSE Smallest(expl)]

HelperModel(D, r) ==
  LET h == HelperRule(D, [codeT |-> r.codeT, codeP |-> r.codeP, base |-> r.base, temp |-> r.temp])
  IN [code |-> h.code, enh |-> IF r.enhHelper THEN h.enh ELSE r.base]

LitVerdict(r) ==
  IF r.kind \in {"lit", "dyncode"}
  THEN [t |-> r.t, drift |-> FALSE, driftAt |-> 0,
        viol |-> IF LitCoherent(r.code, r.enh) THEN {} ELSE {"LitCoherent"}, devs |-> {}]
  ELSE IF r.kind = "helper"
  THEN LET o    == [code |-> r.code, enh |-> r.enh]
           viol == IF LitCoherent(r.code, r.enh) THEN {} ELSE {"LitCoherent"}
           expl == {D \in SUBSET Devs : HelperModel(D, r) = o}
       IN [t |-> r.t, drift |-> expl = {}, driftAt |-> IF expl = {} THEN r.seq ELSE 0,
           viol |-> viol,
           devs |-> IF viol = {} THEN {} ELSE IF expl = {} THEN {"UNEXPLAINED"} ELSE Smallest(expl)]
  ELSE [t |-> r.t, drift |-> FALSE, driftAt |-> 0, viol |-> {}, devs |-> {}]   \* not statically decidable

\* e = "Comp": a reply computed at run time by the code path r.site driven with r.in
CompVerdict(r) ==
  LET o    == [failed |-> r.out.failed, code |-> r.out.code, enh |-> r.out.enh, temp |-> r.out.temp]
      viol == IF CompOK(o) THEN {} ELSE {"CompCoherent"}
      expl == {D \in SUBSET Devs : CompRule(D, r) = o}
      \* a path that no longer fails (or fails where it let pass) says nothing about reply
      \* classes: drift, not a violation
  IN [t |-> r.t, drift |-> expl = {}, driftAt |-> IF expl = {} THEN r.seq ELSE 0, viol |-> viol,
      devs |-> IF viol = {} THEN {} ELSE IF expl = {} THEN {"UNEXPLAINED"} ELSE Smallest(expl)]

\* e = "Hist": one recipient over several attempts of the real queue
HistVerdict(r) ==
  LET o    == [attempts |-> r.out.attempts, dsn |-> r.out.dsn, dcode |-> r.out.dcode, denh |-> r.out.denh,
               status |-> r.out.status]
      viol == HistViol(r.in, o)
      expl == {D \in SUBSET Devs : LET m == HistRule(D, r.in) IN m = o /\ HistViol(r.in, m) = viol}
  IN [t |-> r.t, drift |-> expl = {}, driftAt |-> IF expl = {} THEN r.seq ELSE 0, viol |-> viol,
      devs |-> IF viol = {} THEN {} ELSE IF expl = {} THEN {"UNEXPLAINED"} ELSE Smallest(expl)]

\* e = "Auth": the reply to a failed SASL exchange
AuthVerdict(r) ==
  LET o    == [code |-> r.out.code, enh |-> r.out.enh, msg |-> r.out.msg]
      viol == AuthViol(r.in, o)
      expl == {D \in SUBSET Devs : LET m == AuthRule(D, r.in) IN m = o /\ AuthViol(r.in, m) = viol}
  IN [t |-> r.t, drift |-> expl = {}, driftAt |-> IF expl = {} THEN r.seq ELSE 0, viol |-> viol,
      devs |-> IF viol = {} THEN {} ELSE IF expl = {} THEN {"UNEXPLAINED"} ELSE Smallest(expl)]

Verdict(r) == IF r.e = "Row" THEN TermVerdict(r)
              ELSE IF r.e = "Hist" THEN HistVerdict(r)
              ELSE IF r.e = "Auth" THEN AuthVerdict(r)
              ELSE IF r.e = "Lit" THEN LitVerdict(r)
              ELSE IF r.e = "Comp" THEN CompVerdict(r)
              ELSE [t |-> r.t, drift |-> FALSE, driftAt |-> 0, viol |-> {}, devs |-> {}]

VARIABLE done
TInit == done = FALSE /\ term = <<>> /\ TLCSet(1, <<>>)
TNext == /\ ~done
         /\ done' = TRUE
         /\ UNCHANGED term
         /\ TLCSet(1, [i \in 1..Len(Trace) |-> Verdict(Trace[i])])
TSpec == TInit /\ [][TNext]_<<done, term>>

Post == PrintT(<<"VERDICTS", ToJson(TLCGet(1))>>)
=============================================================================
