\* evaluates trace.ndjson (rows of the real code)
SPECIFICATION TSpec
CONSTANTS
  Salts = {0}
  MaxRecs = 4
  Gen = FALSE
CHECK_DEADLOCK FALSE
POSTCONDITION Post
