\* behaviour generation (reference): exhaustive BFS for small MaxSteps, -simulate for depth
SPECIFICATION Spec
CONSTANTS
  Domains = {"d1"}
  Ids = {"i1", "i2"}
  Vers = {1, 2}
  Ages = {6, 20}
  Dts = {6, 12}
  MaxT = 36
  MaxSteps = 4
  GetFaults = {"ok", "temp", "perm", "multi", "bad", "http", "store"}
  RefFaults = {"ok", "temp", "http", "store"}
  Kinds = {"fs", "ram"}
  Lifes = {"prod", "test"}
  Damages = {"junk", "nullpol"}
  Devs = {}
  Gen = TRUE
CHECK_DEADLOCK FALSE
