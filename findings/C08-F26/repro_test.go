package smtpconn

// Reproduction for finding C08-F26 (reported by two outside reviewers reading HEAD): when the body
// reader fails in the middle of C.Data, Data returns the error without terminating or aborting the
// DATA transfer; the caller's C.Close() then sends QUIT through net/textproto, which implicitly closes
// the still-open dot-writer, i.e. sends the terminating "." - the next hop answers 250 and accepts a
// TRUNCATED message while maddy records the attempt as failed (and retries: duplicate, truncated,
// DKIM-broken copy at the next hop).
//
// Copy into internal/smtpconn/ and run: go test -run TestReproTruncatedDataAccepted ./internal/smtpconn/

import (
	"context"
	"errors"
	"io"
	"strings"
	"testing"

	"github.com/emersion/go-message/textproto"
	"github.com/emersion/go-smtp"
	"github.com/foxcpp/maddy/framework/config"
	"github.com/foxcpp/maddy/internal/testutils"
)

type failingReader struct {
	r    io.Reader
	left int
}

func (f *failingReader) Read(p []byte) (int, error) {
	if f.left <= 0 {
		return 0, errors.New("simulated I/O error on the spool body file")
	}
	if len(p) > f.left {
		p = p[:f.left]
	}
	n, err := f.r.Read(p)
	f.left -= n
	return n, err
}

func TestReproTruncatedDataAccepted(t *testing.T) {
	be, srv := testutils.SMTPServer(t, "127.0.0.1:"+testPort)
	defer srv.Close()

	c := New()
	c.Log = testutils.Logger(t, "smtpconn")
	if _, err := c.Connect(context.Background(), config.Endpoint{Scheme: "tcp", Host: "127.0.0.1", Port: testPort}, false, nil); err != nil {
		t.Fatal(err)
	}
	if err := c.Mail(context.Background(), "sender@example.org", smtp.MailOptions{}); err != nil {
		t.Fatal(err)
	}
	if err := c.Rcpt(context.Background(), "rcpt@example.org", smtp.RcptOptions{}); err != nil {
		t.Fatal(err)
	}
	hdr := textproto.Header{}
	hdr.Add("Subject", "truncation")
	body := &failingReader{r: strings.NewReader(strings.Repeat("0123456789\r\n", 1000)), left: 5000}
	if err := c.Data(context.Background(), hdr, body); err == nil {
		t.Fatal("Data succeeded although the body reader failed")
	}
	c.Close()
	srv.Close()
	if n := len(be.Messages); n != 0 {
		t.Fatalf("the next hop accepted %d message(s) (%d bytes) although Data failed: a truncated message was delivered",
			n, len(be.Messages[0].Data))
	}
}
