package remote

// NOT a seeded defect: reproduction of a race that exists on clean HEAD
// (b163e1c). Copy into internal/target/remote/ as headrace_test.go and run:
//   go test -count=1 -run 'TestHeadRace' ./internal/target/remote/
// Timing dependent (it needs the TCP connect to the dead MX to fail before the
// DNS lookups for that MX are finished, which is what happens in practice).

import (
	"net"
	"testing"

	"github.com/foxcpp/go-mockdns"
	"github.com/foxcpp/maddy/internal/testutils"
)

// End-to-end: the preferred MX is down (nothing listens on 127.0.0.2), the
// backup MX is reachable with STARTTLS but its certificate does not match its
// (DNSSEC-authenticated, usable) TLSA record. Delivery has to fail and no
// MAIL FROM may be issued.
func TestHeadRace_DownMX_ThenMismatch(t *testing.T) {
	clientCfg, be, srv := testutils.SMTPServerSTARTTLS(t, "127.0.0.1:"+smtpPort)
	defer srv.Close()
	defer testutils.CheckSMTPConnLeak(t, srv)

	zones := map[string]mockdns.Zone{
		"example.invalid.": {
			MX: []net.MX{
				{Host: "mx1.example.invalid.", Pref: 10},
				{Host: "mx2.example.invalid.", Pref: 20},
			},
		},
		"mx1.example.invalid.": {
			AD: true,
			A:  []string{"127.0.0.2"}, // down
		},
		"mx2.example.invalid.": {
			AD: true,
			A:  []string{"127.0.0.1"},
		},
		"_25._tcp.mx2.example.invalid.": {
			AD: true,
			Misc: tlsaRecord(
				"_25._tcp.mx2.example.invalid.",
				3, 1, 1, "ffb5cb4d02f996f6385debe9a8952f1af1f4aec7eae0f37c2cd6d0d8ee8391cf"),
		},
	}

	dnsSrv, tgt := targetWithExtResolver(t, zones)
	defer dnsSrv.Close()
	tgt.tlsConfig = clientCfg

	_, err := testutils.DoTestDeliveryErr(t, tgt, "test@example.com", []string{"test@example.invalid"})
	if err == nil {
		t.Error("Expected an error (TLSA mismatch on the only reachable MX), got none")
	}
	if be.MailFromCounter != 0 {
		t.Fatal("MAIL FROM issued to a server that failed DANE authentication")
	}
}
