package queue

// Reproduction of C18-F37. Copy into internal/target/queue/ and run
//   go test -count=1 -run TestC18F37 ./internal/target/queue/
//
// Two pipelines in a row each rewrite the recipient (the outer one public@ -> list@, the nested
// `reroute { }` one list@ -> mailbox@); both record their step in the shared MsgMetadata.OriginalRcpts
// (mailbox@ -> list@, list@ -> public@).  queue.emitDSN translates the failed recipient with ONE lookup,
// so the failure report names list@example.org - an internal alias target - instead of the address the
// sender used (MsgMetadata.OriginalRcpts: "mapping from the final recipient to the recipient that was
// presented by the client ... to prevent disclosing information about aliases").

import (
	"bytes"
	"context"
	"testing"
	"time"

	"github.com/emersion/go-message/textproto"
	"github.com/emersion/go-smtp"
	"github.com/foxcpp/maddy/framework/buffer"
	"github.com/foxcpp/maddy/framework/config"
	"github.com/foxcpp/maddy/framework/exterrors"
	"github.com/foxcpp/maddy/framework/module"
	_ "github.com/foxcpp/maddy/internal/modify"
	"github.com/foxcpp/maddy/internal/msgpipeline"
	_ "github.com/foxcpp/maddy/internal/table"
	"github.com/foxcpp/maddy/internal/testutils"
)

type f37Proxy struct{ q *Queue }

func (p *f37Proxy) Name() string               { return "f37q" }
func (p *f37Proxy) InstanceName() string       { return "f37q" }
func (p *f37Proxy) Init(cfg *config.Map) error { return nil }
func (p *f37Proxy) Start(ctx context.Context, m *module.MsgMetadata, from string) (module.Delivery, error) {
	return p.q.Start(ctx, m, from)
}

func TestC18F37_ReportNamesIntermediateAlias(t *testing.T) {
	dsnTarget := unreliableTarget{committed: make(chan testutils.Msg, 10), aborted: make(chan testutils.Msg, 10)}
	dt := unreliableTarget{
		rcptFailures: []map[string]error{{
			"mailbox@example.org": &exterrors.SMTPError{Code: 550, EnhancedCode: exterrors.EnhancedCode{5, 1, 1}, Message: "No such user here"},
		}},
		committed: make(chan testutils.Msg, 10), aborted: make(chan testutils.Msg, 10),
	}
	q := newTestQueue(t, &dt)
	q.hostname = "mx.example.org"
	q.autogenMsgDomain = "example.org"
	q.dsnPipeline = &dsnTarget

	proxy := &f37Proxy{q: q}
	module.Register("target.f37q", func(_, _ string, _, _ []string) (module.Module, error) { return proxy, nil })
	repl := func(from, to string) config.Node {
		return config.Node{Name: "modify", Children: []config.Node{{Name: "replace_rcpt", Args: []string{"static"},
			Children: []config.Node{{Name: "entry", Args: []string{from, to}}}}}}
	}
	pipe, err := msgpipeline.New(map[string]interface{}{"hostname": "mx.example.org"}, []config.Node{
		repl("public@example.org", "list@example.org"),
		{Name: "reroute", Children: []config.Node{
			repl("list@example.org", "mailbox@example.org"),
			{Name: "deliver_to", Args: []string{"f37q", "Q"}},
		}},
	})
	if err != nil {
		t.Fatal(err)
	}

	hdr := textproto.Header{}
	hdr.Add("Subject", "hello")
	meta := module.MsgMetadata{DontTraceSender: true, OriginalFrom: "sender@example.com", ID: "f37f37f37f37"}
	ctx := context.Background()
	d, err := pipe.Start(ctx, &meta, "sender@example.com")
	if err != nil {
		t.Fatal(err)
	}
	if err := d.AddRcpt(ctx, "public@example.org", smtp.RcptOptions{}); err != nil {
		t.Fatal(err)
	}
	if err := d.Body(ctx, hdr, buffer.MemoryBuffer{Slice: []byte("foobar\r\n")}); err != nil {
		t.Fatal(err)
	}
	if err := d.Commit(ctx); err != nil {
		t.Fatal(err)
	}
	readMsgChanTimeout(t, dt.aborted, 15*time.Second)
	if err := q.Close(); err != nil {
		t.Fatal(err)
	}
	var msg testutils.Msg
	select {
	case msg = <-dsnTarget.committed:
	default:
		t.Fatal("no failure report")
	}
	if bytes.Contains(msg.Body, []byte("list@example.org")) || bytes.Contains(msg.Body, []byte("mailbox@example.org")) {
		t.Errorf("the report discloses an address the recipient was rewritten to:\n%s", msg.Body)
	}
	if !bytes.Contains(msg.Body, []byte("Final-Recipient: rfc822; public@example.org")) {
		t.Errorf("the report does not name the recipient under the address the sender used:\n%s", msg.Body)
	}
}
