#!/usr/bin/env python3
"""lib/addnote.py <file-with-markdown> : insert a note into DESIGN.md 10.3b (before the ROUND4-NOTES-END marker)."""
import sys
p='/verif/DESIGN.md'
s=open(p).read()
m='<!-- ROUND4-NOTES-END -->'
assert m in s
note=open(sys.argv[1]).read().rstrip()+'\n'
s=s.replace(m, note+m)
open(p,'w').write(s)
