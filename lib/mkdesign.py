#!/usr/bin/env python3
"""Regenerate the data-driven tables of DESIGN.md section 10 (between the AUTOGEN markers) from
evidence/*.json, known_findings.json, seeded/*/meta.json and .work/drill_summary.txt."""
import glob
import json
import os
import re

V = os.path.dirname(os.path.dirname(os.path.abspath(__file__)))
BEGIN, END = "<!-- AUTOGEN:BEGIN -->", "<!-- AUTOGEN:END -->"


def checks_table():
    import importlib, sys
    sys.path.insert(0, os.path.join(V, "lib"))
    out = ["### 10.4 Checks as registered (numbers from the last committed evidence files)", "",
           "| Property | Spec modules | Harness | TLC states / transitions (exhaustive run) | Real-code traces or rows accepted by TLC | Wall (s) | Tier of that run |",
           "|---|---|---|---|---|---|---|"]
    specs = {"C01": "Queue, QueueObs, QueueTrace", "C02": "QueueDisk, QueueDiskObs, QueueDiskTrace",
             "C03": "Session, SessionObs, SessionTrace", "C04": "Routing, RoutingTrace",
             "C05": "Remote, RemoteObs, RemoteTrace", "C06": "CheckRunner, CheckRunnerObs, CheckRunnerTrace",
             "C07": "Dmarc, DmarcTrace", "C08": "MsgShape, MsgShapeTrace", "C09": "RcptStatus (+Obs/Trace)",
             "C10": "Spool, SpoolTrace", "C11": "Limits, LimitsObs, LimitsTrace",
             "C12": "TimeWheel, TimeWheelObs, TimeWheelTrace", "C13": "Dane, DaneTrace",
             "C14": "Auth, AuthObs, AuthTrace", "C15": "Authz, AuthzTrace", "C16": "Errors, ErrorsTrace",
             "C17": "Address, AddressTrace", "C18": "Queue, QueueObs, QueueTrace (report dimensions)",
             "C19": "Pool, PoolObs, PoolTrace", "C20": "CfgSyntax, CfgSyntaxTrace"}
    for f in sorted(glob.glob(os.path.join(V, "evidence", "C*.json"))):
        e = json.load(open(f))
        c = e["coverage"]
        pid = e["property_id"]
        try:
            eng = importlib.import_module("checks." + pid.lower()).META["engine"]
        except Exception:
            eng = "?"
        out.append("| %s | %s | harness/%s | %s / %s | %s of %s | %s | %s |" % (
            pid, specs.get(pid, "?"), eng, c.get("states", "-"), c.get("transitions", "-"),
            c.get("traces_validated_against_impl", "-"), c.get("evaluations", "-"), e["wall_s"], e["tier"]))
    return out


def findings_table():
    d = json.load(open(os.path.join(V, "known_findings.json")))
    out = ["", "### 10.5 Defects of the unchanged tree found by the checks", "",
           "`fixed: <commit>` = repaired by that `fix:` commit in /repo (the entry suppresses nothing: a regression is reported",
           "as VIOLATION). `open` = a genuine defect that is recorded, not repaired (the reason is given); the check prints a",
           "KNOWN-FINDING line for exactly that history and reports every other violation.", "",
           "| Finding | Where | What | Status |", "|---|---|---|---|"]
    for e in d["findings"]:
        out.append("| %s | `%s` | %s | %s |" % (e["id"], e.get("where", ""), e.get("what", "").replace("|", "/")[:300],
                                                e.get("status", "open") + ((" - " + e["note"]) if e.get("note") else "")))
    return out


def seeds_table():
    res = {}
    p = os.path.join(V, "seeded", "RESULTS.json")
    if os.path.exists(p):
        res = json.load(open(p))
    out = ["", "### 10.6 Independently seeded breaking changes and the check that catches each", "",
           "Each was written by a fresh sub-agent that saw only the property text and a scratch worktree, was confirmed",
           "here (clean tree: demo passes; with the patch: builds, the affected packages' existing tests pass, demo fails)",
           "and is kept under `seeded/<id>/`. \"Result\" is `bin/drill <property> seeded/<id>/patch.diff` (quick tier).", "",
           "| Seed | Needs to manifest | Result of the property's quick check |", "|---|---|---|"]
    for m in sorted(glob.glob(os.path.join(V, "seeded", "*", "meta.json"))):
        j = json.load(open(m))
        out.append("| %s | %s | %s |" % (j["id"], clean_needs(j["needs_to_manifest"]),
                                         res.get(j["id"], j.get("detected_by") or "not yet drilled")))
    return out


def clean_needs(t):
    import re
    t = re.sub(r"^\s*(#+\s*)?\**\s*(What (it|is) need(s|ed)( for it)? to manifest|Needed to manifest)\s*:?\**\s*:?", "", t.strip(), flags=re.I)
    t = re.sub(r"\s+", " ", t).replace("|", "/").strip(" :*-")
    return t[:260]


def extensions_table():
    out = ["", "### 10.6a Extension specifications (beyond the listed properties) and what they found", "",
           "Registered in MANIFEST.json under `extensions`; statement, sources, spec and drill results of each in",
           "`extensions/<id>.md`; evidence in `evidence/ext/<id>.json` (numbers below from the last committed run).", "",
           "| Ext | Decides (short) | Spec | TLC states | Real-code rows/traces accepted | Findings on the unchanged tree |",
           "|---|---|---|---|---|---|"]
    man = json.load(open(os.path.join(V, "MANIFEST.json")))
    fnd = json.load(open(os.path.join(V, "extensions", "findings.json")))["findings"]
    for e in man.get("extensions", []):
        ev = {}
        f = os.path.join(V, "evidence", "ext", e["id"] + ".json")
        if os.path.exists(f):
            ev = json.load(open(f)).get("coverage", {})
        mine = [x for x in fnd if x.get("ext") == e["id"] or x["id"].startswith(e["id"] + "-")]
        fs = "; ".join("%s (%s)" % (x["id"], "open" if x.get("status", "open") == "open" else x["status"][:60]) for x in mine) or "-"
        spec = e["technique"].split(" model-checked")[0].replace("TLA+ spec ", "")[:70]
        out.append("| %s | %s | %s | %s | %s | %s |" % (
            e["id"], e["statement"][:150].replace("|", "/") + "...", spec.replace("|", "/"),
            ev.get("states", "-"), ev.get("traces_validated_against_impl", "-"), fs.replace("|", "/")))
    return out


def main():
    p = os.path.join(V, "DESIGN.md")
    s = open(p).read()
    body = "\n".join([BEGIN, ""] + checks_table() + findings_table() + seeds_table() + extensions_table() + ["", END])
    if BEGIN in s:
        s = re.sub(re.escape(BEGIN) + ".*?" + re.escape(END), lambda m: body, s, flags=re.S)
    else:
        s = s.rstrip("\n") + "\n\n" + body + "\n"
    open(p, "w").write(s)
    print("DESIGN.md tables regenerated")


if __name__ == "__main__":
    main()
