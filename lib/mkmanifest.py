#!/usr/bin/env python3
"""Regenerate MANIFEST.json from the META dicts of lib/checks/*.py and lib/not_applicable.json."""
import importlib
import json
import os
import sys

HERE = os.path.dirname(os.path.abspath(__file__))
VERIF = os.path.dirname(HERE)
sys.path.insert(0, HERE)

BASELINE_OFF = "cd /repo && go test -mod=mod -json -vet=off -count=1 -timeout 25m ./..."


def hook_commits():
    import subprocess
    try:
        out = subprocess.run(["git", "-C", "/repo", "log", "--format=%H %s"], stdout=subprocess.PIPE, text=True).stdout
    except Exception:
        return []
    return [l.split()[0] for l in out.splitlines() if l.split(" ", 1)[1].startswith("verif:")]


def main():
    props = [json.loads(l)["id"] for l in open(os.path.join(VERIF, "properties.jsonl"))]
    checks, engines = [], {}
    claimed = set()
    for pid in props:
        try:
            mod = importlib.import_module("checks." + pid.lower())
        except ModuleNotFoundError:
            continue
        m = getattr(mod, "META", None)
        if not m or m.get("disabled"):
            continue
        claimed.add(pid)
        checks.append({
            "property_id": pid,
            "quick_cmd": "bin/check %s --tier quick" % pid,
            "thorough_cmd": "bin/check %s --tier thorough" % pid,
            "evidence_file": "/verif/evidence/%s.json" % pid,
            "replay_cmd_template": "bin/check %s --replay {path}" % pid,
            "engine": m["engine"],
            "technique": m["technique"],
            "level_claimed": {"category": m["level"], "text": m["text"], "design_ref": m.get("design_ref", "DESIGN.md section 5")},
            "level_note": m["note"],
        })
        engines.setdefault(m["engine"], []).append(pid)
    na_path = os.path.join(HERE, "not_applicable.json")
    na = json.load(open(na_path)) if os.path.exists(na_path) else {}
    not_app = []
    for pid in props:
        if pid in claimed:
            continue
        not_app.append({"property_id": pid, "reason": na.get(pid, "no check registered yet (work in progress; see DESIGN.md section 9)")})
    man = {
        "version": 1,
        "setup_cmd": "bin/setup",
        "hooks": {
            "guard": "verif",
            "enable": "go1.26 test -c -tags verif [-overlay <generated>] in /verif/harness (module github.com/foxcpp/maddy/verifharness, replace github.com/foxcpp/maddy => /repo)",
            "baseline_off_cmd": BASELINE_OFF,
            "source_commits": hook_commits(),
            "add_only": True,
        },
        "engines": [{"name": k, "path": "/verif/harness/" + k, "serves_properties": v,
                     "kind_free_text": "Go harness package driven by TLC-generated behaviours; traces validated by TLC"}
                    for k, v in sorted(engines.items())],
        "checks": checks,
        "not_applicable": not_app,
        "notes": "All checks: bin/check <id> --tier quick|thorough. Specs in spec/, harness in harness/, driver in lib/. "
                 "VERIF_SEED selects the seed for TLC simulation and sampling.",
    }
    json.dump(man, open(os.path.join(VERIF, "MANIFEST.json"), "w"), indent=1)
    print("MANIFEST.json: %d checks, %d not_applicable" % (len(checks), len(not_app)))


if __name__ == "__main__":
    main()
