"""Shared machinery for the /verif checks: TLC runner, harness builder, shard
runner, trace validation, known findings, evidence writer, verdict printing.

Verdict rules (DESIGN.md section 2):
  exit 0  property held on everything explored (KNOWN-FINDING lines allowed)
  exit 1  a property predicate is false on what the real code did
          -> line "VIOLATION property=<id> replay=<path>"
  exit 2  anything that is not a statement about maddy (build failure, TLC
          crash, time-out, a behaviour the driver could not execute, a model-
          level counterexample in the design spec)
"""
import hashlib
import json
import os
import random
import re
import shutil
import subprocess
import sys
import time

VERIF = os.path.dirname(os.path.dirname(os.path.abspath(__file__)))
SPEC = os.path.join(VERIF, "spec")
HARNESS = os.path.join(VERIF, "harness")
WORK = os.path.join(VERIF, ".work")
REPLAYS = os.path.join(VERIF, "replays")
EVIDENCE = os.path.join(VERIF, "evidence")
NCPU = os.cpu_count() or 4


class Infra(Exception):
    """Something went wrong that says nothing about maddy (exit 2)."""


def goenv():
    env = dict(os.environ)
    env.update(GOFLAGS="-mod=mod", GOPROXY="off", GOSUMDB="off", GOTOOLCHAIN="local")
    return env


class Ctx:
    def __init__(self, pid, tier, seed, level="model_checking"):
        self.pid = pid
        self.tier = tier
        self.seed = seed
        self.level = level
        self.repo = os.environ.get("VERIF_REPO", "/repo")
        self.t0 = time.time()
        self.work = os.path.join(WORK, "%s-%s-%d" % (pid, tier, os.getpid()))
        shutil.rmtree(self.work, ignore_errors=True)
        os.makedirs(self.work)
        self.rng = random.Random(seed)
        self.cov = {"samples": []}
        self.assumptions = []
        self.violations = []      # list of (what, replay path)
        self.known_seen = []      # list of (finding id, what)
        self.notes = []
        self.keep_work = bool(os.environ.get("VERIF_KEEP"))

    # -- logging ---------------------------------------------------------
    def log(self, *a):
        print("[%s %6.1fs]" % (self.pid, time.time() - self.t0), *a, flush=True)

    def sub(self, name):
        d = os.path.join(self.work, name)
        os.makedirs(d, exist_ok=True)
        return d

    # -- TLC ---------------------------------------------------------------
    def tlc(self, module, cfg, name=None, workers=None, timeout=900, simulate=None,
            depth=None, extra_files=(), cfg_text=None, deadlock=None, coverage=False,
            dfs=False, heap=None):
        """Run TLC on spec/<module>.tla with spec/<cfg> (or cfg_text). Returns a dict."""
        d = self.sub(name or (module + "-" + (cfg or "cfg").replace(".cfg", "")))
        for f in os.listdir(SPEC):
            if f.endswith(".tla"):
                shutil.copy(os.path.join(SPEC, f), d)
        for f in extra_files:
            shutil.copy(f, d)
        cfgname = module + "_run.cfg"
        if cfg_text is None:
            cfg_text = open(os.path.join(SPEC, cfg)).read()
        open(os.path.join(d, cfgname), "w").write(cfg_text)
        tmp = os.path.join(d, "jtmp")
        os.makedirs(tmp, exist_ok=True)
        w = workers or min(NCPU, 8)
        cmd = ["tlc", "-workers", str(w), "-metadir", os.path.join(d, "md"),
               "-config", cfgname]
        if simulate:
            cmd += ["-simulate", "num=%d" % simulate, "-seed", str(self.seed)]
            if depth:
                cmd += ["-depth", str(depth)]
        if deadlock is False:
            cmd += ["-deadlock"]
        if coverage:
            cmd += ["-coverage", "1"]
        cmd += [module + ".tla"]
        env = dict(os.environ)
        jto = "-Djava.io.tmpdir=%s -Xss64m" % tmp
        if heap:
            jto += " -Xmx%s" % heap
        if dfs:
            jto += " -Dtlc2.tool.queue.IStateQueue=StateDeque"
        env["JAVA_TOOL_OPTIONS"] = jto
        t0 = time.time()
        try:
            p = subprocess.run(["timeout", str(timeout)] + cmd, cwd=d, env=env,
                               stdout=subprocess.PIPE, stderr=subprocess.STDOUT, text=True,
                               errors="replace")
        except Exception as e:  # pragma: no cover
            raise Infra("cannot run tlc: %s" % e)
        out = p.stdout
        open(os.path.join(d, "tlc.out"), "w").write(out)
        res = {"out": out, "rc": p.returncode, "dir": d, "wall": time.time() - t0,
               "generated": 0, "distinct": 0, "depth": 0, "ok": False,
               "invariant": None, "error": None}
        m = re.search(r"(\d+) states generated, (\d+) distinct states found", out)
        if m:
            res["generated"], res["distinct"] = int(m.group(1)), int(m.group(2))
        m = re.search(r"depth of the complete state graph search is (\d+)", out)
        if m:
            res["depth"] = int(m.group(1))
        m = re.search(r"Invariant (\S+) is violated", out)
        if m:
            res["invariant"] = m.group(1)
        m = re.search(r"Temporal properties were violated", out)
        if m:
            res["invariant"] = "temporal"
        if p.returncode == 124:
            res["error"] = "timeout after %ds" % timeout
        elif "Model checking completed. No error has been found." in out or \
                (simulate and p.returncode == 0):
            res["ok"] = True
        elif res["invariant"] is None:
            em = re.search(r"Error: (.*)", out)
            res["error"] = em.group(1) if em else "tlc exit %d" % p.returncode
        res["printed"] = parse_printed(out)
        return res

    def apalache(self, module, args, name=None, timeout=600):
        """Run apalache-mc check on spec/<module>.tla in a scratch dir; returns (ok, tail of output)."""
        d = self.sub(name or ("apalache-" + module))
        shutil.copy(os.path.join(SPEC, module + ".tla"), d)
        env = dict(os.environ)
        env["JAVA_TOOL_OPTIONS"] = "-Djava.io.tmpdir=%s" % d
        p = subprocess.run(["timeout", str(timeout), "apalache-mc", "check", "--out-dir=" + os.path.join(d, "out")]
                           + list(args) + [module + ".tla"], cwd=d, env=env, stdout=subprocess.PIPE,
                           stderr=subprocess.STDOUT, text=True, errors="replace")
        return ("EXITCODE: OK" in p.stdout and p.returncode == 0), p.stdout[-600:]

    def tlc_expect_ok(self, module, cfg, **kw):
        r = self.tlc(module, cfg, **kw)
        if not r["ok"]:
            raise Infra("TLC did not accept %s/%s: invariant=%s error=%s (see %s/tlc.out)" % (
                module, cfg, r["invariant"], r["error"], r["dir"]))
        return r

    # -- harness -----------------------------------------------------------
    def build_harness(self, pkg, overlay=None, tags="verif"):
        """go test -c the harness package against the repo's working tree."""
        out = os.path.join(self.work, pkg.replace("/", "_") + ".test")
        cmd = ["go1.26", "test", "-c", "-tags", tags, "-o", out]
        if self.repo != "/repo":
            mf = os.path.join(self.work, "go.mod")
            txt = open(os.path.join(HARNESS, "go.mod")).read()
            txt = txt.replace("=> /repo", "=> " + self.repo)
            open(mf, "w").write(txt)
            shutil.copy(os.path.join(self.repo, "go.sum"), os.path.join(self.work, "go.sum"))
            cmd += ["-modfile", mf]
        if overlay:
            cmd += ["-overlay", overlay]
        cmd += ["./" + pkg]
        t0 = time.time()
        p = subprocess.run(cmd, cwd=HARNESS, env=goenv(), stdout=subprocess.PIPE,
                           stderr=subprocess.STDOUT, text=True)
        if p.returncode != 0 or not os.path.exists(out):
            raise Infra("harness build failed (%s):\n%s" % (pkg, p.stdout[-4000:]))
        self.log("built harness %s in %.1fs" % (pkg, time.time() - t0))
        return out

    def run_shards(self, binary, items, test="TestReplay", shards=None, env_extra=None,
                   timeout=1500, name="replay"):
        """Split items (list of dicts with key 'id') over processes; each reads
        VERIF_IN and writes NDJSON events to VERIF_OUT. Returns list of events."""
        shards = max(1, min(shards or NCPU, len(items)))
        d = self.sub(name)
        procs = []
        for s in range(shards):
            part = items[s::shards]
            fin = os.path.join(d, "in%d.ndjson" % s)
            fout = os.path.join(d, "out%d.ndjson" % s)
            with open(fin, "w") as f:
                for it in part:
                    f.write(json.dumps(it) + "\n")
            env = goenv()
            tmp = os.path.join(d, "tmp%d" % s)
            os.makedirs(tmp, exist_ok=True)
            env.update(VERIF_IN=fin, VERIF_OUT=fout, VERIF_TMP=tmp, TMPDIR=tmp,
                       VERIF_SEED=str(self.seed), VERIF_TIER=self.tier)
            if env_extra:
                env.update(env_extra)
            log = open(os.path.join(d, "log%d.txt" % s), "w")
            p = subprocess.Popen(["timeout", str(timeout), binary, "-test.run", "^" + test + "$",
                                  "-test.timeout", "%ds" % (timeout + 30), "-test.count", "1"],
                                 cwd=d, env=env, stdout=log, stderr=subprocess.STDOUT)
            procs.append((p, fout, log, s))
        events = []
        for p, fout, log, s in procs:
            rc = p.wait()
            log.close()
            if rc != 0:
                tail = open(os.path.join(d, "log%d.txt" % s)).read()[-3000:]
                raise Infra("replay shard %d failed rc=%d:\n%s" % (s, rc, tail))
            with open(fout) as f:
                for line in f:
                    line = line.strip()
                    if line:
                        events.append(json.loads(line))
        events.sort(key=lambda e: (e["t"], e["seq"]))
        return events

    # -- trace validation ----------------------------------------------------
    def validate(self, module, cfg, events, keep=None, name=None, cfg_text=None, timeout=1200,
                 batch=1500, dfs=False):
        """Feed events (already sorted by t, seq) to spec/<module>.tla in batches of
        `batch` traces. Returns {t: verdict-record-list}."""
        if keep is not None:
            events = [e for e in events if e["e"] in keep]
        by_t = {}
        for e in events:
            by_t.setdefault(e["t"], []).append(e)
        ts = sorted(by_t)
        verdicts = {}
        states = 0
        for bi in range(0, len(ts), batch):
            chunk = ts[bi:bi + batch]
            d = self.sub((name or module) + "-b%d" % (bi // batch))
            tf = os.path.join(d, "trace.ndjson")
            with open(tf, "w") as f:
                for t in chunk:
                    for e in by_t[t]:
                        f.write(json.dumps(e) + "\n")
            r = self.tlc(module, cfg, name=os.path.basename(d), workers=1, timeout=timeout,
                         cfg_text=cfg_text, dfs=dfs)
            if not r["ok"]:
                raise Infra("trace validation run failed: invariant=%s error=%s (see %s/tlc.out)" % (
                    r["invariant"], r["error"], r["dir"]))
            states += r["distinct"]
            got = None
            for tag, val in r["printed"]:
                if tag == "VERDICTS":
                    got = val
            if got is None:
                raise Infra("no VERDICTS line from %s (see %s/tlc.out)" % (module, r["dir"]))
            for rec in got:
                verdicts.setdefault(rec["t"], []).append(rec)
            for t in chunk:
                if t not in verdicts:
                    raise Infra("trace %s produced no verdict (incomplete trace?) see %s" % (t, d))
        self.cov["trace_states"] = self.cov.get("trace_states", 0) + states
        return verdicts, by_t

    # -- results ------------------------------------------------------------
    def save_replay(self, obj):
        os.makedirs(REPLAYS, exist_ok=True)
        blob = json.dumps(obj, sort_keys=True, indent=1)
        h = hashlib.sha1(blob.encode()).hexdigest()[:12]
        p = os.path.join(REPLAYS, "%s-%s.json" % (self.pid, h))
        open(p, "w").write(blob)
        return p

    def violation(self, what, replay_obj):
        if len(self.violations) >= 8:      # keep the first few artefacts, count the rest
            self.violations.append((what, self.violations[-1][1]))
            return self.violations[-1][1]
        p = self.save_replay(replay_obj)
        self.violations.append((what, p))
        return p

    def known(self, fid, what):
        if (fid, what) not in self.known_seen:
            self.known_seen.append((fid, what))

    def finish(self):
        self.cov.setdefault("rule", "")
        ev = {
            "property_id": self.pid,
            "tier": self.tier,
            "seed": self.seed,
            "level": self.level,
            "coverage": self.cov,
            "assumptions": self.assumptions,
            "wall_s": round(time.time() - self.t0, 2),
            "violations": len(self.violations),
        }
        if self.known_seen:
            ev["coverage"]["known_findings_seen"] = [k for k, _ in self.known_seen]
        if self.notes:
            ev["coverage"]["notes"] = self.notes
        evdir = EVIDENCE if self.repo == "/repo" else os.path.join(WORK, "evidence-drill")
        if evdir == EVIDENCE and not re.match(r"^C\d\d$", self.pid):
            evdir = os.path.join(EVIDENCE, "ext")    # extension specs (no listed property): evidence/ext/
        os.makedirs(evdir, exist_ok=True)   # drills against a scratch tree never touch evidence/
        with open(os.path.join(evdir, self.pid + ".json"), "w") as f:
            json.dump(ev, f, indent=1, sort_keys=True, default=str)
        for fid, what in self.known_seen:
            print("KNOWN-FINDING: property=%s %s %s" % (self.pid, fid, what))
        seen = set()
        for what, p in self.violations:
            if p in seen:
                continue
            seen.add(p)
            print("VIOLATION property=%s replay=%s  # %s" % (self.pid, p, what))
        if not self.keep_work:
            shutil.rmtree(self.work, ignore_errors=True)
        self.log("done: %d violation(s), %d known finding(s), %.1fs" % (
            len(seen), len(self.known_seen), time.time() - self.t0))
        return 1 if self.violations else 0


def parse_printed(out):
    """Lines printed by PrintT(<<"TAG", "json string">>) -> [(tag, value)]."""
    res = []
    for line in out.splitlines():
        if not line.startswith('<<"'):
            continue
        m = re.match(r'^<<"([A-Za-z0-9_]+)", "(.*)">>$', line)
        if not m:
            continue
        inner = m.group(2)
        try:
            s = json.loads('"' + inner + '"')
            res.append((m.group(1), json.loads(s)))
        except Exception:
            continue
    return res


def load_known(pid):
    p = os.path.join(VERIF, "known_findings.json")
    if not os.path.exists(p):
        return []
    data = json.load(open(p))
    return [f for f in data.get("findings", []) if f.get("property") == pid]


def open_known(pid):
    return [f for f in load_known(pid) if f.get("status", "open") == "open"]


def sample(rng, items, n):
    if len(items) <= n:
        return list(items)
    return rng.sample(items, n)


def main(run, pid, level="model_checking"):
    import argparse
    ap = argparse.ArgumentParser()
    ap.add_argument("--tier", default=os.environ.get("VERIF_TIER", "quick"))
    ap.add_argument("--replay")
    a = ap.parse_args(sys.argv[2:])
    seed = int(os.environ.get("VERIF_SEED", "1") or 1)
    ctx = Ctx(pid, a.tier, seed, level)
    try:
        run(ctx, a.replay)
        rc = ctx.finish()
    except Infra as e:
        print("INFRA-ERROR property=%s: %s" % (pid, e), flush=True)
        if not ctx.keep_work and not os.environ.get("VERIF_KEEP_ON_ERROR"):
            shutil.rmtree(ctx.work, ignore_errors=True)
        sys.exit(2)
    sys.exit(rc)
