"""C20 - configuration parsing never crashes and parsed trees round-trip.

Pattern B.
(T) TLC enumerates the input rows from spec/CfgSyntax.tla - structured documents
    (gadget sequences x styles, documented breakages), single-piece mutations of
    them, every raw string over the 19-class byte alphabet up to a length, the
    shipped files - and checks on every structured document that the documented
    rule Expected(doc) satisfies the C20 predicates and round-trips in the model.
(B) harness/cfgcheck runs the real cfgparser.Read on every row in a child
    process under a memory cap and a watchdog and records the outcome class and
    the raw facts; spec/CfgSyntaxTrace.tla evaluates the property predicates on
    the recorded rows (VIOLATION) and compares with Expected(doc) (DRIFT only).
"""
import hashlib
import json
import os
from concurrent.futures import ThreadPoolExecutor

import vlib

LEVEL = "exploration"
ALL_DEVS = ["SelfImportDoubling", "ImportLadder", "EmptyMacroEmbed", "MacroCloseNesting", "DeepImportTree"]
# every value a run may use must be in the constants of the trace spec (gadget names are looked up there)
MCLOSES_ALL = (3, 300, 2000)
SNIPDEEPS_ALL = (100, 200, 254)
CHAINS_ALL = ((1, 50), (1, 200), (2, 127), (3, 150), (4, 150), (1, 255), (7, 40))
# boundary of the nesting limit reached through an import: 100 blocks around the import, 155 / 156 / 157 blocks
# in the imported snippet or file (total limit-1, limit, limit+1), innermost block non-empty (0) / empty (1)
SPLITS_ALL = tuple((100, i, e) for i in (155, 156, 157) for e in (0, 1)) + ((1, 255, 1), (1, 256, 1), (200, 57, 1))
SPLITS_QUICK = tuple((100, i, e) for i in (156, 157) for e in (0, 1))
DEPTHS_ALL = (1, 2, 3, 255, 256, 257, 300)
LADDERS_ALL = (3, 10, 24)
# directive names over the character-class alphabet of CfgSyntax.tla (NameClasses, 9 classes, index 1..9):
# code = 1000000 * position + classes as base-16 digits, first character lowest.  Position 0 (top level): every name
# of 1 and 2 characters; positions 1-4 (inside a block, block header, inside an imported snippet, in an imported file): every first
# character followed by an ASCII letter, and alone; position 4 = in a file imported inside a block (layer i).  Thorough adds the names of 3 characters at top level.
NCLS = 9
NAMES_QUICK = tuple([a for a in range(1, NCLS + 1)] + [a + 16 * b for a in range(1, NCLS + 1) for b in range(1, NCLS + 1)]
                    + [1000000 * pos + a + 16 * b for pos in (1, 2, 3, 4) for a in range(1, NCLS + 1) for b in (0, 1)])
NAMES_ALL = NAMES_QUICK + tuple(a + 16 * b + 256 * c for a in range(1, NCLS + 1) for b in range(1, NCLS + 1)
                                for c in range(1, NCLS + 1))

CFG = """SPECIFICATION %(spec)s
CONSTANTS
  MaxItems = %(maxitems)d
  Styles = %(styles)s
  MutLen = %(mutlen)d
  RawLen = %(rawlen)d
  Depths = %(depths)s
  Ladders = %(ladders)s
  MacroCloses = %(mcloses)s
  SnipDeeps = %(snipdeeps)s
  FileChains = %(chains)s
  SnipSplits = %(snipsplits)s
  FileSplits = %(filesplits)s
  NameCodes = %(namecodes)s
  Devs = %(devs)s
%(tail)s
CHECK_DEADLOCK FALSE
"""

STYLE_PLAIN = [[]]
STYLES_QUICK = [[], ["crlf", "tabs", "comments", "quote"], ["same", "cont"]]
STYLES_ALL = [[], ["crlf"], ["tabs", "comments"], ["quote"], ["same"], ["cont"],
              ["crlf", "tabs", "comments", "quote"], ["same", "cont"],
              ["crlf", "same", "cont", "quote", "comments"]]


def tla_set(xs):
    def one(x):
        if isinstance(x, tuple):
            return "<<" + ", ".join(one(y) for y in x) + ">>"
        if isinstance(x, (list, set)):
            return tla_set(x)
        if isinstance(x, str):
            return '"%s"' % x
        return str(x)
    return "{" + ", ".join(one(x) for x in xs) + "}"


def split_code(outer, inner, empty):
    return 1000000 * empty + 1000 * outer + inner


def cfg(spec="SpecDoc", maxitems=0, styles=STYLE_PLAIN, mutlen=0, rawlen=0, depths=(3,), ladders=(3,),
        devs=(), inv="EmitRows", post=None, mcloses=(), snipdeeps=(), chains=(), snipsplits=(), filesplits=(),
        namecodes=()):
    tail = ("INVARIANTS " + inv) if inv else ""
    if post:
        tail += "\nPOSTCONDITION " + post
    return CFG % dict(spec=spec, maxitems=maxitems, styles=tla_set(styles), mutlen=mutlen, rawlen=rawlen,
                      depths=tla_set(list(depths)), ladders=tla_set(list(ladders)), devs=tla_set(list(devs)), tail=tail,
                      mcloses=tla_set(list(mcloses)), snipdeeps=tla_set(list(snipdeeps)), chains=tla_set([1000 * k + d for k, d in chains]),
                      snipsplits=tla_set([split_code(*x) for x in snipsplits]),
                      filesplits=tla_set([split_code(*x) for x in filesplits]), namecodes=tla_set(list(namecodes)))


def rows_of(r):
    return [v for tag, v in r["printed"] if tag == "ROW"]


def source_of(row):
    """bytes of the source text of a row (for de-duplication and samples)"""
    if row["layer"] == "r":
        return bytes(row["bytes"])
    if row["layer"] == "f":
        return ("file:" + row["path"]).encode()
    if row["layer"] == "i":
        return "\0".join(f["name"] + "\0" + "".join(f["pieces"]) for f in row["files"]).encode()
    return "".join(row["pieces"]).encode()


def key_of(row):
    return hashlib.sha1(row["layer"].encode() + b"\0" + source_of(row) + b"\0" +
                        json.dumps(row.get("doc"), sort_keys=True).encode() +
                        json.dumps(row.get("style"), sort_keys=True).encode()).hexdigest()


def brief(row, out=None):
    """a readable rendering of a row for samples / replay artefacts"""
    d = {"layer": row["layer"]}
    if row["layer"] == "r":
        d["bytes"] = row["bytes"]
    elif row["layer"] == "f":
        d["path"] = row["path"]
    elif row["layer"] == "i":
        d.update(scenario=row["scen"], expected=row["exp"],
                 files={f["name"]: "".join(f["pieces"])[:300] for f in row["files"]})
    else:
        d.update(doc=row["doc"], style=row["style"], mut=row["mut"], expected=row["exp"],
                 source="".join(row["pieces"])[:600])
    if out is not None:
        d["observed"] = {k: out[k] for k in ("class", "msg", "site", "nodes", "depth", "expressible") if k in out}
        if out.get("tree") and len(json.dumps(out["tree"])) < 600:
            d["observed"]["tree"] = out["tree"]
        if out.get("canon") and len(out["canon"]) < 400:
            d["observed"]["canonical_print"] = out["canon"]
            d["observed"]["reparse"] = out["rt"]["class"]
    return d


def known_for(open_entries, verdict, row, out):
    """the open known finding that explains this violating row, or None.

    A structured row is matched by the deviation the model derives from the
    document (Expected(doc).devs, evaluated by TLC with Devs = the open
    deviations) together with the violated predicates; a mutated / raw row has no
    modelled document, it is matched by outcome class + call site + message."""
    viol = set(verdict["viol"])
    for e in open_entries:
        m = e.get("match", {})
        if not viol or not viol <= set(m.get("predicates", [])):
            continue
        if out["class"] not in m.get("out_class", []):
            continue
        if m.get("site") and out.get("site") != m["site"]:
            continue
        if m.get("stack_has") and m["stack_has"] not in (out.get("stack") or []):
            continue
        if m.get("msg") and m["msg"] not in (out.get("msg") or ""):
            continue
        if row["layer"] in ("s", "i"):
            if m.get("deviation") in verdict.get("dev", []):
                return e
        elif row["layer"] == "m" and m.get("site") and m.get("unmodelled_rows_by_site"):
            return e
    return None


def validate_parallel(ctx, events, cfg_text, batch, jobs):
    """ctx.validate for CfgSyntaxTrace, with the batches run by several TLC processes at a time"""
    by_t = {}
    for e in events:
        by_t.setdefault(e["t"], []).append(e)
    ts = sorted(by_t)
    chunks = [ts[i:i + batch] for i in range(0, len(ts), batch)]

    def one(bi):
        d = ctx.sub("CfgSyntaxTrace-b%d" % bi)
        with open(os.path.join(d, "trace.ndjson"), "w") as f:
            for t in chunks[bi]:
                for e in by_t[t]:
                    f.write(json.dumps(e) + "\n")
        r = ctx.tlc("CfgSyntaxTrace", None, name=os.path.basename(d), workers=1, timeout=2400, cfg_text=cfg_text)
        if not r["ok"]:
            raise vlib.Infra("trace validation run failed: invariant=%s error=%s (see %s/tlc.out)" % (
                r["invariant"], r["error"], r["dir"]))
        got = [val for tag, val in r["printed"] if tag == "VERDICTS"]
        if not got:
            raise vlib.Infra("no VERDICTS line from CfgSyntaxTrace (see %s/tlc.out)" % r["dir"])
        return r["distinct"], got[-1]

    verdicts, states = {}, 0
    with ThreadPoolExecutor(max_workers=jobs) as ex:
        for n, got in ex.map(one, range(len(chunks))):
            states += n
            for rec in got:
                verdicts.setdefault(rec["t"], []).append(rec)
    for t in ts:
        if t not in verdicts:
            raise vlib.Infra("row %s produced no verdict" % t)
    ctx.cov["trace_states"] = ctx.cov.get("trace_states", 0) + states
    return verdicts, by_t


def run(ctx, replay):
    thorough = ctx.tier == "thorough"
    known_all = vlib.load_known(ctx.pid)
    open_entries = [e for e in known_all if e.get("status", "open") == "open"]
    if os.environ.get("VERIF_C20_NO_KNOWN"):      # drill switch: behave as if no finding were open
        open_entries = []
    open_devs = sorted({e["match"]["deviation"] for e in open_entries if e.get("match", {}).get("deviation")})

    items = []
    if replay:
        obj = json.load(open(replay))
        it = obj["behaviour"]
        it["id"] = 1
        items = [it]
    else:
        # ---- (T) exhaustive enumeration + model-level check -----------------
        styles = STYLES_ALL if thorough else STYLES_QUICK
        depths = DEPTHS_ALL if thorough else (3, 256, 257)
        ladders = LADDERS_ALL if thorough else (3, 24)
        mcloses = MCLOSES_ALL if thorough else (300,)
        snipdeeps = SNIPDEEPS_ALL if thorough else (200,)
        chains = CHAINS_ALL if thorough else ((1, 50), (1, 200), (4, 150))
        splits = SPLITS_ALL if thorough else SPLITS_QUICK
        names = NAMES_ALL if thorough else NAMES_QUICK
        rawlen = 4 if thorough else 3
        jobs = {
            # every document of <= 2 gadgets x styles; the documented rule must satisfy the property
            "doc": dict(workers=4, timeout=1500,
                        cfg_text=cfg(maxitems=2, styles=styles, depths=depths, ladders=ladders, inv="RowAndModel",
                                     mcloses=mcloses, snipdeeps=snipdeeps, chains=chains,
                                     snipsplits=splits, filesplits=splits, namecodes=names)),
            # as-is: with the deviations switched on the rule itself violates the property
            "asis": dict(workers=2, timeout=600,
                         cfg_text=cfg(maxitems=2, styles=STYLE_PLAIN, devs=ALL_DEVS, ladders=(3, 24), inv="ModelHolds")),
            # single-piece mutations of one-gadget documents (exhaustive)
            "mut": dict(workers=4, timeout=1500,
                        cfg_text=cfg(maxitems=1, mutlen=1, styles=STYLES_QUICK if thorough else STYLE_PLAIN)),
            "raw": dict(workers=4, timeout=1500, cfg_text=cfg(spec="SpecRaw", rawlen=rawlen)),
            # beyond the exhaustive bounds: seeded simulation (TLC evaluates the invariant, i.e. emits a
            # row, for every successor of every state of a random walk)
            "simdoc": dict(workers=1, timeout=1500, simulate=150 if thorough else 15, depth=6,
                           cfg_text=cfg(maxitems=4, mutlen=4, styles=STYLES_ALL, depths=depths, ladders=ladders)),
            "simraw": dict(workers=1, timeout=1500, simulate=300 if thorough else 15, depth=17,
                           cfg_text=cfg(spec="SpecRaw", rawlen=16)),
        }
        with ThreadPoolExecutor(max_workers=6) as ex:
            futs = {k: ex.submit(ctx.tlc, "CfgSyntax", None, name=k, **kw) for k, kw in jobs.items()}
            res = {k: f.result() for k, f in futs.items()}
        if res["asis"]["invariant"] != "ModelHolds":
            raise vlib.Infra("as-is model (deviations on) no longer violates ModelHolds: the predicates are vacuous")
        ctx.cov["asis_counterexample_found"] = True
        for k in ("doc", "mut", "raw", "simdoc", "simraw"):
            if not res[k]["ok"]:
                raise vlib.Infra("TLC run %s of CfgSyntax failed: invariant=%s error=%s (see %s/tlc.out)" % (
                    k, res[k]["invariant"], res[k]["error"], res[k]["dir"]))
            ctx.log("TLC %s: %d states, %.1fs" % (k, res[k]["distinct"] or res[k]["generated"], res[k]["wall"]))
        rows_doc = rows_of(res["doc"])
        rows_mut = [x for x in rows_of(res["mut"]) if x["layer"] == "m"]
        rows_raw = rows_of(res["raw"])
        rows_sim = rows_of(res["simdoc"])
        rows_simraw = [x for x in rows_of(res["simraw"]) if len(x["cls"]) > rawlen]
        ctx.cov["rows_structured_exhaustive"] = len(rows_doc)
        ctx.cov["rows_mutated_exhaustive"] = len(rows_mut)
        ctx.cov["rows_raw_exhaustive"] = len(rows_raw)
        ctx.cov["raw_len_exhaustive"] = rawlen
        ctx.cov["rows_simulated"] = len(rows_sim) + len(rows_simraw)
        ctx.cov["states"] = sum(res[k]["distinct"] for k in ("doc", "mut", "raw"))
        ctx.cov["transitions"] = sum(res[k]["generated"] for k in ("doc", "mut", "raw"))

        # quick: everything structured, a seeded sample of the rest; rows that the model
        # says hit a resource-exhaustion deviation cost seconds each: a few per deviation
        if not thorough:
            rows_mut = vlib.sample(ctx.rng, rows_mut, 1500)
        rows = rows_doc + rows_mut + rows_raw + rows_sim + rows_simraw
        seen, uniq, heavy = set(), [], {}
        for x in rows:
            k = key_of(x)
            if k in seen:
                continue
            seen.add(k)
            hv = [d for d in x.get("xdev", []) if d in ("SelfImportDoubling", "ImportLadder")]
            if hv:
                heavy.setdefault((hv[0], len(x["doc"])), []).append(x)
            else:
                uniq.append(x)
        nheavy = 0
        for k in sorted(heavy):
            lst = heavy[k]
            keep = lst if thorough else vlib.sample(ctx.rng, lst, 4)
            nheavy += len(keep)
            uniq += keep
        ctx.cov["rows_resource_deviation"] = nheavy
        items = [{"id": i + 1, "in": x} for i, x in enumerate(uniq)]
    ctx.log("%d rows to run on the real parser" % len(items))

    # ---- (B) the real parser ----------------------------------------------------
    binary = ctx.build_harness("cfgcheck")
    ctx.rng.shuffle(items)          # spread the expensive rows over the shards
    env = {"VERIF_REPO": ctx.repo, "VERIF_CFG_MEMCAP_MB": os.environ.get("VERIF_CFG_MEMCAP_MB", "512"),
           "VERIF_CFG_ROW_TIMEOUT_S": os.environ.get("VERIF_CFG_ROW_TIMEOUT_S", "20")}
    events = ctx.run_shards(binary, items, env_extra=env, timeout=2400)
    by_id = {it["id"]: it for it in items}
    if len(events) != len(items):
        raise vlib.Infra("harness answered %d of %d rows" % (len(events), len(items)))
    ctx.log("real parser ran on %d rows" % len(events))

    # binding self-test: a forged row (outcome class flipped / tree altered) must not be accepted
    selftest = {}
    if not replay:
        base = next((e for e in events if e["in"]["layer"] == "s" and e["out"]["class"] == "tree"
                     and e["out"]["nodes"] >= 2 and e["in"]["exp"] == "tree"), None)
        if base:
            c1 = json.loads(json.dumps(base))
            c1["t"] = 9000001
            c1["out"]["class"] = "panic"
            c2 = json.loads(json.dumps(base))
            c2["t"] = 9000002
            c2["out"]["tree"][0]["n"] = "zz"
            c2["out"]["rt"]["tree"][0]["n"] = "zz"
            events = events + [c1, c2]
            selftest = {9000001: "viol", 9000002: "drift"}

    tcfg = cfg(spec="TSpec", maxitems=0, depths=DEPTHS_ALL, ladders=LADDERS_ALL, mcloses=MCLOSES_ALL,
               snipdeeps=SNIPDEEPS_ALL, chains=CHAINS_ALL, snipsplits=SPLITS_ALL, filesplits=SPLITS_ALL,
               namecodes=NAMES_ALL, devs=open_devs, inv=None, post="Post")
    verdicts, by_t = validate_parallel(ctx, events, tcfg, batch=4000 if thorough else max(1000, -(-len(events) // 8)), jobs=8)

    ok = drift = 0
    preds, classes, known_rows = {}, {}, {}
    distinct, nontrivial = set(), set()
    samples_by_class = {}
    for t, recs in sorted(verdicts.items()):
        v = recs[0]
        if t in selftest:
            if selftest[t] == "viol" and "NoCrash" not in v["viol"]:
                raise vlib.Infra("binding self-test failed: forged panic row not flagged")
            if selftest[t] == "drift" and not v["drift"]:
                raise vlib.Infra("binding self-test failed: forged tree accepted as conforming")
            continue
        ev = by_t[t][0]
        row, out = ev["in"], ev["out"]
        classes[out["class"]] = classes.get(out["class"], 0) + 1
        sk = key_of(row)
        distinct.add(sk)
        if out["class"] != "tree" or out.get("nodes", 0) > 0:
            nontrivial.add(sk)
        samples_by_class.setdefault((row["layer"], out["class"]), []).append((row, out))
        if v["viol"]:
            e = known_for(open_entries, v, row, out)
            if e is not None:
                ctx.known(e["id"], e["what"])
                known_rows[e["id"]] = known_rows.get(e["id"], 0) + 1
                continue
            for p in v["viol"]:
                preds[p] = preds.get(p, 0) + 1
            what = "cfgparser.Read violates %s (outcome %s%s) on a %s row" % (
                ",".join(sorted(v["viol"])), out["class"],
                (": " + out["msg"][:80]) if out["class"] in ("panic", "oom", "timeout") else "",
                {"s": "structured", "m": "mutated", "r": "raw", "f": "shipped-file", "i": "file-import"}[row["layer"]])
            ctx.violation(what, {"property": "C20", "behaviour": by_id[t], "trace": by_t[t], "violated": sorted(v["viol"]),
                                 "readable": brief(row, out), "how": "bin/check C20 --replay <this file>"})
        elif v["drift"]:
            drift += 1
            if drift <= int(os.environ.get("VERIF_DRIFT_MAX", "20")):
                print("DRIFT property=C20 row=%d expected=%s observed=%s doc=%s style=%s" % (
                    t, v.get("exp"), out["class"], row.get("doc") or row.get("scen"), row.get("style")))
        else:
            ok += 1
    if selftest:
        ctx.cov["binding_selftest"] = "forged outcome class flagged, forged tree rejected as non-conforming"
    ctx.cov["traces_validated_against_impl"] = ok
    ctx.cov["drift_traces"] = drift
    ctx.cov["evaluations"] = len(items)
    ctx.cov["distinct_nontrivial"] = len(nontrivial)
    ctx.cov["distinct_sources"] = len(distinct)
    ctx.cov["outcome_classes"] = classes
    ctx.cov["known_finding_rows"] = known_rows
    ctx.cov["violated_predicates"] = preds
    ctx.cov["rule"] = (
        "rows = states of spec/CfgSyntax.tla enumerated by TLC: structured documents (all sequences of <= 2 of the "
        "gadgets x styles; deep-nesting and import-ladder gadgets alone; directive names over a 9-class character alphabet "
        "- ASCII / non-ASCII letters and decimal digits, punctuation, other numbers, combining marks, symbols - of 1-2 "
        "(thorough 3) characters at top level, inside a block, as block header, inside an imported snippet and in an "
        "imported file), every single-piece mutation (drop / insert one of 13 pieces) of the one-gadget documents (seeded sample of 1500 in quick), every string over the "
        "19-class byte alphabet up to length %d, the two shipped files, the file-import scenarios, plus -simulate rows (documents of <= 4 gadgets "
        "with mutation, raw strings up to 16 classes), de-duplicated by (layer, source bytes, document); rows the model "
        "marks as resource-exhausting deviations: all in thorough, 4 per deviation and document length in quick. "
        "non-trivial = distinct row whose observed outcome is not the empty tree (an error, a crash class, or a tree "
        "with at least one node)" % (4 if thorough else 3))
    for k in sorted(samples_by_class):
        row, out = samples_by_class[k][0]
        if len(ctx.cov["samples"]) < 14:
            ctx.cov["samples"].append(brief(row, out))
    ctx.cov["exhaustive"] = False
    ctx.cov["memory_cap_mb"] = int(env["VERIF_CFG_MEMCAP_MB"])
    ctx.cov["row_timeout_s"] = int(env["VERIF_CFG_ROW_TIMEOUT_S"])
    shipped = [brief(e["in"], e["out"]) | {"pipelines": e["out"].get("pipelines")} for e in events
               if e["in"]["layer"] == "f" and e["t"] < 9000000]
    if shipped:
        ctx.cov["shipped_files"] = shipped
    ctx.assumptions += [
        "\"every byte sequence\" is decided only inside the stated bounds: exhaustive over the 19-class alphabet up to the "
        "stated length, the gadget grammar and its single-piece mutations; beyond that seeded simulation",
        "imports of files are explored only through the file scenarios of layer 'i' (self-import, 2- and 3-cycles, a file "
        "introducing a snippet, chains of files with deep blocks) written by the harness into an empty directory; the "
        "child runs with RLIMIT_NOFILE lowered to 640 so that a parser that keeps opening files ends as class 'nofile'",
        "memory exhaustion = Go heap above the cap (default 512 MB; inputs are < 20 KB) observed by an in-process "
        "watchdog, RLIMIT_AS backstop; non-termination = the process spends more than the row time-out (default 20 s) of CPU time on one row, or 15 x that of wall-clock time, confirmed by re-running the row alone",
        "well-formedness of names, macro-reference and quotability patterns are computed by the harness per character "
        "class / regular expression; the comparison of trees and all predicates are evaluated by TLC",
        "pipeline validation of the shipped files: real msgpipeline.New on every endpoint block and queue bounce block "
        "with the real checks / modifiers / tables; storage, auth and delivery-target instances are stubs, endpoints are "
        "not started; maddy.conf.docker with MADDY_HOSTNAME / MADDY_DOMAIN set as its documentation requires",
        "TLC 1.8.0, CommunityModules Json reader",
    ]


META = {
    "engine": "cfgcheck",
    "level": "exploration",
    "technique": "TLA+ spec CfgSyntax.tla (documented grammar, outcome rule and the C20 predicates) enumerated and "
                 "model-checked by TLC; every generated row parsed by the real cfgparser.Read in a child process under a "
                 "memory cap and watchdog; recorded outcomes and trees evaluated by TLC against CfgSyntaxTrace.tla",
    "text": "Bounded exploration of a model-generated case space: TLC enumerates all documents of <= 2 grammar gadgets "
            "(67 gadgets incl. breakages, macros, snippets/imports forward/backward/self, env placeholders also inside "
            "snippets / macro values / block headers; deep nesting, import ladders, deep snippets imported deep and the "
            "macro-closes-block repetition alone; directive names over a character-class alphabet incl. non-ASCII letters / decimal digits / marks in five positions; file-import scenarios: cycles, chains of deep files) in 3 (quick) / 9 (thorough) rendering styles, all single-piece mutations of the "
            "one-gadget documents, every string over an 19-class byte alphabet up to length 3 (quick) / 4 (thorough), the "
            "shipped files, plus seeded simulation beyond those bounds; it checks that the documented rule satisfies the "
            "C20 predicates on every structured document, and evaluates the same predicates (no panic / time-out / memory or "
            "descriptor exhaustion, nothing unexpanded, no environment placeholder left, well-formed names, bounded nesting, canonical print re-parses to the same "
            "tree, shipped files parse and their pipelines validate) on what the real parser did on every row; "
            "disagreement with the documented outcome class or tree is reported as DRIFT only.",
    "note": "\"For every byte sequence\" is decided only up to the stated length and alphabet and over the gadget grammar "
            "with single-piece mutations; outside those bounds there is only seeded simulation. Character-class and "
            "pattern facts of tokens and the canonical printer are Go code in the harness (trusted); file imports are "
            "explored only through a handful of scenarios; storage/auth/target back-ends are stubbed in the pipeline validation of the shipped files.",
    "design_ref": "DESIGN.md section 5 C20",
}
