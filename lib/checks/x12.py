"""X12 - the IMAP update pipe (internal/updatepipe: UnixSockPipe, PubSubPipe, the wire format) and
framework/future.Future.

(T)  TLC checks UpdatePipe.tla exhaustively: processes owning one pipe each on a shared medium (a Unix
     socket path, or a publish/subscribe broker), every interleaving of their calls of interface P
     (Listen, InitPush, Push, Close) with the steps of the pipes' goroutines at the medium (accept a
     connection, take the next line of a connection and dispose of it), the consumer of the channel, a
     process dying without Close, a foreign writer putting lines that are no update on the medium and
     the subscriptions, inside the bound; the predicates of UpdatePipeObs.tla are evaluated in every
     state.  With each named deviation of the code on HEAD switched on the same invariant must produce a
     counterexample.
(B)  TLC-generated behaviours are replayed on real UnixSockPipe / PubSubPipe objects (one per modelled
     process): net.Listen / net.Dial / os.Remove and the go statements of unix_pipe.go / pubsub_pipe.go
     go through an overlay shim (harness/updatepipecheck/unet: an in-memory socket directory inside a
     testing/synctest bubble that parks the pipe goroutines before every accept and before every line);
     PubSubPipe runs over a scripted broker with the semantics of PostgreSQL LISTEN/NOTIFY.  The recorded
     traces are validated against UpdatePipeTrace.tla (conformance with the as-is design + predicates).
(B2) pattern B for the wire format: TLC enumerates the rows of UpdatePipeSer.tla (update type x key kind
     and name x SeqSet x flags x path); every row goes through formatUpdate/parseUpdate, through two
     UnixSockPipes and through two PubSubPipes; UpdatePipeSerTrace.tla evaluates the predicates.
(C)  Future.tla (Set / Get / GetContext at the scheduling points of the instrumented future.go) is
     model-checked; TLC-generated schedules run on the real Future under harness/vsched; traces are
     validated against FutureTrace.tla.
"""
import json
import os
import random
import re
from concurrent.futures import ThreadPoolExecutor

import vlib
import vtable
from checks import c12 as base

EXT = "X12"
UNET = "github.com/foxcpp/maddy/verifharness/updatepipecheck/unet"

# predicates each named deviation is allowed to explain
DEV_PREDS = {
    "MalformedPanics": {"ListenerPanicked"},
    "OversizedStalls": {"UpdateLost", "ListenerStopped"},
    "StaleSocket": {"ListenRefusedNobodyListening"},
}
ALL_DEVS = sorted(DEV_PREDS)


# ---- overlay ---------------------------------------------------------------------------------------

def rewrite_go_stmts(txt, what):
    """`go f(x)` -> unet.Go(func() { f(x) }); `go func() {` ... `}()` -> unet.Go(func() { ... })"""
    lines = txt.split("\n")
    out = []
    closers = []      # indentation of multi-line go statements waiting for their `}()`
    n = 0
    for ln in lines:
        m = re.match(r"^(\s*)go func\(\) \{\s*$", ln)
        if m:
            out.append(m.group(1) + "unet.Go(func() {")
            closers.append(m.group(1))
            n += 1
            continue
        if closers and ln.rstrip() == closers[-1] + "}()":
            out.append(closers.pop() + "})")
            continue
        m = re.match(r"^(\s*)go ([^\s{][^{]*\))\s*$", ln)
        if m:
            out.append("%sunet.Go(func() { %s })" % (m.group(1), m.group(2)))
            n += 1
            continue
        out.append(ln)
    if closers:
        raise vlib.Infra("%s: a `go func() {` statement without its `}()` line; the overlay cannot be generated" % what)
    if re.search(r"^\s*go\s", "\n".join(out), re.M):
        raise vlib.Infra("%s: a go statement of a shape the overlay generator does not know" % what)
    return "\n".join(out), n


def make_overlay(ctx):
    """generated copies of unix_pipe.go / pubsub_pipe.go whose net.Listen / net.Dial / os.Remove calls and go
    statements go through harness/updatepipecheck/unet, plus one added file exporting format/parseUpdate"""
    d = ctx.sub("overlay-x12")
    pkg = os.path.join(ctx.repo, "internal/updatepipe")
    repl = {}
    stats = {}
    for fn in ("unix_pipe.go", "pubsub_pipe.go"):
        src = os.path.join(pkg, fn)
        try:
            txt = open(src).read()
        except OSError as e:
            raise vlib.Infra("cannot read %s: %s" % (src, e))
        if "import (\n" not in txt:
            raise vlib.Infra("%s has no import block; the overlay cannot be generated" % fn)
        k = 0
        for a, b in (("net.Listen(", "unet.Listen("), ("net.Dial(", "unet.Dial("), ("os.Remove(", "unet.Remove(")):
            k += txt.count(a)
            txt = txt.replace(a, b)
        txt, g = rewrite_go_stmts(txt, fn)
        stats[fn] = {"calls_rerouted": k, "go_statements": g}
        if k or g:
            txt = txt.replace("import (\n", 'import (\n\tunet "%s"\n' % UNET, 1)
        for imp in ("net", "os"):
            if ('\t"%s"\n' % imp) in txt and not re.search(r"\b%s\." % imp, txt.replace('"%s"' % imp, "")):
                txt = txt.replace('\t"%s"\n' % imp, "")
        dst = os.path.join(d, fn + ".txt")
        open(dst, "w").write(txt)
        repl[src] = dst
    if stats["unix_pipe.go"]["calls_rerouted"] == 0:
        raise vlib.Infra("unix_pipe.go calls neither net.Listen nor net.Dial; the socket shim cannot be put in")
    repl[os.path.join(pkg, "verif_x12_export.go")] = os.path.join(vlib.HARNESS, "updatepipecheck", "export.go.txt")
    ov = os.path.join(d, "overlay.json")
    json.dump({"Replace": repl}, open(ov, "w"))
    return ov, stats


def full_overlay(ctx):
    ov, stats = make_overlay(ctx)
    fov = base.instrument(ctx, ["framework/future/future.go"])     # yield points for harness/vsched
    a = json.load(open(ov))
    b = json.load(open(fov))
    a["Replace"].update(b["Replace"])
    out = os.path.join(ctx.sub("overlay-x12"), "merged.json")
    json.dump(a, open(out, "w"))
    ctx.cov["overlay"] = stats
    return out


# ---- configurations --------------------------------------------------------------------------------

def tla_set(xs, quote=True):
    return "{" + ", ".join(('"%s"' % x) if quote else str(x) for x in xs) + "}"


MC_TAIL = "VIEW View\nINVARIANTS NoViolation TypeOK OwnerAgrees WaitersAgree\nCHECK_DEADLOCK FALSE\n"
GEN_TAIL = "CHECK_DEADLOCK FALSE\n"


def cfg(medium="unix", procs=("s", "c1"), lst=("s",), maxpush=1, srvpush=1, chancap=1, maxbad=0, maxbig=0,
        maxcrash=0, maxclose=1, sizes=("s",), keys=(1,), first="-", second="-", late=True, devs=(), gen=False,
        tail=MC_TAIL, spec="Spec"):
    return ("SPECIFICATION %s\nCONSTANTS\n  Medium = \"%s\"\n  Procs = %s\n  Lst = %s\n  MaxPush = %d\n  SrvPush = %d\n"
            "  ChanCap = %d\n  MaxBad = %d\n  MaxBig = %d\n  MaxCrash = %d\n  MaxClose = %d\n  Sizes = %s\n  Keys = %s\n"
            "  First = \"%s\"\n  Second = \"%s\"\n  LateClose = %s\n  Devs = %s\n  Gen = %s\n%s") % (
        spec, medium, tla_set(procs), tla_set(lst), maxpush, srvpush, chancap, maxbad, maxbig, maxcrash, maxclose,
        tla_set(sizes), tla_set(keys, quote=False), first, second, "TRUE" if late else "FALSE", tla_set(devs),
        "TRUE" if gen else "FALSE", tail)


def trace_cfg(group, devs):
    medium, procs, lst, chancap = group
    return cfg(medium=medium, procs=procs, lst=lst, maxpush=1000, srvpush=1000, chancap=chancap, maxbad=1000,
               maxbig=1000, maxcrash=1000, maxclose=2, sizes=("s", "L"), keys=(1, 2), late=False, devs=devs,
               spec="TSpec", tail="CHECK_DEADLOCK FALSE\nPOSTCONDITION Post\n")


U3 = dict(medium="unix", procs=("s", "c1", "c2"), lst=("s",), first="c1", second="c2")
U2 = dict(medium="unix", procs=("s", "c1"), lst=("s",))
UR = dict(medium="unix", procs=("s", "s2", "c1"), lst=("s", "s2"), first="s", second="s2")
P2 = dict(medium="pubsub", procs=("s", "r"), lst=("s", "r"), first="s", second="r")
P3 = dict(medium="pubsub", procs=("s", "r", "c1"), lst=("s", "r"), first="s", second="r")

# exhaustive configurations: (name, kwargs).  The first one's counts are reported as states / transitions,
# the sum over all of them as states_total.
MC_QUICK = [
    ("flow", dict(U3, maxpush=1, srvpush=1, chancap=0)),                       # two pushers, reader per connection
    ("lines", dict(U2, maxpush=2, srvpush=0, chancap=0, maxbad=1, maxbig=1, sizes=("s", "L"))),   # bad / long lines
    ("restart", dict(UR, maxpush=1, srvpush=0, chancap=0, maxcrash=1)),        # death, stale socket, second listener
    ("chan", dict(U2, maxpush=2, srvpush=1, chancap=1, maxclose=2, late=False)),  # full channel, Close twice
    ("pubsub", dict(P2, maxpush=1, srvpush=1, chancap=0, maxbad=1, maxclose=2)),
]
MC_THOROUGH = [
    ("flow", dict(U3, maxpush=1, srvpush=1, chancap=1)),
    ("lines", dict(U2, maxpush=2, srvpush=1, chancap=1, maxbad=1, maxbig=1, sizes=("s", "L"), maxclose=2, late=False)),
    ("restart", dict(UR, maxpush=1, srvpush=0, chancap=0, maxbad=1, maxcrash=1)),
    ("flow2", dict(U3, maxpush=2, srvpush=0, chancap=0)),
    ("pubsub", dict(P3, maxpush=1, srvpush=1, chancap=0)),
    ("pubsub-bad", dict(P2, maxpush=1, srvpush=1, chancap=0, maxbad=1, maxclose=2)),
]
# witnesses of the named deviations: behaviours of the as-is design up to the first violated predicate
WITNESS = {
    "MalformedPanics": dict(medium="unix", procs=("s",), lst=("s",), maxpush=0, srvpush=0, chancap=0, maxbad=1),
    "OversizedStalls": dict(U2, maxpush=1, srvpush=0, chancap=0, maxbig=1, sizes=("L",)),
    "StaleSocket": dict(medium="unix", procs=("s", "s2"), lst=("s", "s2"), first="s", second="s2", maxpush=0, srvpush=0,
                        chancap=0, maxcrash=1),
}
# -simulate plans: (name, kwargs, share of the budget, deviations switched on in the generator)
SIM_PLANS = [
    ("unix-flow", dict(U3, maxpush=2, srvpush=1, chancap=1, maxbad=1, maxbig=1, sizes=("s", "L"), late=False), 0.20, ()),
    ("unix-asis", dict(U3, maxpush=2, srvpush=1, chancap=0, maxbad=1, maxbig=1, sizes=("s", "L"), late=False), 0.13, ALL_DEVS),
    ("unix-restart", dict(UR, maxpush=2, srvpush=1, chancap=1, maxbad=1, maxbig=1, maxcrash=1, sizes=("s", "L"), late=False), 0.15, ()),
    ("unix-restart-asis", dict(UR, maxpush=2, srvpush=1, chancap=0, maxbad=1, maxbig=1, maxcrash=1, sizes=("s", "L")), 0.10, ALL_DEVS),
    ("unix-chan2", dict(U3, maxpush=3, srvpush=1, chancap=2, maxclose=2, late=False), 0.10, ()),
    ("pubsub", dict(P3, maxpush=2, srvpush=2, chancap=1, maxbad=1, maxbig=1, sizes=("s", "L"), keys=(1, 2), maxclose=2, late=False), 0.20, ()),
    ("pubsub-ready", dict(P3, maxpush=2, srvpush=1, chancap=0, maxbad=1, keys=(1, 2)), 0.06, ()),
    ("pubsub-lines", dict(medium="pubsub", procs=("s", "c1"), lst=("s",), maxpush=2, srvpush=0, chancap=0, maxbad=1), 0.06, ()),
]
# exhaustive (breadth-first) generation: every complete behaviour of a tiny configuration
SWEEPS = [
    ("sweep-unix", dict(U2, maxpush=1, srvpush=0, chancap=0)),
    ("sweep-pubsub", dict(medium="pubsub", procs=("s", "c1"), lst=("s",), maxpush=1, srvpush=0, chancap=0)),
]
SWEEPS_THOROUGH = [
    ("sweep-unix-chan", dict(U2, maxpush=1, srvpush=0, chancap=1, late=False)),
]


def open_findings():
    p = os.path.join(vlib.VERIF, "extensions", "findings.json")
    if not os.path.exists(p):
        return []
    if os.environ.get("VERIF_X12_ASSUME_FIXED"):
        return []      # drills: judge the tree as if every finding had been repaired (nothing is suppressed)
    try:
        data = json.load(open(p))
    except Exception as e:
        raise vlib.Infra("extensions/findings.json is not readable: %s" % e)
    return [f for f in data.get("findings", [])
            if f.get("ext") == EXT and f.get("status", "open") == "open"]


def behaviours_from(r):
    return [{"cfg": val["cfg"], "hist": val["hist"], "viol": val.get("viol", [])}
            for tag, val in r["printed"] if tag == "BEH"]


def group_of(b):
    c = b["cfg"]
    return (c["Medium"], tuple(sorted(c["Procs"])), tuple(sorted(c["Lst"])), c["ChanCap"])


def nontrivial(b):
    """a Close, a death or a line that is no update arrives while a pipe goroutine still has something to do"""
    hist = b["hist"]
    for i, h in enumerate(hist):
        if h["a"] in ("Close", "Crash", "Bad") and any(x["a"] in ("Accept", "Read", "Consume") for x in hist[i + 1:]) \
                and any(x["a"] == "Push" for x in hist[:i]):
            return True
    return False


# ---- pattern A: the pipes --------------------------------------------------------------------------

def model_check(ctx, thorough):
    plans = MC_THOROUGH if thorough else MC_QUICK

    def one(job):
        name, kw = job
        return name, ctx.tlc_expect_ok("UpdatePipe", None, name="mc-" + name, workers=3 if thorough else 2,
                                       timeout=3000 if thorough else 900, heap="4g" if thorough else "2g",
                                       cfg_text=cfg(**kw))

    def asis(dev):
        ra = ctx.tlc("UpdatePipe", None, name="asis-" + dev, workers=1, timeout=600, heap="1g",
                     cfg_text=cfg(devs=[dev], tail="VIEW View\nINVARIANTS NoViolation\nCHECK_DEADLOCK FALSE\n", **WITNESS[dev]))
        if ra["invariant"] != "NoViolation":
            raise vlib.Infra("as-is model (%s) no longer violates NoViolation: the invariant is vacuous (%s)" % (
                dev, ra["error"]))
        return dev

    with ThreadPoolExecutor(max_workers=3) as ex:
        res = list(ex.map(one, plans))
        list(ex.map(asis, ALL_DEVS))
    per = {}
    for name, r in res:
        per[name] = {"distinct": r["distinct"], "generated": r["generated"], "depth": r["depth"], "wall_s": round(r["wall"], 1)}
    ctx.cov["states"] = sum(v["distinct"] for v in per.values())
    ctx.cov["transitions"] = sum(v["generated"] for v in per.values())
    ctx.cov["model_depth"] = max(v["depth"] for v in per.values())
    ctx.cov["model_runs"] = per
    ctx.cov["asis_counterexamples_found"] = ALL_DEVS
    ctx.log("TLC exhaustive (UpdatePipe): %d distinct states, %d transitions over %d configurations" % (
        ctx.cov["states"], ctx.cov["transitions"], len(per)))


def generate(ctx, thorough):
    total = 4000 if thorough else 420
    rng = random.Random(ctx.seed)
    jobs = []
    for name, kw, share, devs in SIM_PLANS:
        n = int(total * share)
        jobs.append((name, n, dict(name="sim-" + name, workers=1, timeout=1500, simulate=n, depth=90, heap="1g",
                                   cfg_text=cfg(gen=True, devs=devs, tail=GEN_TAIL, **kw))))
    for name, kw in SWEEPS + (SWEEPS_THOROUGH if thorough else []):
        jobs.append((name, None if thorough else 60,
                     dict(name=name, workers=2, timeout=1500, heap="2g", cfg_text=cfg(gen=True, tail=GEN_TAIL, **kw))))
    for dev, kw in sorted(WITNESS.items()):
        jobs.append(("witness-" + dev, 400 if thorough else 24,
                     dict(name="witness-" + dev, workers=1, timeout=1500, heap="2g",
                          cfg_text=cfg(gen=True, devs=[dev], tail=GEN_TAIL, **kw))))

    def one(job):
        name, n, kw = job
        g = ctx.tlc("UpdatePipe", None, **kw)
        if not g["ok"]:
            raise vlib.Infra("behaviour generation %s failed: %s %s" % (name, g["invariant"], g["error"]))
        return name, n, behaviours_from(g)

    with ThreadPoolExecutor(max_workers=5) as ex:
        results = list(ex.map(one, jobs))
    behs, seen = [], set()
    for name, n, got in results:
        got.sort(key=lambda b: json.dumps(b, sort_keys=True))
        ctx.cov.setdefault("generated", {})[name] = len(got)
        rng.shuffle(got)
        if name.startswith("witness-"):
            bad = [b for b in got if b["viol"]]
            good = [b for b in got if not b["viol"]]
            got = bad[:n * 3 // 4] + good[:n // 4]
        elif n is not None:
            hot = [b for b in got if nontrivial(b)]
            cold = [b for b in got if not nontrivial(b)]
            got = hot[:n * 3 // 4] + cold + hot[n * 3 // 4:]
        k = 0
        for b in got:
            b.pop("viol", None)
            key = json.dumps(b, sort_keys=True)
            if key in seen:
                continue
            seen.add(key)
            b["plan"] = name
            behs.append(b)
            k += 1
            if n is not None and k >= n:
                break
    return behs


def run_pipes(ctx, replay_obj, binary, findings):
    thorough = ctx.tier == "thorough"
    open_devs = sorted(set(f["match"]["dev"] for f in findings) & set(ALL_DEVS))
    by_dev = {f["match"]["dev"]: f for f in findings}
    if replay_obj:
        behs = [replay_obj["behaviour"]]
    else:
        with ThreadPoolExecutor(max_workers=2) as ex:
            fut = ex.submit(generate, ctx, thorough)      # (B) behaviours out of TLC, while (T) runs
            model_check(ctx, thorough)
            behs = fut.result()
        if not behs:
            raise vlib.Infra("TLC produced no behaviours")
    for i, b in enumerate(behs):
        b["id"] = i + 1
    ctx.log("%d pipe behaviours to replay" % len(behs))
    events = ctx.run_shards(binary, behs, shards=8, name="replay-pipes")
    by_id = {b["id"]: b for b in behs}
    ev_by_t = {}
    for e in events:
        ev_by_t.setdefault(e["t"], []).append(e)
    for b in behs:
        evs = ev_by_t.get(b["id"], [])
        if not evs or evs[0]["e"] != "Cfg" or evs[-1]["e"] != "Final":
            raise vlib.Infra("behaviour %d: incomplete trace (%d events)" % (b["id"], len(evs)))

    # binding self-test: a corrupted, a truncated and a forged copy of an accepted trace must not be accepted
    selftest = {}
    if not replay_obj:
        for b in behs:
            evs = ev_by_t[b["id"]]
            cons = [e for e in evs if e["e"] == "Consume" or (e["e"] == "Read" and e.get("ds", "-") != "-")]
            acc = [e for e in evs if e["e"] == "Accept"]
            if b["cfg"]["Medium"] == "unix" and cons and acc and not any(e["e"] == "Read" and e["out"] in ("panic", "exit") for e in evs):
                c1 = [json.loads(json.dumps(e)) for e in evs]
                for e in c1:
                    e["t"] = 900001
                next(e for e in c1 if e["e"] == "Accept")["c"] += 7        # another connection was accepted
                c2 = [dict(e, t=900002) for e in evs]
                k = next(i for i, e in enumerate(c2) if e["e"] == "Accept")
                del c2[k]                                                  # an accept went unrecorded
                c3 = [json.loads(json.dumps(e)) for e in evs]
                for e in c3:
                    e["t"] = 900003
                x = next(e for e in c3 if e["e"] == "Consume" or (e["e"] == "Read" and e.get("ds", "-") != "-"))
                if x["e"] == "Consume":
                    x["s"] = x["p"]                                         # the listener was handed its own update
                else:
                    x["ds"] = x["p"]
                for t, c in ((900001, c1), (900002, c2), (900003, c3)):
                    ev_by_t[t] = c
                    by_id[t] = {"id": t, "cfg": b["cfg"], "hist": [], "selftest": True}
                selftest = {900001: "corrupt-field", 900002: "drop-event", 900003: "echo"}
                break

    groups = {}
    for t, b in by_id.items():
        groups.setdefault(group_of(b), []).append(t)
    jobs = []
    for g, ids in sorted(groups.items()):
        ids.sort()
        per = 1500
        for gi in range(0, len(ids), per):
            jobs.append((g, gi // per, ids[gi:gi + per]))

    def val_group(job):
        g, gi, ids = job
        evs = [e for t in ids for e in ev_by_t.get(t, [])]
        name = "trace-%s-%s-c%d-g%d" % (g[0], "".join(p[0] + p[-1] for p in g[1]), g[3], gi)
        return ctx.validate("UpdatePipeTrace", None, evs, name=name, cfg_text=trace_cfg(g, open_devs), batch=1500)

    verdicts, by_t = {}, {}
    with ThreadPoolExecutor(max_workers=5) as ex:
        for v, bt in ex.map(val_group, jobs):
            verdicts.update(v)
            by_t.update(bt)

    ok = drift = 0
    preds = {}
    for t, recs in sorted(verdicts.items()):
        if t in selftest:
            if t == 900003:
                if not any("Echoed" in r["viol"] for r in recs):
                    raise vlib.Infra("binding self-test failed: an echoed update was not reported")
            elif any(not r["drift"] for r in recs):
                raise vlib.Infra("binding self-test failed: %s trace was accepted" % selftest[t])
            continue
        viol = sorted(set(v for r in recs for v in r["viol"]))
        conf = [r for r in recs if not r["drift"]]
        if viol:
            # an open finding explains the trace only if the as-is design (with that deviation) follows the
            # trace step by step, the deviation's branch was actually taken, and nothing else is violated
            explained = None
            for r in conf:
                used = set(r.get("devs", []))
                allowed = set()
                for d in used:
                    allowed |= DEV_PREDS.get(d, set())
                if used and used <= set(open_devs) and set(r["viol"]) <= allowed:
                    explained = used
                    break
            if explained:
                for d in sorted(explained):
                    f = by_dev[d]
                    ctx.known(f["id"], f["what"])
                    ctx.cov.setdefault("traces_explained_by_finding", {})
                    ctx.cov["traces_explained_by_finding"][f["id"]] = ctx.cov["traces_explained_by_finding"].get(f["id"], 0) + 1
                ok += 1
                continue
            for v in viol:
                preds[v] = preds.get(v, 0) + 1
            pend(ctx, "the update pipe violates " + ",".join(viol),
                 {"property": EXT, "behaviour": by_id[t], "trace": by_t[t], "violated": viol,
                  "how": "bin/check X12 --replay <this file>"})
        elif conf:
            ok += 1
        else:
            drift += 1
            if drift <= 10:
                print("DRIFT property=%s trace=%d first-unexplained-seq=%s" % (EXT, t, recs[0]["driftAt"]))
    if selftest:
        ctx.cov["binding_selftest"] = "corrupted-field and dropped-event traces rejected, echoed update reported"
    ctx.cov["behaviours_validated"] = ok
    ctx.cov["drift_traces"] = drift
    ctx.cov["evaluations"] = len(behs)
    ctx.cov["distinct_nontrivial"] = sum(1 for b in behs if nontrivial(b))
    ctx.cov["violated_predicates"] = preds
    ctx.cov["events"] = len(events)
    ctx.cov["behaviours_by_plan"] = {}
    for b in behs:
        ctx.cov["behaviours_by_plan"][b.get("plan", "replay")] = ctx.cov["behaviours_by_plan"].get(b.get("plan", "replay"), 0) + 1
    for b in behs[:2]:
        ctx.cov["samples"].append({"behaviour": b, "trace": by_t.get(b["id"], [])[:24]})
    return ok


# ---- pattern B: the wire format --------------------------------------------------------------------

SER_CFG = "SPECIFICATION %s\nCONSTANTS\n  Paths = %s\n  Gen = %s\n%s"


def run_rows(ctx, replay_obj, binary):
    if replay_obj:
        rows = [replay_obj["row"]]
        rows[0]["id"] = 1
    else:
        r = ctx.tlc_expect_ok("UpdatePipeSer", None, name="rows", workers=2, timeout=600, heap="1g",
                              cfg_text=SER_CFG % ("Spec", tla_set(["wire", "unix", "pubsub"]), "TRUE",
                                                  "INVARIANTS RuleSatisfiesProp\nCONSTRAINT Emit\nCHECK_DEADLOCK FALSE\n"))
        rows = vtable.rows_from(r)
        if len(rows) != r["distinct"]:
            raise vlib.Infra("TLC printed %d distinct rows for %d states" % (len(rows), r["distinct"]))
        ctx.cov["row_states"] = r["distinct"]
        ctx.log("TLC: %d wire-format rows; the rule satisfies the predicates on all, %.1fs" % (r["distinct"], r["wall"]))
    by_id = {row["id"]: row for row in rows}
    items = [{"id": row["id"], "in": row["in"]} for row in rows]
    events = ctx.run_shards(binary, items, test="TestRows", name="rows-replay", shards=4)
    events = [e for e in events if e["e"] == "Row"]
    if len(events) != len(rows):
        raise vlib.Infra("harness answered %d of %d rows" % (len(events), len(rows)))
    ev_by_t = {e["t"]: e for e in events}
    selftest = {}
    if not replay_obj:
        base_ev = next((e for e in events if e["in"]["key"] == "s:semi" and not e["out"]["err"]), None)
        if base_ev is not None:
            f = json.loads(json.dumps(base_ev))
            f["t"] = 900001
            f["out"]["key"] = "s:plain"
            g = json.loads(json.dumps(base_ev))
            g["t"] = 900002
            g["out"]["lines"] = 2
            events = events + [f, g]
            selftest = {900001: "another key came out", 900002: "two lines on the wire"}
    tcfg = SER_CFG % ("TSpec", tla_set([]), "FALSE", "CHECK_DEADLOCK FALSE\nPOSTCONDITION Post\n")
    verdicts, accepted = vtable.validate_rows(ctx, "UpdatePipeSerTrace", tcfg, events, name="rows-trace", batch=20000, par=2)
    for t, what in selftest.items():
        v = verdicts.get(t)
        if not v or not v["viol"]:
            raise vlib.Infra("binding self-test failed: forged row (%s) was accepted" % what)
        del verdicts[t]
    drift = 0
    for t, v in sorted(verdicts.items()):
        row, ev = by_id[t], ev_by_t[t]
        if v["viol"]:
            what = "wire format row answers against %s: in=%s out=%s" % (
                ",".join(sorted(v["viol"])), json.dumps(row["in"], sort_keys=True), json.dumps(ev["out"], sort_keys=True))
            pend(ctx, what, {"property": EXT, "row": row, "out": ev["out"], "violated": sorted(v["viol"]),
                             "how": "bin/check X12 --replay <this file>"})
        else:
            drift += 1
            if drift <= 10:
                print("DRIFT property=%s row=%d in=%s out=%s" % (EXT, t, json.dumps(row["in"], sort_keys=True),
                                                                  json.dumps(ev["out"], sort_keys=True)))
    ctx.cov["rows_run_through_real_code"] = len(rows)
    ctx.cov["rows_accepted"] = accepted
    ctx.cov["rows_drift"] = drift
    if selftest:
        ctx.cov["rows_binding_selftest"] = "forged rows rejected: " + "; ".join(selftest.values())
    if rows:
        row = rows[len(rows) // 2]
        ctx.cov["samples"].append({"row": row, "out": ev_by_t[row["id"]]["out"]})
    return accepted


# ---- Future ----------------------------------------------------------------------------------------

FUT_CFG = ("SPECIFICATION %(spec)s\nCONSTANTS\n  Getters = %(g)s\n  CtxGetters = %(cg)s\n  Setters = %(s)s\n"
           "  MaxCancel = %(mc)d\n  Devs = %(devs)s\n  Gen = %(gen)s\n%(tail)s")
FUT_MC_TAIL = "VIEW View\nINVARIANTS NoViolation TypeOK NotifiedImpliesSet\nCHECK_DEADLOCK FALSE\n"
FUT_DEVS = {"LostWakeup": "GetHangs", "LastSetWins": "LaterSetOverwrote"}


def fut_cfg(getters=("g1", "g2", "g3"), ctxg=("g1", "g2"), setters=("t1", "t2"), maxcancel=2, devs=(), gen=False,
            tail=FUT_MC_TAIL, spec="Spec"):
    return FUT_CFG % dict(spec=spec, g=tla_set(getters), cg=tla_set(ctxg), s=tla_set(setters), mc=maxcancel,
                          devs=tla_set(devs), gen="TRUE" if gen else "FALSE", tail=tail)


def fut_group(b):
    c = b["cfg"]
    return (tuple(sorted(c["Getters"])), tuple(sorted(c["CtxGetters"])), tuple(sorted(c["Setters"])))


def run_future(ctx, replay_obj, binary):
    thorough = ctx.tier == "thorough"
    if replay_obj:
        behs = [replay_obj["future"]]
    else:
        big = dict(getters=("g1", "g2", "g3"), ctxg=("g1", "g2"), setters=("t1", "t2"), maxcancel=2)
        r = ctx.tlc_expect_ok("Future", None, name="fut-mc", workers=2, timeout=900, heap="1g", cfg_text=fut_cfg(**big))
        ctx.cov["future_states"] = r["distinct"]
        ctx.cov["future_transitions"] = r["generated"]
        ctx.log("TLC exhaustive (Future): %d distinct states, %d transitions, depth %d" % (r["distinct"], r["generated"], r["depth"]))
        for dev, pred in sorted(FUT_DEVS.items()):
            ra = ctx.tlc("Future", None, name="fut-asis-" + dev, workers=1, timeout=300, heap="1g",
                         cfg_text=fut_cfg(devs=[dev], tail="VIEW View\nINVARIANTS NoViolation\nCHECK_DEADLOCK FALSE\n"))
            if ra["invariant"] != "NoViolation":
                raise vlib.Infra("mutated Future design (%s) does not violate NoViolation: the invariant is vacuous" % dev)
        small = dict(getters=("g1",), ctxg=("g1",), setters=("t1", "t2"), maxcancel=1)
        g1 = ctx.tlc("Future", None, name="fut-sweep", workers=1, timeout=900, heap="2g",
                     cfg_text=fut_cfg(gen=True, tail=GEN_TAIL, **small))
        g2 = ctx.tlc("Future", None, name="fut-sim", workers=1, timeout=900, simulate=3000 if thorough else 250, depth=60,
                     heap="1g", cfg_text=fut_cfg(gen=True, tail=GEN_TAIL, **big))
        gs = [g1, g2]
        if thorough:
            gs.append(ctx.tlc("Future", None, name="fut-sweep2", workers=1, timeout=900, heap="2g",
                              cfg_text=fut_cfg(gen=True, tail=GEN_TAIL, getters=("g1", "g2"), ctxg=("g1",), setters=("t1",),
                                               maxcancel=1)))
        for g in gs:
            if not g["ok"]:
                raise vlib.Infra("Future behaviour generation failed: %s %s" % (g["invariant"], g["error"]))
        sweep = behaviours_from(g1) + (behaviours_from(gs[2]) if thorough else [])
        sim = behaviours_from(g2)
        ctx.cov.setdefault("generated", {})["future-sweep"] = len(sweep)
        ctx.cov["generated"]["future-sim"] = len(sim)
        sweep.sort(key=lambda b: json.dumps(b, sort_keys=True))
        random.Random(ctx.seed + 1000).shuffle(sweep)
        if not thorough:
            sweep = sweep[:250]
        behs, seen = [], set()
        for b in sweep + sim:
            b.pop("viol", None)
            k = json.dumps(b, sort_keys=True)
            if k not in seen:
                seen.add(k)
                behs.append(b)
    for i, b in enumerate(behs):
        b["id"] = i + 1
    events = ctx.run_shards(binary, behs, test="TestFuture", name="replay-future", shards=4)
    by_id = {b["id"]: b for b in behs}
    groups = {}
    for b in behs:
        groups.setdefault(fut_group(b), []).append(b["id"])
    ev_by_t = {}
    for e in events:
        ev_by_t.setdefault(e["t"], []).append(e)
    selftest = {}
    if not replay_obj:
        for b in behs:
            evs = ev_by_t.get(b["id"], [])
            rets = [e for e in evs if e["e"] == "Step" and e["g"].startswith("g") and e["res"][e["g"]] > 0]
            if rets:
                c = [json.loads(json.dumps(e)) for e in evs]
                for e in c:
                    e["t"] = 900001
                hit = False
                for e in c:
                    if e["e"] in ("Step", "Cancel") and (hit or (e["g"].startswith("g") and e["res"][e["g"]] > 0)):
                        if not hit:
                            who = e["g"]
                        hit = True
                        e["res"][who] = 7                                   # a value nobody set came out
                ev_by_t[900001] = c
                groups[fut_group(b)].append(900001)
                selftest = {900001: "forged value"}
                break
    verdicts, by_t = {}, {}
    for gi, (g, ids) in enumerate(sorted(groups.items())):
        evs = [e for t in sorted(ids) for e in ev_by_t.get(t, [])]
        v, bt = ctx.validate("FutureTrace", None, evs, name="fut-trace-%d" % gi, batch=3000,
                             cfg_text=fut_cfg(getters=g[0], ctxg=g[1], setters=g[2], maxcancel=1000, spec="TSpec",
                                              tail="CHECK_DEADLOCK FALSE\nPOSTCONDITION Post\n"))
        verdicts.update(v)
        by_t.update(bt)
    ok = drift = 0
    for t, recs in sorted(verdicts.items()):
        if t in selftest:
            if not any("ValueFromNowhere" in r["viol"] for r in recs):
                raise vlib.Infra("binding self-test failed: a forged Get result was not reported")
            continue
        viol = sorted(set(v for r in recs for v in r["viol"]))
        if viol:
            pend(ctx, "framework/future.Future violates " + ",".join(viol),
                 {"property": EXT, "future": by_id[t], "trace": by_t[t], "violated": viol,
                  "how": "bin/check X12 --replay <this file>"})
        elif any(not r["drift"] for r in recs):
            ok += 1
        else:
            drift += 1
            if drift <= 10:
                print("DRIFT property=%s future-trace=%d first-unexplained-seq=%s" % (EXT, t, recs[0]["driftAt"]))
    ctx.cov["future_behaviours_validated"] = ok
    ctx.cov["future_drift_traces"] = drift
    if selftest:
        ctx.cov["future_binding_selftest"] = "a forged Get result was reported as ValueFromNowhere"
    if behs:
        b = behs[len(behs) // 2]
        ctx.cov["samples"].append({"future": b, "trace": by_t.get(b["id"], [])[:16]})
    return ok


# ---- driver ----------------------------------------------------------------------------------------

def run(ctx, replay):
    try:
        run_inner(ctx, replay)
    except vlib.Infra:
        raise
    except Exception as e:       # anything unexpected in the driver says nothing about maddy
        import traceback
        raise vlib.Infra("driver error: %s\n%s" % (e, traceback.format_exc()[-1500:]))


def run_inner(ctx, replay):
    findings = open_findings()
    binary = ctx.build_harness("updatepipecheck", overlay=full_overlay(ctx))
    if replay:
        obj = json.load(open(replay))
        if "row" in obj:
            run_rows(ctx, obj, binary)
        elif "future" in obj:
            run_future(ctx, obj, binary)
        elif obj.get("behaviour"):
            run_pipes(ctx, obj, binary, findings)
        else:
            raise vlib.Infra("replay file holds neither a row, a Future schedule nor a behaviour")
        announce(ctx)
        return
    with ThreadPoolExecutor(max_workers=2) as ex:
        fut = ex.submit(lambda: (run_rows(ctx, None, binary), run_future(ctx, None, binary)))
        ok = run_pipes(ctx, None, binary, findings)
        rows_ok, fut_ok = fut.result()
    ctx.cov["traces_validated_against_impl"] = ok + rows_ok + fut_ok
    ctx.cov["rule"] = ("behaviours = complete behaviours of UpdatePipe.tla printed by TLC: -simulate under eight "
                       "bound/medium plans (design and as-is), breadth-first sweeps of two tiny configurations and the "
                       "as-is design's behaviours up to the first violated predicate for each named deviation; sampled "
                       "in quick; de-duplicated; non-trivial = a Close, a death or a line that is no update arrives "
                       "after a push while a pipe goroutine still has something to do. rows = every state of "
                       "UpdatePipeSer.tla. Future schedules = every complete behaviour of Future.tla with two getters "
                       "(sampled in quick) plus -simulate with three")
    ctx.cov["exhaustive"] = False
    ctx.assumptions += [
        "the medium is the in-memory socket directory harness/updatepipecheck/unet (bind / connect / unlink / close / "
        "process death as the kernel does them for Unix stream sockets, unbounded socket buffers, one line per read) "
        "and a scripted broker with the semantics of PostgreSQL LISTEN/NOTIFY (no payload limit); real sockets and "
        "PostgreSQL are not used",
        "the calls of interface P on one pipe object are made one after the other (internal/storage/imapsql does); "
        "only the pipes' own goroutines, the other processes, the consumer and the environment are concurrent",
        "all pipe objects live in one operating system process: sender ids differ by the object's address only",
        "a panic in a pipe goroutine is caught by the overlay (in maddy it ends the process) and the modelled "
        "process is killed instead",
        "Future: critical sections are atomic (nobody is preempted holding the mutex); scheduling points are the "
        "ones harness/cmd/instrument inserts",
        "TLC 1.8.0 / CommunityModules Json reader, go1.26 testing/synctest",
    ]
    announce(ctx)


def pend(ctx, what, obj):
    if not hasattr(ctx, "x12_pending"):
        ctx.x12_pending = []
    ctx.x12_pending.append((what, obj))


def announce(ctx):
    """report the violations (one artefact per distinct set of violated predicates first: vlib keeps the
    first eight), then the extension findings - as EXT-FINDING, not KNOWN-FINDING"""
    pending = getattr(ctx, "x12_pending", [])
    seen, first, rest = set(), [], []
    for what, obj in pending:
        k = (tuple(obj["violated"]), "row" in obj and obj["row"]["in"]["path"])
        (rest if k in seen else first).append((what, obj))
        seen.add(k)
    for what, obj in first + rest:
        ctx.violation(what, obj)
    ctx.x12_pending = []
    if ctx.known_seen:
        for fid, what in sorted(ctx.known_seen):
            print("EXT-FINDING: ext=%s %s %s" % (EXT, fid, what))
        ctx.cov["ext_findings_seen"] = sorted(k for k, _ in ctx.known_seen)
        ctx.known_seen = []


META = {
    "engine": "updatepipecheck",
    "level": "model_checking",
    "technique": "TLA+ spec UpdatePipe.tla model-checked by TLC; TLC-generated behaviours replayed on real "
                 "UnixSockPipe / PubSubPipe objects (one per modelled process) over an overlay shim for net.Listen / "
                 "net.Dial / os.Remove and the go statements (in-memory socket directory in a testing/synctest bubble, "
                 "pipe goroutines parked before every accept and every line; scripted LISTEN/NOTIFY broker); recorded "
                 "traces validated against UpdatePipeTrace.tla (predicates in UpdatePipeObs.tla); pattern B rows of "
                 "UpdatePipeSer.tla through formatUpdate/parseUpdate and both pipes, evaluated by UpdatePipeSerTrace.tla; "
                 "Future.tla model-checked, TLC-generated schedules run on the instrumented real Future under "
                 "harness/vsched, traces validated against FutureTrace.tla",
    "statement": "For any number of processes sharing one IMAP update pipe - a running server that listens and pushes, "
                 "`maddy` commands that only push, replicated nodes over a publish/subscribe broker - and any "
                 "interleaving of their Listen / InitPush / Push / Close calls with the pipes' own goroutines, the "
                 "consumer of the updates, a process dying without Close, and foreign or truncated lines arriving on "
                 "the medium: every update whose Push returned nil is handed to the channel of every other process that "
                 "is listening (and, over the broker, subscribed to the update's key) and stays so, exactly once, in "
                 "the order its sender pushed it, never to its sender, and nothing is handed out that nobody pushed; a "
                 "line that is no update or that is very long neither ends the listening process nor stops later "
                 "updates; no call of the pipe blocks forever or panics (Close twice included), after every pipe has "
                 "been closed no goroutine of a pipe is left; the socket path is bound by at most one listener, exists "
                 "while that listener lives, is removed by its Close and by nobody else's, and (from the code) a socket "
                 "file left behind by a process that died does not keep the next one from listening; a dial fails only "
                 "when nobody listens. The wire format hands back every update as pushed - type, key (a number stays "
                 "that number, a string that string: separators, spaces, non-ASCII, line breaks, quotes, the escape "
                 "byte, empty), SeqSet, flags - as exactly one line. For framework/future.Future: every Get / GetContext "
                 "that returns a value returns the value of a Set that was called, all of them the same one, (from the "
                 "code) never that of a Set called after another Set returned; GetContext returns the context's error "
                 "only when its context was cancelled; once a Set has returned or its context is cancelled no Get stays "
                 "blocked, Set never blocks, nothing panics.",
    "text": "TLC visits every interleaving of the calls of interface P of two or three processes with the steps of the "
            "pipes' goroutines at the medium, the consumer, a death, a foreign line and the subscriptions inside the "
            "bound (five small configurations in quick, six larger ones in thorough) and checks the X12 predicates in "
            "every state; each as-is deviation must violate them. The same predicates are evaluated by TLC over traces "
            "recorded from the real pipes driven with TLC-generated behaviours. The wire format is a decision table "
            "(4,284 rows, all run in both tiers). Future.tla is checked exhaustively and bound to the real Future "
            "through yield-point schedules.",
    "note": "The medium is an in-memory model of Unix stream sockets / of LISTEN-NOTIFY inside a synctest bubble "
            "(harness/updatepipecheck/unet); real sockets and PostgreSQL are not used; socket buffers are unbounded (a "
            "Push blocked on a full buffer is not modelled); trusted: TLC, the harness, the Go toolchain.",
    "design_ref": "extensions/X12.md",
}
