"""X17 - PROXY protocol: the source address of a session is the announced one exactly when the
connecting peer is trusted.

(T) TLC enumerates every row of ProxyProto.tla (listener configuration x connecting peer x what the
    peer sends first x how the bytes are cut into writes), runs the rule as the steps of the code
    (Accept/source check, ParseText / ParseBinary / ParseStub, Serve) and checks the declarative
    clauses of the property on every row; with each named deviation of HEAD switched on the same
    invariant must produce a counterexample and the deviation may break only the clauses listed
    for it.
(B) every row (a seeded sample in quick) is run through the real code: maddy's configuration parser,
    proxy_protocol.ProxyProtocolDirective and NewListener over an in-memory listener whose peers
    report arbitrary TCP / UNIX addresses, the connection used as go-smtp / go-imap use it; and the
    real SMTP / IMAP endpoints (Init -> setConfig -> setupListeners) on loopback sockets, where the
    address is the one a check module (SMTP) / the authentication provider (IMAP) is handed.
    ProxyProtoTrace.tla evaluates the clauses on what the code did.
"""
import json
import os

import vlib
import vtable

EXT = "X17"
ALL_LAYERS = ["raw", "smtp", "smtps"]
ALL_DEVS = ["V1ShortPanics", "V2ShortRead", "V6SingleAs32"]

CFG = """SPECIFICATION %(spec)s
CONSTANTS
  Devs = %(devs)s
  Gen = %(gen)s
  Layers = %(layers)s
  MaxTrust = %(maxtrust)d
%(tail)s
"""


def tla_set(xs):
    return "{" + ", ".join('"%s"' % x for x in xs) + "}"


def cfg(spec="Spec", devs=(), gen=False, layers=ALL_LAYERS, maxtrust=2, tail=""):
    return CFG % dict(spec=spec, devs=tla_set(devs), gen="TRUE" if gen else "FALSE",
                      layers=tla_set(layers), maxtrust=maxtrust, tail=tail)


def open_findings():
    p = os.path.join(vlib.VERIF, "extensions", "findings.json")
    if not os.path.exists(p):
        return []
    if os.environ.get("VERIF_X17_ASSUME_FIXED"):
        return []      # judge the tree as if every finding had been repaired (nothing is suppressed)
    try:
        data = json.load(open(p))
    except Exception as e:
        raise vlib.Infra("extensions/findings.json is not readable: %s" % e)
    return [f for f in data.get("findings", [])
            if f.get("ext") == EXT and f.get("status", "open") == "open"]


def pend(ctx, what, obj):
    if not hasattr(ctx, "x17_pending"):
        ctx.x17_pending = []
    ctx.x17_pending.append((what, obj))


def announce(ctx):
    pending = getattr(ctx, "x17_pending", [])
    seen, first, rest = set(), [], []
    for what, obj in pending:
        k = (tuple(obj["violated"]), obj["row"]["in"]["layer"])
        (rest if k in seen else first).append((what, obj))
        seen.add(k)
    for what, obj in first + rest:
        ctx.violation(what, obj)
    ctx.x17_pending = []
    if ctx.known_seen:
        for fid, what in sorted(ctx.known_seen):
            print("EXT-FINDING: ext=%s %s %s" % (EXT, fid, what))
        ctx.cov["ext_findings_seen"] = sorted(k for k, _ in ctx.known_seen)
        ctx.known_seen = []


def model(ctx):
    """exhaustive TLC runs; returns the rows"""
    thorough = ctx.tier == "thorough"
    r = ctx.tlc_expect_ok("ProxyProto", None, name="rows", workers=4, timeout=900, coverage=thorough,
                          cfg_text=cfg(gen=True, tail="INVARIANTS RuleSatisfiesProp StepsAgree\nCONSTRAINT Emit\n"
                                                      "CHECK_DEADLOCK FALSE"))
    rows = vtable.rows_from(r)
    ctx.cov["states"] = r["distinct"]
    ctx.cov["transitions"] = r["generated"]
    ctx.cov["row_states"] = len(rows)
    if not rows:
        raise vlib.Infra("TLC printed no rows (see %s/tlc.out)" % r["dir"])
    ctx.log("TLC: %d rows, %d states; the rule satisfies every clause on all of them, %.1fs" % (
        len(rows), r["distinct"], r["wall"]))
    if thorough:
        import re
        zero = [m.group(1) for m in re.finditer(r"<(\w+) line \d+, col \d+ to line \d+, col \d+ of module ProxyProto>: 0:0",
                                                r["out"])]
        ctx.cov["vacuous_actions"] = zero
        if zero:
            raise vlib.Infra("actions that never fire in the exhaustive configuration: %s" % zero)
    for dev in ALL_DEVS:
        ra = ctx.tlc("ProxyProto", None, name="asis-" + dev, workers=2, timeout=600,
                     cfg_text=cfg(devs=[dev], tail="INVARIANTS AsIsSatisfiesProp\nCHECK_DEADLOCK FALSE"))
        if ra["invariant"] != "AsIsSatisfiesProp":
            raise vlib.Infra("as-is model (%s) does not violate the property: clauses vacuous? (%s)" % (dev, ra["error"]))
        ctx.tlc_expect_ok("ProxyProto", None, name="asis-expl-" + dev, workers=2, timeout=600,
                          cfg_text=cfg(devs=[dev], tail="INVARIANTS DevExplains StepsAgree\nCHECK_DEADLOCK FALSE"))
    ctx.cov["asis_counterexamples"] = ALL_DEVS
    return rows


def pick(ctx, rows):
    if ctx.tier == "thorough":
        return rows
    sock = [r for r in rows if r["in"]["layer"] != "raw"]
    raw = [r for r in rows if r["in"]["layer"] == "raw"]

    def must(r):      # one configuration of each shape with every peer / header / cut
        i = r["in"]
        return (i["mode"] == "none" and i["peer"] in ("p4a", "unix")) or \
            (i["form"] == "args" and not i["tls"] and i["trust"] in ([], ["e4s"], ["e6s"]) and i["peer"] in ("p4a", "p6c"))
    keep = [r for r in raw if must(r)]
    rest = [r for r in raw if not must(r)]
    ctx.rng.shuffle(rest)
    ctx.rng.shuffle(sock)
    out = keep + rest[:2600] + sock[:90]
    out.sort(key=lambda r: r["id"])
    return out


def run_rows(ctx, replay_obj, binary, findings):
    by_dev = {f["match"]["deviation"]: f for f in findings}
    if replay_obj:
        rows = [replay_obj["row"]]
        rows[0]["id"] = 1
    else:
        rows = pick(ctx, model(ctx))
    by_id = {row["id"]: row for row in rows}
    items = [{"id": row["id"], "in": row["in"]} for row in rows]
    raw_items = [it for it in items if it["in"]["layer"] == "raw"]
    sock_items = [it for it in items if it["in"]["layer"] != "raw"]
    events = []
    if raw_items:
        events += ctx.run_shards(binary, raw_items, name="rows-replay", shards=4, timeout=900)
    if sock_items:
        events += ctx.run_shards(binary, sock_items, name="sock-replay", shards=2, timeout=900)
    events = [e for e in events if e["e"] == "Row"]
    if len(events) != len(rows):
        raise vlib.Infra("harness answered %d of %d rows" % (len(events), len(rows)))
    for e in events:
        if e["out"].get("timeout"):
            raise vlib.Infra("harness could not run row %s: %s" % (json.dumps(e["in"]), e["out"].get("msg")))
    ev_by_t = {e["t"]: e for e in events}

    selftest = {}
    if not replay_obj:
        def forge(t, pred, chg):
            for e in events:
                if pred(by_id[e["t"]], e):
                    f = json.loads(json.dumps(e))
                    f["t"] = t
                    chg(f["out"])
                    return f
            return None

        def set_ann(o):
            o["addr"] = "ann"

        def set_other(o):
            o["stream"] = "other"
        forged = {
            900001: (forge(900001, lambda row, e: not row["trusted"] and row["in"]["hdr"] == "v1tcp4"
                           and e["out"]["addr"] == "real" and e["out"]["served"], set_ann),
                     "an untrusted peer's announced address recorded as the session's"),
            900002: (forge(900002, lambda row, e: row["trusted"] and row["in"]["hdr"] == "v2tcp4" and e["out"]["served"]
                           and e["out"]["stream"] == "payload", set_other),
                     "payload recorded as damaged"),
        }
        selftest = {t: what for t, (f, what) in forged.items() if f is not None}
        events = events + [f for f, _ in forged.values() if f is not None]
    tcfg = cfg(spec="TSpec", layers=[], tail="  OpenDevs = %s\nCHECK_DEADLOCK FALSE\nPOSTCONDITION Post" % tla_set(sorted(by_dev)))
    verdicts, accepted = vtable.validate_rows(ctx, "ProxyProtoTrace", tcfg, events, name="rows-trace", batch=8000, par=3)
    for t, what in selftest.items():
        v = verdicts.get(t)
        if not v or not v["viol"] or v["devs"]:
            raise vlib.Infra("binding self-test failed: forged row (%s) was accepted or explained by a deviation" % what)
        del verdicts[t]
    drift = 0
    known_rows = {}
    for t, v in sorted(verdicts.items()):
        row, ev = by_id[t], ev_by_t[t]
        devsets = sorted((sorted(d) for d in v["devs"]), key=lambda d: (len(d), d))
        minimal = devsets[0] if devsets else None
        explained = minimal is not None
        if explained and v["viol"]:
            allowed = set()
            for d in minimal:
                allowed |= set(by_dev[d]["match"].get("predicates", []))
            explained = set(v["viol"]) <= allowed
        if v["viol"] and not explained:
            what = "connection answered against %s: in=%s out=%s" % (
                ",".join(sorted(v["viol"])), json.dumps(row["in"], sort_keys=True), json.dumps(ev["out"], sort_keys=True)[:300])
            pend(ctx, what, {"property": EXT, "row": row, "out": ev["out"], "violated": sorted(v["viol"]),
                             "how": "bin/check X17 --replay <this file>"})
        elif explained:
            for d in minimal:
                f = by_dev[d]
                ctx.known(f["id"], f["what"])
                known_rows[f["id"]] = known_rows.get(f["id"], 0) + 1
        else:
            drift += 1
            if drift <= 10:
                print("DRIFT property=%s row=%d in=%s out=%s expected=%s" % (
                    EXT, t, json.dumps(row["in"], sort_keys=True), json.dumps(ev["out"], sort_keys=True),
                    json.dumps(row.get("exp"), sort_keys=True)))
    ctx.cov["rows_run_through_real_code"] = len(rows)
    ctx.cov["rows_accepted"] = accepted - 0
    ctx.cov["rows_drift"] = drift
    ctx.cov["rows_explained_by_finding"] = known_rows
    ctx.cov["rows_by_layer"] = {}
    for row in rows:
        k = row["in"]["layer"]
        ctx.cov["rows_by_layer"][k] = ctx.cov["rows_by_layer"].get(k, 0) + 1
    ctx.cov["evaluations"] = len(rows)
    ctx.cov["distinct_nontrivial"] = sum(1 for row in rows if row["in"]["mode"] == "on" and row["in"]["hdr"] != "none")
    if selftest:
        ctx.cov["rows_binding_selftest"] = "forged rows rejected: " + "; ".join(selftest.values())
    for row in rows[len(rows) // 2: len(rows) // 2 + 3]:
        ctx.cov["samples"].append({"row": row, "out": ev_by_t[row["id"]]["out"]})
    return accepted


def run(ctx, replay):
    try:
        run_inner(ctx, replay)
    except vlib.Infra:
        raise
    except Exception as e:       # anything unexpected in the driver says nothing about maddy
        import traceback
        raise vlib.Infra("driver error: %s\n%s" % (e, traceback.format_exc()[-1500:]))


def run_inner(ctx, replay):
    findings = open_findings()
    binary = ctx.build_harness("proxyprotocheck")
    if replay:
        obj = json.load(open(replay))
        if "row" not in obj:
            raise vlib.Infra("replay file holds no row")
        run_rows(ctx, obj, binary, findings)
        announce(ctx)
        return
    ok = run_rows(ctx, None, binary, findings)
    ctx.cov["traces_validated_against_impl"] = ok
    ctx.cov["rule"] = ("rows = every state of ProxyProto.tla reached at pc = done (configuration x peer x header x cut); "
                       "thorough runs all, quick the rows of one configuration of each shape with every header and "
                       "cut, a seeded sample of 2600 of the rest and 90 socket rows; non-trivial = directive present "
                       "and the peer sends something before the payload")
    ctx.cov["exhaustive"] = ctx.tier == "thorough"
    ctx.assumptions += [
        "layer raw: an in-memory listener (net.Pipe) stands for the TCP / UNIX listener; one Write of the peer is one "
        "Read of the server (a TCP segment boundary)",
        "a panic while reading an accepted connection is recorded by the harness; in maddy the reading goroutine of "
        "go-smtp / go-imap has no recover there (stand-alone reproduction in extensions/findings/X17-F2.md)",
        "socket layers: peers are 127.0.0.1 and 127.0.0.2 on the loopback interface",
        "the TLS client of the harness is limited to TLS 1.2 (no post-handshake messages over an unbuffered pipe)",
        "TLC 1.8.0, CommunityModules Json reader",
    ]
    announce(ctx)


META = {
    "engine": "proxyprotocheck",
    "level": "model_checking",
    "technique": "TLA+ spec ProxyProto.tla (decision table whose rule is the sequence of the code's steps: source "
                 "check, text / binary / stub header parser, delivery to the reader) model-checked by TLC over the "
                 "complete bounded input space; every row run through maddy's real ProxyProtocolDirective + "
                 "NewListener (in-memory peers with arbitrary addresses) and through the real SMTP / IMAP endpoints "
                 "on loopback sockets; the recorded answers evaluated by TLC with ProxyProtoTrace.tla",
    "statement": "For every listener configuration (no proxy_protocol directive, the bare directive, a trust list "
                 "of IPv4 / IPv6 addresses and subnets given as arguments or in the block, with or without a tls "
                 "directive in the block) and every connecting peer (TCP over IPv4 / IPv6 inside or outside the "
                 "list, UNIX socket; PROXY v1 or v2 header announcing an IPv4 / IPv6 source, UNKNOWN / LOCAL / "
                 "UNSPEC, with TLVs, no header, a malformed or truncated header; header and payload in one segment, "
                 "in two, the header cut inside its signature, its fixed part or its address block): the source "
                 "address the rest of the server sees (ConnState.RemoteAddr: rDNS, per-IP limits, SPF / DNSBL, "
                 "Received) is the announced one when the peer is trusted and sent a well-formed header with an "
                 "address, and the real one of the connection in every other case - a peer outside the trust list "
                 "can never set it; a well-formed header of a trusted peer is accepted however TCP cut it; the "
                 "bytes after the header reach the protocol server exactly once, none lost, none of the header left "
                 "in front; no header, however malformed, crashes the server or keeps the listener from serving "
                 "later connections.",
    "text": "TLC visits all 22,528 rows (4 steps each) and checks the clauses UntrustedPeerSetAddress, "
            "AnnouncedAddressNotUsed, AddressFromNowhere, ValidHeaderRefused, PlainConnectionRefused, "
            "StreamCorrupted, MalformedHeaderPanics, ListenerWedged, ConfigurationRefused on the rule; each named "
            "deviation of HEAD must violate them and only the clauses listed for it. The same clauses are "
            "evaluated by TLC on the answers of the real code for every row (sampled in quick).",
    "note": "Peers of the raw layer are in-memory connections reporting chosen addresses; socket layers use "
            "127.0.0.1 / 127.0.0.2; trusted: TLC, the harness, Go toolchain, crypto/tls.",
    "design_ref": "extensions/X17.md",
}
