"""X06 - the SMTP/LMTP client (internal/smtpconn) speaks the protocol in order,
reports each reply under the right command and recipient, and always ends the
connection.

(S) spec/SmtpClient.tla: the client object (smtpconn.C over the go-smtp client)
    at call granularity x the next hop at reply-slot granularity, the targets'
    call language (Connect[LMTP], Mail, Rcpt*, Data|LMTPData, Reset, Noop,
    Close, DirectClose, re-Connect, calls after Close), the stream of unread
    replies; spec/SmtpClientObs.tla: the property predicates over API events
    and wire events.
(T) TLC checks NoViolation exhaustively on bounded configurations (deviations
    off) and must find a counterexample with the deviations of the as-is code on.
(B) TLC-generated behaviours (call sequence + reply kind of every slot) are
    replayed on the real smtpconn.C inside a testing/synctest bubble against a
    scripted next hop over an in-memory connection with TCP error behaviour;
    the recorded API + wire events are validated by TLC against
    spec/SmtpClientTrace.tla (same Obs predicates).  A second slice drives the
    real target.smtp / target.lmtp through the shared scripted.SMTPServer on
    loopback TCP and validates the wire order with the same predicates.
"""
import concurrent.futures
import json
import os

import vlib

PID = "X06"

CFG = """SPECIFICATION %(spec)s
CONSTANTS
  Lmtps = {%(lmtps)s}
  ExtNames = {%(exts)s}
  Certs = {%(certs)s}
  Replies = {%(replies)s}
  AddrKinds = {%(addrs)s}
  OptSets = {%(opts)s}
  TlsModes = {%(tls)s}
  MaxRcpt = %(maxrcpt)d
  MaxTxn = %(maxtxn)d
  MaxConn = %(maxconn)d
  MaxFaults = %(maxfaults)d
  MaxAgain = %(maxagain)d
  FaultAfter = %(faultafter)d
  Devs = {%(devs)s}
  Gen = %(gen)s
%(tail)s
"""

MC_TAIL = "VIEW View\nINVARIANTS NoViolation TypeOK\nCHECK_DEADLOCK FALSE\n"
GEN_TAIL = "CHECK_DEADLOCK FALSE\n"
TRACE_TAIL = "CHECK_DEADLOCK FALSE\nPOSTCONDITION Post\n"

ALL_REPLIES = ("t4", "t4n", "p5", "p5n", "p5m", "p552", "e500", "e502", "okm", "drop", "garb", "lok", "lp5", "extra")
ALL_EXTS = ("none", "utf8", "tls", "all", "rtls")
ALL_OPTS = ("none", "utf8", "rtls", "all", "size")
ALL_ADDRS = ("asc", "idn", "nl")
ALL_DEVS = ("NoPoisonOnIOError", "LmtpHeloFallback", "CloseKeepsClient", "CloseAgainPanics", "HelloNamePlain")
KEEP = {"Cfg", "Call", "Srv", "Ret", "End"}


def q(xs):
    return ", ".join('"%s"' % x for x in xs)


def b(xs):
    return ", ".join("TRUE" if x else "FALSE" for x in xs)


def cfg(spec="Spec", lmtps=(False, True), exts=("none", "all"), certs=("valid",), replies=("t4", "p5", "drop", "lok"),
        addrs=("asc", "idn"), opts=("none", "all"), tls=(False, True), maxrcpt=2, maxtxn=1, maxconn=1, maxfaults=1,
        maxagain=1, faultafter=0, devs=(), gen=False, tail=MC_TAIL):
    return CFG % dict(spec=spec, lmtps=b(lmtps), exts=q(exts), certs=q(certs), replies=q(replies), addrs=q(addrs),
                      opts=q(opts), tls=b(tls), maxrcpt=maxrcpt, maxtxn=maxtxn, maxconn=maxconn, maxfaults=maxfaults,
                      maxagain=maxagain, faultafter=faultafter, devs=q(devs), gen="TRUE" if gen else "FALSE", tail=tail)


def findings():
    p = os.environ.get("VERIF_EXT_FINDINGS") or os.path.join(vlib.VERIF, "extensions", "findings.json")
    if not os.path.exists(p):
        return []
    return [f for f in json.load(open(p)).get("findings", []) if f.get("ext") == PID]


def open_findings():
    return [f for f in findings() if f.get("status", "open") == "open"]


def devs_of(f):
    m = f.get("match", {})
    return list(m.get("deviations", [])) + ([m["deviation"]] if m.get("deviation") else [])


def behaviours_from(r):
    return [{"cfg": v["cfg"], "steps": v["steps"]} for tag, v in r["printed"] if tag == "BEH"]


def dedup(behs):
    seen, out = set(), []
    for x in behs:
        key = json.dumps([x["cfg"], x["steps"]], sort_keys=True)
        if key not in seen:
            seen.add(key)
            out.append(x)
    for i, x in enumerate(out):
        x["id"] = i + 1
    return out


def shape(x):
    """Coarse shape of a behaviour (stratified sampling): calls and non-ok reply kinds per call."""
    return json.dumps([x["cfg"]["lmtp"], x["cfg"]["extn"],
                       [[s["c"], s["a"]["ak"], s["a"]["tls"], s["a"]["body"], [r for r in s["rs"] if r != "ok"]]
                        for s in x["steps"]]])


def nontrivial(x):
    return any(r != "ok" for s in x["steps"] for r in s["rs"]) or \
        any(s["a"]["dial"] == "fail" or s["a"]["body"] == "fail" for s in x["steps"])

TCFG = """SPECIFICATION Spec
CONSTANTS
  Kinds = {"smtp", "lmtp", "remote"}
  MaxRcpt = %(maxrcpt)d
  RcptReplies = {"ok", "t4", "p5"}
  DataReplies = {"ok", "t4", "p5"}
  Devs = {%(devs)s}
%(tail)s
CHECK_DEADLOCK FALSE
"""
TARGET_DEVS = ("DataNoRcpt",)


def run_targets(ctx, binary, known, thorough, robj):
    """Second slice: rows of SmtpClientTargets.tla on the real target.smtp / target.lmtp / target.remote."""
    open_devs = sorted({d for f in known for d in devs_of(f) if d in TARGET_DEVS})
    maxrcpt = 3 if thorough else 2
    if robj:
        rows = [robj["behaviour"]]
        rows[0]["id"] = 1
    else:
        r = ctx.tlc("SmtpClientTargets", None, name="tg-rule", workers=1, timeout=900,
                    cfg_text=TCFG % dict(maxrcpt=maxrcpt, devs="", tail="INVARIANT RuleOK"))
        if not r["ok"]:
            raise vlib.Infra("SmtpClientTargets: the documented call order violates RuleOK: %s %s" % (r["invariant"], r["error"]))
        ctx.cov["states"] = ctx.cov.get("states", 0) + r["distinct"]
        ctx.cov["transitions"] = ctx.cov.get("transitions", 0) + r["generated"]
        ra = ctx.tlc("SmtpClientTargets", None, name="tg-asis", workers=1, timeout=900,
                     cfg_text=TCFG % dict(maxrcpt=maxrcpt, devs=q(TARGET_DEVS), tail="INVARIANT RuleOK"))
        if ra["invariant"] != "RuleOK":
            raise vlib.Infra("SmtpClientTargets as-is (DataNoRcpt) no longer violates RuleOK (%s %s)" % (ra["invariant"], ra["error"]))
        g = ctx.tlc("SmtpClientTargets", None, name="tg-rows", workers=1, timeout=900,
                    cfg_text=TCFG % dict(maxrcpt=maxrcpt, devs=q(open_devs), tail=""))
        if not g["ok"]:
            raise vlib.Infra("SmtpClientTargets row generation failed: %s %s" % (g["invariant"], g["error"]))
        rows = [{"row": v["row"], "data1": v["data1"], "data2": v["data2"]} for tag, v in g["printed"] if tag == "ROW"]
        for i, x in enumerate(rows):
            x["id"] = i + 1
        if not rows:
            raise vlib.Infra("TLC produced no target rows")
    ctx.log("%d delivery-target rows to replay" % len(rows))
    events = ctx.run_shards(binary, rows, test="TestReplayTargets", shards=min(vlib.NCPU, 4), name="replay-targets")
    verdicts, by_t = ctx.validate("SmtpClientTargetsTrace", None, events, keep={"Cfg", "Srv", "End"}, name="SmtpClientTargetsTrace",
                                  cfg_text="SPECIFICATION TSpec\nCHECK_DEADLOCK FALSE\nPOSTCONDITION Post\n", batch=3000)
    by_id = {x["id"]: x for x in rows}
    ok = drift = 0
    seen = {}
    preds = {}
    for t, recs in sorted(verdicts.items()):
        r0 = recs[0]
        viol = set(r0["viol"])
        row = by_id[t]["row"]
        explained = set()
        if viol and not r0["drift"]:
            for f in known:
                m = f.get("match", {})
                if set(devs_of(f)) & set(open_devs) and m.get("kind") == row["kind"] and viol <= set(m.get("predicates", [])):
                    hops = {rc["hop"] for rc in row["rcpts"]}
                    starved = [h for h in hops if not any(rc["hop"] == h and rc["r"] == "ok" for rc in row["rcpts"])]
                    if starved and row["commit"] and any(rc["r"] == "ok" for rc in row["rcpts"]):
                        explained = viol
                        seen[f["id"]] = f["what"]
        rest = viol - explained
        if rest:
            for p in sorted(rest):
                preds[p] = preds.get(p, 0) + 1
            ctx.violation("delivery target %s violates %s on the wire" % (row["kind"], ",".join(sorted(rest))),
                          {"property": PID, "behaviour": by_id[t], "trace": by_t[t], "violated": sorted(rest),
                           "how": "bin/check X06 --replay <this file>"})
        elif r0["drift"]:
            drift += 1
            print("DRIFT property=%s target-row=%d DATA reached another set of next hops than the call order predicts" % (PID, t))
        else:
            ok += 1
    ctx.cov["target_rows"] = len(rows)
    ctx.cov["target_rows_accepted"] = ok
    if rows:
        ctx.cov["samples"].append({"target_row": rows[len(rows) // 2], "trace": by_t.get(rows[len(rows) // 2]["id"], [])[:30]})
    return ok, drift, seen, preds


def run_client(ctx, binary, known, thorough, robj, skip_mc):
    """First slice: the client object itself (SmtpClient.tla) on the real smtpconn.C in a synctest bubble."""
    open_devs = sorted({d for f in known for d in devs_of(f) if d in ALL_DEVS})

    if not robj and not skip_mc:
        if thorough:
            runs = [("mc-f2", cfg(exts=("none", "all"), replies=("t4", "p5", "drop", "lok", "lp5", "e500"), maxfaults=2,
                                  maxtxn=2, maxconn=2)),
                    ("mc-kinds", cfg(exts=ALL_EXTS, replies=ALL_REPLIES, addrs=ALL_ADDRS, opts=ALL_OPTS, certs=("valid", "bad"),
                                     maxfaults=1, maxtxn=2, maxconn=2))]
        else:
            runs = [("mc-f1", cfg(exts=("none", "all"), replies=("t4", "p5", "drop", "lok", "lp5", "e500", "extra"), maxfaults=1,
                                  maxtxn=2, maxconn=2)),
                    ("mc-kinds", cfg(lmtps=(False,), exts=("utf8", "tls"), replies=("t4n", "p5m", "p552", "garb", "okm", "e502"),
                                     addrs=ALL_ADDRS, opts=("utf8", "rtls", "size"), certs=("valid", "bad"), maxfaults=1))]
        states = trans = depth = 0
        with concurrent.futures.ThreadPoolExecutor(max_workers=len(runs)) as ex:
            futs = {name: ex.submit(ctx.tlc, "SmtpClient", None, name=name, workers=6, timeout=3000, cfg_text=text, heap="6g")
                    for name, text in runs}
            res = {name: f.result() for name, f in futs.items()}
        for name, _ in runs:
            r = res[name]
            if not r["ok"]:
                raise vlib.Infra("TLC did not accept SmtpClient/%s: invariant=%s error=%s (see %s/tlc.out)" % (
                    name, r["invariant"], r["error"], r["dir"]))
            states += r["distinct"]
            trans += r["generated"]
            depth = max(depth, r["depth"])
            ctx.log("TLC exhaustive %s: %d distinct states, %d generated, depth %d, %.1fs" % (
                name, r["distinct"], r["generated"], r["depth"], r["wall"]))
        ctx.cov["states"] = states
        ctx.cov["transitions"] = trans
        ctx.cov["model_depth"] = depth
        ra = ctx.tlc("SmtpClient", None, name="asis", workers=4, timeout=900, heap="3g",
                     cfg_text=cfg(replies=("t4", "p5", "drop", "lok", "lp5", "e500"), devs=ALL_DEVS,
                                  tail="VIEW View\nINVARIANTS NoViolation\nCHECK_DEADLOCK FALSE\n"))
        if ra["invariant"] != "NoViolation":
            raise vlib.Infra("as-is model (all deviations on) no longer violates NoViolation: the invariant is vacuous "
                             "(%s %s)" % (ra["invariant"], ra["error"]))
        ctx.cov["asis_counterexample_found"] = True

    # ---- behaviours ------------------------------------------------------------------
    if robj:
        behs = [robj["behaviour"]]
        behs[0]["id"] = 1
    else:
        gdevs = ALL_DEVS      # the as-is model generates the call sequences / reply scripts (a superset of the design's)
        focus = [
            ("gen-smtp", cfg(lmtps=(False,), exts=("all",), replies=("t4", "p5", "drop", "lok", "lp5"), addrs=("asc",),
                             opts=("none",), tls=(False,), maxfaults=1, maxtxn=2, maxconn=1, devs=gdevs, gen=True, tail=GEN_TAIL)),
            ("gen-lmtp", cfg(lmtps=(True,), exts=("none",), replies=("t4", "p5", "drop", "lok", "e500", "extra"), addrs=("asc",),
                             opts=("none",), tls=(False,), maxfaults=1, devs=gdevs, gen=True, tail=GEN_TAIL)),
            ("gen-tls", cfg(lmtps=(False,), exts=("tls", "all", "none"), certs=("valid", "bad"), replies=("t4", "drop", "e500"),
                            addrs=("asc",), opts=("none",), tls=(True,), maxrcpt=1, maxfaults=1, maxconn=2, devs=gdevs,
                            gen=True, tail=GEN_TAIL)),
            ("gen-opts", cfg(lmtps=(False,), exts=ALL_EXTS, replies=("p552",), addrs=ALL_ADDRS, opts=ALL_OPTS, tls=(False,),
                             maxrcpt=1, maxfaults=0, maxagain=0, devs=gdevs, gen=True, tail=GEN_TAIL)),
        ]
        n = 1500 if thorough else 150
        jobs = [(name, dict(workers=2, timeout=1800, cfg_text=text, heap="3g")) for name, text in focus]
        for fa in (0, 2, 3, 4, 6, 8):
            jobs.append(("sim%d" % fa, dict(workers=1, timeout=1800, simulate=n, depth=120, heap="2g",
                                            cfg_text=cfg(exts=ALL_EXTS, replies=ALL_REPLIES, addrs=ALL_ADDRS, opts=ALL_OPTS,
                                                         certs=("valid", "bad"), maxfaults=2, maxtxn=2, maxconn=2, maxagain=2,
                                                         faultafter=fa, devs=gdevs, gen=True, tail=GEN_TAIL))))
        with concurrent.futures.ThreadPoolExecutor(max_workers=len(jobs)) as ex:
            futs = {name: ex.submit(ctx.tlc, "SmtpClient", None, name=name, **kw) for name, kw in jobs}
            res = {name: f.result() for name, f in futs.items()}
        behs = []
        for name, _ in jobs:
            g = res[name]
            if not g["ok"]:
                raise vlib.Infra("behaviour generation %s failed: %s %s (see %s/tlc.out)" % (
                    name, g["invariant"], g["error"], g["dir"]))
            got = behaviours_from(g)
            if not name.startswith("sim"):
                ctx.cov["exhaustive_" + name] = len(got)
                if not thorough:
                    by_shape = {}
                    for x in got:
                        by_shape.setdefault(shape(x), []).append(x)
                    got = [ctx.rng.choice(v) for _, v in sorted(by_shape.items())]
                    cap = 900
                    if len(got) > cap:
                        got = vlib.sample(ctx.rng, got, cap)
            behs += got
        behs = dedup(behs)
        if not behs:
            raise vlib.Infra("TLC produced no behaviours")
    ctx.log("%d behaviours to replay" % len(behs))

    events = ctx.run_shards(binary, behs, test="TestReplay", shards=min(vlib.NCPU, 8), name="replay")
    by_id = {x["id"]: x for x in behs}

    # ---- binding self-test: a corrupted and a truncated copy of an accepted trace must be rejected
    selftest = {}
    if not robj:
        base = None
        for x in behs:
            evs = [e for e in events if e["t"] == x["id"]]
            if any(e["e"] == "Srv" and e["verb"] == "RCPT" and e["r"] == "p5" for e in evs) and \
                    not any(e["e"] == "Srv" and e["r"] in ("lok", "lp5") for e in evs):
                base = evs
                break
        if base:
            c1 = [json.loads(json.dumps(dict(e, t=900001))) for e in base]
            for e in c1:
                if e["e"] == "Ret" and e["c"] == "Rcpt" and e["cls"] == "perm":
                    e["cls"], e["id"], e["code"] = "ok", 0, 0            # the refusal reported as success
                    break
            c2 = [json.loads(json.dumps(dict(e, t=900002))) for e in base]
            for i, e in enumerate(c2):
                if e["e"] == "Srv" and e["verb"] == "MAIL":
                    del c2[i]                                             # the MAIL command never seen
                    break
            events = events + c1 + c2
            selftest = {900001: "corrupt-result", 900002: "drop-command"}

    tcfg = cfg(spec="TSpec", exts=ALL_EXTS, replies=ALL_REPLIES, addrs=ALL_ADDRS, opts=ALL_OPTS, certs=("valid", "bad"),
               maxrcpt=9, maxtxn=9, maxconn=9, maxfaults=99, maxagain=9, devs=open_devs, tail=TRACE_TAIL)
    # independent TLC runs over disjoint groups of traces, side by side
    ngroups = 6 if len(behs) > 4000 else 2
    groups = [[e for e in events if e["t"] % ngroups == g] for g in range(ngroups)]
    groups = [g for g in groups if g]
    verdicts, by_t = {}, {}
    with concurrent.futures.ThreadPoolExecutor(max_workers=len(groups)) as ex:
        futs = [ex.submit(ctx.validate, "SmtpClientTrace", None, g, keep=KEEP, name="SmtpClientTrace-g%d" % i, cfg_text=tcfg,
                          batch=1200) for i, g in enumerate(groups)]
        for f in futs:
            v, bt = f.result()
            verdicts.update(v)
            by_t.update(bt)
    ok = drift = 0
    preds = {}
    seen_findings = {}
    for t, recs in sorted(verdicts.items()):
        r0 = recs[0]
        if t in selftest:
            if not r0["drift"] and not r0["viol"]:
                raise vlib.Infra("binding self-test failed: %s trace was accepted" % selftest[t])
            continue
        viol = set(r0["viol"])
        conform = not r0["drift"]
        explained = set()
        if conform and r0["devs"] and set(r0["devs"]) <= set(open_devs):
            allowed = set()
            for f in known:
                if set(devs_of(f)) & set(r0["devs"]):
                    allowed |= set(f.get("match", {}).get("predicates", []))
            explained = viol & allowed
            if explained:
                for f in known:
                    if set(devs_of(f)) & set(r0["devs"]) and set(f["match"].get("predicates", [])) & explained:
                        seen_findings[f["id"]] = f["what"]
        rest = viol - explained
        if rest:
            names = sorted(rest)
            for p in names:
                preds[p] = preds.get(p, 0) + 1
            ctx.violation("smtpconn client violates %s" % ",".join(names),
                          {"property": PID, "behaviour": by_id[t], "trace": by_t[t], "violated": names,
                           "how": "bin/check X06 --replay <this file>"})
        elif conform:
            ok += 1
        else:
            drift += 1
            print("DRIFT property=%s trace=%d first-unexplained-seq=%s" % (PID, t, r0["driftAt"]))
    if selftest:
        ctx.cov["binding_selftest"] = "corrupted-result and dropped-command traces rejected"
    ctx.cov["evaluations"] = len(behs)
    ctx.cov["distinct_nontrivial"] = sum(1 for x in behs if nontrivial(x))
    ctx.cov["calls_replayed"] = sum(1 for e in events if e["e"] == "Call" and e["t"] < 900000)
    ctx.cov["wire_events"] = sum(1 for e in events if e["e"] == "Srv" and e["t"] < 900000)
    for x in behs[:2]:
        ctx.cov["samples"].append({"behaviour": x, "trace": [e for e in by_t.get(x["id"], [])][:40]})
    return ok, drift, seen_findings, preds


def run(ctx, replay):
    thorough = ctx.tier == "thorough"
    known = open_findings()
    robj = json.load(open(replay)) if replay else None
    skip_mc = bool(os.environ.get("VERIF_DEV_SKIP_MC"))   # development aid only (mutation drills)
    if skip_mc:
        ctx.notes.append("VERIF_DEV_SKIP_MC set: exhaustive model checking skipped in this run")
    binary = ctx.build_harness("smtpconncheck")
    ok = drift = 0
    seen_findings, preds = {}, {}
    if not robj or "steps" in robj.get("behaviour", {}):
        ok, drift, seen_findings, preds = run_client(ctx, binary, known, thorough, robj, skip_mc)
    if not robj or "row" in robj.get("behaviour", {}):
        ok2, drift2, seen2, preds2 = run_targets(ctx, binary, known, thorough, robj)
        ok += ok2
        drift += drift2
        seen_findings.update(seen2)
        for k2, v2 in preds2.items():
            preds[k2] = preds.get(k2, 0) + v2
    for fid, what in sorted(seen_findings.items()):
        print("EXT-FINDING: ext=%s %s %s" % (PID, fid, what))
    ctx.cov["ext_findings_seen"] = sorted(seen_findings)
    ctx.cov["traces_validated_against_impl"] = ok
    ctx.cov["drift_traces"] = drift
    ctx.cov["violated_predicates"] = preds
    ctx.cov["rule"] = ("behaviours = (next hop: SMTP/LMTP, extension set, certificate; call sequence of the targets' call "
                       "language; reply kind of every reply slot) of SmtpClient.tla printed by TLC: exhaustive over focused "
                       "sub-spaces (one per shape in quick, all in thorough) plus -simulate over the full space, "
                       "de-duplicated; non-trivial = a non-ok reply, a failing dial or a failing body source")
    ctx.cov["exhaustive"] = False
    ctx.assumptions += [
        "the next hop is a scripted line-based SMTP/LMTP server inside the testing/synctest bubble, reached over an in-memory "
        "connection with TCP error behaviour (buffered writes, EOF after peer close, *net.OpError for time-outs and closed "
        "connections); time-outs run on the bubble's fake clock",
        "the next hop sends exactly one reply per command (per accepted recipient after the final dot for LMTP, optionally "
        "one more), possibly after the client's time-out; at most one late reply per connection",
        "addresses are fixed strings per kind (ASCII, U-label domain, non-ASCII local part)",
        "target slice: real target.smtp / target.lmtp / target.remote against scripted.SMTPServer on loopback TCP; a harness-side "
        "time-out there is exit 2, never a violation",
        "TLC 1.8.0, CommunityModules Json reader",
    ]


META = {
    "engine": "smtpconncheck",
    "level": "model_checking",
    "statement": "For every next hop behaviour (greeting 220/4xx/5xx/garbage, EHLO refused then HELO, LHLO, any set of "
                 "extensions, any reply class, multi-line or enhanced-code-less reply, garbage, a dropped connection or a "
                 "reply arriving after the time-out at every command and after the final dot, LMTP per-recipient replies "
                 "short or long by one) and every call sequence target.smtp, target.lmtp and target.remote make on an "
                 "smtpconn.C object (Connect/ConnectLMTP with or without required STARTTLS, Mail, Rcpt*, Data|LMTPData, "
                 "Client().Reset() before reuse, Noop, Close, DirectClose, re-Connect, Close again): commands reach the next "
                 "hop only in an order RFC 5321/2033 allows (LHLO for LMTP and never HELO, HELO only after EHLO was refused "
                 "with 500/502, STARTTLS only when offered, no MAIL inside a transaction, no RCPT without an accepted MAIL, no "
                 "DATA without an accepted RCPT, nothing but the message inside DATA); MAIL carries SMTPUTF8/REQUIRETLS/SIZE/"
                 "BODY only when offered, carries every requested option that is offered, the client names itself localhost before "
                 "and by its host name after a required STARTTLS, and a requested REQUIRETLS that is "
                 "not offered or a non-convertible address fails the call without a command; a call succeeds only on a positive "
                 "reply to its own command, an error names the reply to its own command with that reply's class (552 as 452), a "
                 "connection-level failure is never reported as permanent, and every LMTP status is the reply for that "
                 "recipient under the address as sent; the final dot is sent only after the complete message; no call panics or "
                 "blocks, Close waits at most 5 s for the reply to QUIT, says QUIT on a healthy session, and after Close or "
                 "DirectClose (also a repeated one) and after a failed Connect the network connection is closed and Client() is nil.",
    "technique": "TLA+ spec SmtpClient.tla (client object x next hop x stream of unread replies) model-checked by TLC; "
                 "TLC-generated behaviours replayed on the real smtpconn.C/go-smtp client in a synctest bubble against a "
                 "scripted next hop; API and wire events validated by TLC against SmtpClientTrace.tla (predicates in "
                 "SmtpClientObs.tla)",
    "text": "TLC visits every call sequence of the targets' call language (<=2 recipients, <=2 transactions, <=2 connections, "
            "calls after Close) against every choice of reply kind per slot within a fault budget and checks the order, "
            "option-gating, attribution, completion and close predicates in every state; the same predicates are evaluated "
            "by TLC over the traces of the real client.",
    "note": "In-memory connection with TCP error semantics and fake time; trusted: TLC, the harness, Go toolchain.",
    "design_ref": "extensions/X06.md",
}
