"""X04 - check.dnsbl: listing decisions, scores and thresholds are computed exactly as documented
for every combination of list answers.

(S) spec/Dnsbl.tla: the input space as tables (scores x thresholds, enabled lookups x client
    family x EHLO / MAIL FROM shapes, responses filter x answer addresses, temporary failures,
    query names of more client addresses, placement of the check, defaults / inline lists, a
    Seed-dependent mixed table), the property as named predicates (Prop), the documented procedure
    (Rule) with the query names of RFC 5782 computed in TLA+, and the code's deviations as named
    switches (RuleD).
(T) TLC enumerates every row, checks Prop(in, Rule(in)) and "action = Decide(sum of the scores of
    the listing lists)", prints the rows; one as-is run per deviation must violate Prop.
(B) harness/dnsblcheck configures the real check.dnsbl module from configuration text inside a
    real msgpipeline (scripted recording resolver), announces the connection with RunEarlyChecks
    as endpoint/smtp does and sends a message through the pipeline (or calls the module's decision
    function with the row's identities); spec/DnsblTrace.tla evaluates Prop on what the code did.
"""
import json
import os
from concurrent.futures import ThreadPoolExecutor

import vlib
import vtable

PID = "X04"

# the deviations of spec/Dnsbl.tla (AllDevs), in the order used to attribute a row that several
# sets of the same size explain
DEVS = ["MailFromNeverChecked", "DomainNoFilter", "InlineScoreZero", "InlineNoFilter", "ScopedNoop",
        "LiteralSkipsMailFrom"]

MC_CFG = """SPECIFICATION Spec
CONSTANTS
  MaxLists = %(maxlists)d
  Devs = {%(devs)s}
  Gen = %(gen)s
  Seed = %(seed)d
  RandN = %(randn)d
INVARIANTS %(inv)s
%(emit)s
CHECK_DEADLOCK FALSE
"""

TRACE_CFG = """SPECIFICATION TSpec
CONSTANTS
  MaxLists = 4
  Devs = {}
  Gen = FALSE
  Seed = 1
  RandN = 1
  OpenDevs = {%(open)s}
CHECK_DEADLOCK FALSE
POSTCONDITION Post
"""

OUT_KEYS = ("action", "stage", "code", "queries", "action2")


def q(names):
    return ", ".join('"%s"' % n for n in sorted(names))


def ext_findings():
    p = os.path.join(vlib.VERIF, "extensions", "findings.json")
    if not os.path.exists(p):
        return []
    return [f for f in json.load(open(p)).get("findings", []) if f.get("ext") == PID]


def nontrivial(row):
    """the row's outcome depends on an answer: some list answers with addresses or fails"""
    for l in row["in"]["lists"]:
        for k in ("ip", "ehlo", "mf"):
            if l["ans"][k]["k"] != "nx":
                return True
    return False


def project(e):
    o = e["out"]
    return {"t": e["t"], "seq": e["seq"], "e": "Row", "in": e["in"], "out": {k: o[k] for k in OUT_KEYS}}


def harvest(ctx, name):
    """after a failed shard run: the Row events that were written, and the rows whose Begin line has no Row line in
    a shard whose log shows a panic inside internal/check/dnsbl (the code under test crashed the process)"""
    d = os.path.join(ctx.work, name)
    got, bad = [], []
    for f in sorted(os.listdir(d)):
        if not (f.startswith("out") and f.endswith(".ndjson")):
            continue
        begun, done = [], set()
        for line in open(os.path.join(d, f)):
            line = line.strip()
            if not line:
                continue
            try:
                e = json.loads(line)
            except ValueError:
                continue
            if e["e"] == "Begin":
                begun.append(e["t"])
            else:
                done.add(e["t"])
                got.append(e)
        left = [t for t in begun if t not in done]
        log = os.path.join(d, f.replace("out", "log").replace(".ndjson", ".txt"))
        txt = open(log).read() if os.path.exists(log) else ""
        if left and ("panic:" in txt or "fatal error:" in txt) and "internal/check/dnsbl" in txt:
            k = txt.find("panic:")
            bad.append((left[-1], txt[max(0, k):k + 2500]))
    return got, bad


def run(ctx, replay):
    thorough = ctx.tier == "thorough"
    entries = ext_findings()
    for e in entries:
        if e["match"]["deviation"] not in DEVS:
            raise vlib.Infra("finding %s names an unknown deviation %s" % (e["id"], e["match"]["deviation"]))
    open_by_dev = {e["match"]["deviation"]: e for e in entries if e.get("status", "open") == "open"}
    ext_seen = []        # (finding id, what)

    # ---- (T) + rows ---------------------------------------------------------
    if replay:
        obj = json.load(open(replay))
        rows = [obj["row"]]
        rows[0]["id"] = 1
    else:
        maxlists = 4 if thorough else 2
        randn = 30000 if thorough else 3000
        r = ctx.tlc_expect_ok("Dnsbl", None, name="mc", workers=8, timeout=2400,
                              cfg_text=MC_CFG % dict(maxlists=maxlists, devs="", gen="TRUE", seed=ctx.seed, randn=randn,
                                                     inv="RuleSatisfiesProp RuleIsScoreSum", emit="CONSTRAINT Emit"))
        rows = vtable.rows_from(r)
        if len(rows) != r["distinct"]:
            raise vlib.Infra("TLC printed %d distinct rows for %d states" % (len(rows), r["distinct"]))
        ctx.cov["states"] = r["distinct"]
        ctx.cov["transitions"] = r["generated"]
        ctx.cov["model_depth"] = r["depth"]
        ctx.log("TLC: %d input rows (MaxLists=%d, %d mixed rows for seed %d); Prop(in, Rule(in)) and the score-sum "
                "theorem hold on all, %.1fs" % (r["distinct"], maxlists, randn, ctx.seed, r["wall"]))

        # as-is: each deviation of the code, switched on alone, must violate the property (non-vacuity)
        def asis(dev):
            return dev, ctx.tlc("Dnsbl", None, name="asis-" + dev, workers=2, timeout=600,
                                cfg_text=MC_CFG % dict(maxlists=1, devs=q([dev]), gen="FALSE", seed=1, randn=1,
                                                       inv="AsIsSatisfiesProp", emit=""))
        # (runs next to the replay of the rows; joined before the verdicts)
        asis_pool = ThreadPoolExecutor(max_workers=3)
        asis_runs = [asis_pool.submit(asis, d) for d in DEVS]
    sel = rows
    by_id = {row["id"]: row for row in sel}
    ctx.log("%d rows to run through the real code" % len(sel))

    # ---- (B) the real code ------------------------------------------------------
    binary = ctx.build_harness("dnsblcheck")
    items = [{"id": row["id"], "in": row["in"], "zone": row["zone"]} for row in sel]
    # a panic inside the module kills the process: the row that was running is a statement about maddy
    # (NoCrash); the other rows of that shard are run again
    pending, events, crashed = items, [], []
    for attempt in range(6):
        name = "replay" if attempt == 0 else "replay%d" % attempt
        try:
            events += ctx.run_shards(binary, pending, timeout=1500, name=name)
            pending = []
            break
        except vlib.Infra:
            got, bad = harvest(ctx, name)
            if not bad:
                raise
            events += got
            crashed += bad
            done = {e["t"] for e in got} | {t for t, _ in bad}
            pending = [it for it in pending if it["id"] not in done]
    events = [e for e in events if e["e"] == "Row"]
    ctx.log("real code answered %d rows" % len(events))
    if crashed:
        ctx.log("the module crashed the process on %d rows (%d rows not run after %d attempts)" % (
            len(crashed), len(pending), attempt + 1))
    elif len(events) != len(items):
        raise vlib.Infra("harness answered %d of %d rows" % (len(events), len(items)))
    ev_by_t = {e["t"]: e for e in events}
    for t, tail in crashed:
        row = by_id[t]
        fake = {"t": row["id"], "seq": 2, "e": "Row", "in": row["in"],
                "out": {"action": "panic", "stage": "none", "code": 0, "queries": [], "action2": "n/a", "panic": tail}}
        events.append(fake)
        ev_by_t[row["id"]] = fake
    sel = [row for row in sel if row["id"] in ev_by_t]

    # binding self-test: forged outputs must be rejected, and must not pass as findings
    selftest = {}
    if not replay:
        def forge(t, pred, **chg):
            # built from the row and the rule's output only: independent of what the code did
            for row in rows:
                if pred(row):
                    f = {"t": t, "seq": 2, "e": "Row", "in": row["in"], "out": dict(row["exp"])}
                    f["out"].update(chg)
                    return f
            return None
        plain = lambda row: row["in"]["tab"] == "score" and not row["in"]["early"]
        forged = [
            (900001, "listing not counted", forge(900001, lambda row: plain(row) and row["exp"]["action"] == "permreject",
                                                  action="none", stage="none", code=0)),
            (900002, "quarantine turned into reject", forge(900002, lambda row: plain(row) and row["exp"]["action"] == "quarantine",
                                                            action="permreject", stage="mail", code=554)),
            (900003, "temporary failure refused permanently",
             forge(900003, lambda row: row["in"]["tab"] == "temp" and row["exp"]["action"] == "tempreject"
                   and len(row["in"]["lists"]) == 1 and row["in"]["level"] == "pipeline" and row["in"]["ehlo"]["kind"] == "dom",
                   action="permreject", code=554)),
            (900004, "undocumented query", forge(900004, lambda row: plain(row) and row["exp"]["action"] == "none",
                                                 queries=[{"t": "addr", "q": "mx.sender.test.a.bl.test"}])),
            (900005, "early refusal at MAIL", forge(900005, lambda row: row["in"]["tab"] == "score" and row["in"]["early"]
                                                    and row["exp"]["action"] == "permreject", stage="mail")),
        ]
        for t, what, f in forged:
            if f is None:
                raise vlib.Infra("binding self-test: no base row for '%s'" % what)
            selftest[t] = what
            events = events + [f]

    verdicts, accepted = vtable.validate_rows(ctx, "DnsblTrace", TRACE_CFG % dict(open=q(open_by_dev)),
                                              [project(e) for e in events], batch=4000, par=8, timeout=1800)
    ctx.log("TLC evaluated %d recorded rows: %d accepted as conforming" % (len(events), accepted))
    for t, what in selftest.items():
        v = verdicts.get(t)
        if not v or not v["viol"] or v["devs"]:
            raise vlib.Infra("binding self-test failed: forged row (%s) was accepted or explained by a deviation" % what)
        del verdicts[t]
    if selftest:
        ctx.cov["binding_selftest"] = "forged rows rejected: " + "; ".join(selftest.values())

    if not replay:
        for fut in asis_runs:
            dev, ra = fut.result()
            if ra["invariant"] != "AsIsSatisfiesProp":
                raise vlib.Infra("as-is model (%s) does not violate the property: predicates vacuous? (%s)" % (
                    dev, ra["error"]))
        asis_pool.shutdown()
        ctx.cov["asis_counterexample_found"] = list(DEVS)
    if replay:
        ev = events[0]
        v = verdicts.get(ev["t"])
        print("REPLAY ext=X04 config:\n%s" % ev["out"].get("cfg", ""))
        print("REPLAY ext=X04 real code: %s" % json.dumps({k: ev["out"].get(k) for k in
                                                            ("action", "stage", "code", "ench", "msg", "queries", "parsed")}))
        print("REPLAY ext=X04 documented: %s" % json.dumps(rows[0].get("exp")))
        if v:
            least = min(len(d) for d in v["devs"]) if v["devs"] else 0
            print("REPLAY ext=X04 verdict of TLC: violated=%s differs-from-documented-rule=%s explained-by-deviations=%s" % (
                sorted(v["viol"]), v["drift"], sorted(sorted(d) for d in v["devs"] if len(d) == least)))
        else:
            print("REPLAY ext=X04 verdict of TLC: accepted as conforming")

    # ---- verdicts ------------------------------------------------------------------
    drift = 0
    finding_rows = {}
    preds = {}
    for t, v in sorted(verdicts.items()):
        row, ev = by_id[t], ev_by_t[t]
        outs = {k: ev["out"][k] for k in OUT_KEYS}
        devsets = sorted((sorted(d, key=DEVS.index) for d in v["devs"]),
                         key=lambda d: (len(d), [DEVS.index(x) for x in d]))
        minimal = devsets[0] if devsets else None
        explained = minimal is not None and all(d in open_by_dev for d in minimal)
        if explained and v["viol"]:
            allowed = set()
            for d in minimal:
                allowed |= set(open_by_dev[d]["match"].get("predicates", []))
            explained = set(v["viol"]) <= allowed
        if v["viol"] and not explained:
            for p in v["viol"]:
                preds[p] = preds.get(p, 0) + 1
            what = "check.dnsbl violates %s: in=%s out=%s documented=%s" % (
                ",".join(sorted(v["viol"])),
                json.dumps({k: row["in"][k] for k in row["in"] if k != "tab"}, sort_keys=True), json.dumps(outs),
                json.dumps(row.get("exp")))
            if len(what) > 900:
                what = what[:900] + " ..."
            ctx.violation(what, {"property": PID, "row": row, "out": ev["out"], "violated": sorted(v["viol"]),
                                 "how": "bin/check X04 --replay <this file>"})
        elif explained:
            # exactly the behaviour of the named deviation(s) of open findings
            for d in minimal:
                e = open_by_dev[d]
                if (e["id"], e["what"]) not in ext_seen:
                    ext_seen.append((e["id"], e["what"]))
                k = finding_rows.setdefault(e["id"], {"rows": 0, "violating_rows": 0, "predicates": {}, "example": None})
                k["rows"] += 1
                if v["viol"]:
                    k["violating_rows"] += 1
                    for p in v["viol"]:
                        k["predicates"][p] = k["predicates"].get(p, 0) + 1
                    if k["example"] is None:
                        k["example"] = {"in": row["in"], "out": outs, "documented": row["exp"], "violated": sorted(v["viol"]),
                                        "config": ev["out"].get("cfg")}
        else:
            drift += 1
            if drift <= 10:
                print(("DRIFT ext=X04 row=%d out=%s expected=%s in=%s" % (
                    t, json.dumps(outs), json.dumps(row.get("exp")), json.dumps(row["in"], sort_keys=True)))[:1500])
    ctx.cov["traces_validated_against_impl"] = accepted
    ctx.cov["drift_traces"] = drift
    ctx.cov["ext_finding_rows"] = finding_rows
    ctx.cov["ext_findings_seen"] = [fid for fid, _ in ext_seen]
    ctx.cov["evaluations"] = len(sel)
    ctx.cov["distinct_nontrivial"] = sum(1 for row in sel if nontrivial(row))
    tabs = sorted({row["in"]["tab"] for row in sel})
    ctx.cov["rows_by_table"] = {tab: sum(1 for row in sel if row["in"]["tab"] == tab) for tab in tabs}
    ctx.cov["rule"] = ("rows = states of Dnsbl.tla (one per input; distinct by construction): score table (1..MaxLists IPv4 "
                       "lists x 7/4/2 scores x listed/not x 5 quarantine x 4 reject thresholds x check_early), kinds table "
                       "(16 combinations of client_ipv4/client_ipv6/ehlo/mailfrom x 3 client families x 9 EHLO / MAIL FROM "
                       "shapes x 5 listing patterns x pipeline / pipeline+check_early / module level), filter table (37 "
                       "answer address sets x 3 TXT outcomes x 3 lookup kinds x 5 responses settings + inline form), "
                       "temporary failures, query names of 10 client addresses, placement (global / source / destination), "
                       "defaults and inline lists, RandN mixed rows drawn from Seed = VERIF_SEED; every row goes through the "
                       "real code in both tiers (quick MaxLists=2, RandN=3000; thorough MaxLists=4, RandN=30000); "
                       "non-trivial = some list answers with addresses or fails")
    ctx.cov["violated_predicates"] = preds
    ctx.cov["exhaustive"] = True
    picks = []
    for tab in tabs:
        picks += [row for row in sel if row["in"]["tab"] == tab and nontrivial(row)][:1]
    for row in picks[:6]:
        o = ev_by_t[row["id"]]["out"]
        ctx.cov["samples"].append({"row": {"in": row["in"], "documented": row["exp"]},
                                   "out": {k: o.get(k) for k in ("action", "stage", "code", "ench", "msg", "queries", "parsed",
                                                                 "selftest", "cfg")}})
    ctx.assumptions += [
        "the scripted resolver answers case-insensitively and A-label / U-label spellings alike (query names are compared "
        "in canonical form); temporary failure = *net.DNSError{IsTemporary}, NXDOMAIN = *net.DNSError{IsNotFound}",
        "the module is created by NewDNSBL and initialised by Init from configuration text under the module name "
        "verif_dnsbl; only the resolver is replaced (before Init); the queries of Init's RFC 5782 self-test are kept apart",
        "the connection is announced to the pipeline the way internal/endpoint/smtp does it (RunEarlyChecks with the "
        "ConnState of the session, then Start with MsgMetadata.Conn); the SMTP endpoint itself is not part of the binding",
        "TLC 1.8.0, CommunityModules Json",
    ]
    # extension findings are printed here (vlib.finish prints KNOWN-FINDING lines only for listed properties)
    for fid, what in ext_seen:
        print("EXT-FINDING: ext=%s %s %s" % (PID, fid, what))


META = {
    "engine": "dnsblcheck",
    "level": "model_checking",
    "technique": "TLA+ spec Dnsbl.tla (property predicates, documented procedure with RFC 5782 query names, named "
                 "deviations) enumerated by TLC; rows run through the real check.dnsbl module configured from text inside "
                 "a real message pipeline with a recording resolver; recorded answers evaluated by TLC (DnsblTrace.tla)",
    "statement": "For every configuration of check.dnsbl (lists given as module arguments or as blocks, each with "
                 "client_ipv4 / client_ipv6 / ehlo / mailfrom, a responses filter and a score; quarantine_threshold, "
                 "reject_threshold, check_early; used in the top-level check block or in a source / destination block), "
                 "every client address (IPv4, IPv6, IPv4-mapped), EHLO name (domain in any letter case, address literal) "
                 "and MAIL FROM (domain, internationalized domain, null reverse-path) and every combination of DNS answers "
                 "of the lists (not listed, listed with addresses inside and/or outside the responses filter, empty answer, "
                 "temporary failure; TXT present, absent or failing): the check asks only for the documented names - the "
                 "client's octets reversed (IPv4) or nibbles reversed (IPv6) under the zones that enable that family, the "
                 "EHLO domain under the zones with ehlo (never an address literal), the MAIL FROM domain under the zones "
                 "with mailfrom (not with check_early) -; a list lists the client iff one of those lookups returns an "
                 "address permitted by its responses filter (default 127.0.0.1/24); the score is the sum of the scores "
                 "(default 1) of the lists that list the client, a list given as module argument counting like a block "
                 "with the documented defaults; the message is rejected (5xx) iff score >= reject_threshold (default "
                 "9999), quarantined iff quarantine_threshold (default 1) <= score < reject_threshold and untouched "
                 "otherwise; with check_early the rejection happens at the connection stage, without it at the message "
                 "stage, and the decision is the same; a temporary DNS failure never counts as a listing and never "
                 "crashes the server: the message is refused with a temporary (4xx) code or decided without the failing "
                 "lookup.",
    "text": "TLC enumerates the input tables of Dnsbl.tla, checks the property predicates and 'action = threshold "
            "decision of the sum of the scores of the listing lists' on the documented rule for every row, and evaluates "
            "the same predicates on the action (SMTP error class / quarantine flag at the target), the stage of the "
            "refusal and the set of DNS queries the real module produced for every row in both tiers.",
    "note": "DNS is a scripted recording resolver; the SMTP endpoint is replaced by the calls it makes "
            "(RunEarlyChecks + Start/AddRcpt/Body/Commit); six deviations of the unchanged tree are open extension "
            "findings (extensions/findings.json).",
    "design_ref": "extensions/X04.md",
}
