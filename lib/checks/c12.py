"""C12 - the queue scheduler dispatches each entry once, not early; shutdown is safe.

(T) TLC checks TimeWheel.tla (timewheel.go Add/Close/tick + the dispatch/Close wrapper of
    queue.go at the granularity of the instrumented code's scheduling points) exhaustively:
    every interleaving inside the bound, safety + liveness under weak fairness, deadlock
    checking on.  The as-is configuration (deviation AddCloseWindow) must fail.
(B) Schedules - delay-bounded (<= 2) schedules enumerated by TLC, delay positions applied
    directly to a non-preemptive scheduler on the code, and seeded random schedules - are
    executed on the real TimeWheel and on the real Queue, instrumented by
    harness/cmd/instrument from the current working tree, under harness/vsched.  The recorded
    API-level histories are validated by TLC against TimeWheelTrace.tla; the property
    predicates are those of TimeWheelObs.tla.
"""
import json
import os
import subprocess

import vlib

PID = "C12"
FILES = ["internal/target/queue/timewheel.go", "internal/target/queue/queue.go"]

CFG = """SPECIFICATION %(spec)s
CONSTANTS
  NAdders = %(n)d
  DueSet = {%(dues)s}
  RetrySets = {%(retry)s}
  PanicSets = {%(panic)s}
  RetryDelay = %(rd)d
  CloseSet = {%(close)s}
  ParSet = {%(par)s}
  MaxTime = %(maxtime)d
  Devs = {%(devs)s}
  Gen = %(gen)s
  DelayBound = %(db)d
%(tail)s
"""

SAFETY = "VIEW View\nINVARIANTS NoViolation TypeOK OnceEach NoPanic NoBrokenMark\n"
LIVE = "VIEW View\nINVARIANTS NoViolation\nPROPERTIES Terminates CloseTerminates AddsTerminate EventuallyDispatched\n"


def cfg(n=2, dues=(0,), retry=(("p1",),), close=("TRUE",), par=(1,), maxtime=1, devs=(), gen=False,
        db=1000, tail=SAFETY, spec="Spec", rd=1, panic=((),)):
    rs = ", ".join("{" + ", ".join('"%s"' % p for p in r) + "}" for r in retry)
    ps = ", ".join("{" + ", ".join('"%s"' % p for p in r) + "}" for r in panic)
    return CFG % dict(spec=spec, n=n, dues=", ".join(map(str, dues)), retry=rs, close=", ".join(close),
                      par=", ".join(map(str, par)), maxtime=maxtime, rd=rd, panic=ps,
                      devs=", ".join('"%s"' % d for d in devs), gen="TRUE" if gen else "FALSE",
                      db=db, tail=tail)


def findings():
    # VERIF_KNOWN_DIR: alternative directory (used to rehearse "status: fixed" before the lead commits a fix)
    p = os.path.join(os.environ.get("VERIF_KNOWN_DIR") or os.path.join(vlib.VERIF, "known_findings.d"), PID + ".json")
    if not os.path.exists(p):
        return []
    return json.load(open(p)).get("findings", [])


def open_devs():
    """deviation name -> finding, for entries whose status is exactly 'open'"""
    return {f["match"]["deviation"]: f for f in findings()
            if f.get("status") == "open" and f.get("match", {}).get("deviation")}


def instrument(ctx, files):
    ov = ctx.sub("overlay")
    p = subprocess.run(["go1.26", "run", "./cmd/instrument", "-repo", ctx.repo, "-out", ov] + files,
                       cwd=vlib.HARNESS, env=vlib.goenv(), stdout=subprocess.PIPE,
                       stderr=subprocess.STDOUT, text=True)
    if p.returncode != 0:
        raise vlib.Infra("instrumenter failed:\n" + p.stdout[-3000:])
    ctx.cov["yield_points"] = json.loads(p.stdout.strip().splitlines()[-1])
    return os.path.join(ov, "overlay.json")


FIELDS = {"t", "seq", "e", "k", "n", "mode", "due", "close", "retry", "par", "hdr", "panic", "pid", "p", "ent", "m", "now", "res", "next",
          "ndue", "pending", "broken", "hung", "g", "att", "rd", "scale", "snum", "sden"}


def project(e):
    """only the fields the trace spec reads (free-text fields stay in the replay artefact)"""
    return {k: v for k, v in e.items() if k in FIELDS}


def validate_parallel(ctx, module, events, cfg_text, batch=150, par=6, timeout=1500, tag=""):
    """ctx.validate on chunks of `batch` traces, `par` TLC processes at a time"""
    from concurrent.futures import ThreadPoolExecutor
    by_t = {}
    for e in events:
        by_t.setdefault(e["t"], []).append(e)
    ts = sorted(by_t)
    chunks = [ts[i:i + batch] for i in range(0, len(ts), batch)]

    def one(i):
        evs = [e for t in chunks[i] for e in by_t[t]]
        v, _ = ctx.validate(module, None, evs, cfg_text=cfg_text, batch=batch, timeout=timeout,
                            name="%s-p%s%d" % (module, tag, i))
        return v
    verdicts = {}
    with ThreadPoolExecutor(max_workers=par) as ex:
        for v in ex.map(one, range(len(chunks))):
            verdicts.update(v)
    return verdicts


SCALE = 2   # the harness clock runs in half units of the model's time, so that a timer
            # that fires early is observable between two ticks


def run_shards_resilient(ctx, binary, items, name="replay", rounds=6):
    """ctx.run_shards, except that a harness process which had to abandon a behaviour because a goroutine of the
    code under test is blocked in an operation the scheduler cannot abort (exit status 3, after the behaviour's
    final event - which lists the hung calls - was written) is restarted on the behaviours it has not run yet.
    A call that never returns is a verdict of the Obs predicate "Hang", never an infrastructure error."""
    events, todo, n = [], list(items), 0
    while todo:
        n += 1
        try:
            events += ctx.run_shards(binary, todo, name="%s%d" % (name, n))
            break
        except vlib.Infra as e:
            if "rc=3" not in str(e) or n >= rounds:
                raise
            d = os.path.join(ctx.work, "%s%d" % (name, n))
            got = []
            for f in sorted(os.listdir(d)):
                if f.startswith("out") and f.endswith(".ndjson"):
                    for line in open(os.path.join(d, f)):
                        line = line.strip()
                        if line:
                            try:
                                got.append(json.loads(line))
                            except ValueError:
                                pass
            done = {e["t"] for e in got if e["e"] == "End"}
            if not done:
                raise
            events += [e for e in got if e["t"] in done]
            todo = [b for b in todo if b["id"] not in done]
    events.sort(key=lambda e: (e["t"], e["seq"]))
    return events


RESIDUE = ("metanew", "metanew_torn", "metanew_empty", "foreign", "rm_partial", "store_partial")


def scen(mode, due, close, retry, par=1, maxtime=1, hdr=(), panic=(), pid=0, downtime=0,
         left=(), restarts=1, retry2=(), rscale=1, rdmul=1, failupto=2):
    # queue mode with shutdown: the process is started again on the same spool directory afterwards
    # left: residue of dead incarnations / operators found in the spool directory at every start (harness/twcheck/
    # residue_test.go); restarts: how often it is shut down and started again; retry2: messages whose second
    # attempt fails as well; rscale: retry_time_scale, an integer or a rational (num, den); rdmul: initial_retry_time
    # in model units (a multiple of den^(failupto-1), so that no delay of the documented formula is a fraction of
    # a tick); failupto: attempts 2..failupto of the retry2 messages fail
    num, den = rscale if isinstance(rscale, tuple) else (rscale, 1)
    restart = mode == "queue" and close
    return {"mode": mode, "due": {p: d * SCALE for p, d in due.items()}, "close": close, "retry": list(retry),
            "par": par, "maxTime": maxtime * SCALE, "retryDelay": SCALE * rdmul, "hdr": list(hdr),
            "panic": list(panic), "pid": pid * SCALE, "downtime": downtime * SCALE,
            "restart": restart, "left": list(left) if restart else [], "restarts": restarts if restart else 0,
            "retry2": list(retry2) if restart else [], "scale": num // den, "snum": num, "sden": den,
            "failUpTo": failupto}


def directed(thorough):
    """Directed schedules on the real Queue (choices that are not runnable are skipped):
    commit-after-close   Start/AddRcpt/Body before shutdown, Commit after Close returned;
    restart-before-retry attempt at t>enqueue fails temporarily, shutdown and restart before the retry is due;
    header-fault         the header cannot be opened when the retry is dispatched (transient error), shutdown,
                         restart with the fault gone."""
    out = []
    run_all = ["tick", "w:p1", "w:p2", "w:p1.2"]
    for due in ({"p1": 0}, {"p1": 0, "p2": 0}):
        for pre in ([], ["clock"]):
            sc = scen("queue", due, True, ["p2"] if "p2" in due else [], maxtime=2)
            sched = ["p1"] + pre + (["p2"] * 6 if "p2" in due else []) + (["closer"] + run_all) * 10 + ["p1"] * 6
            out.append({"cfg": sc, "pol": "list", "sched": sched, "src": "commit-after-close"})
    for nclk in (1, 2):
        for extra in ([], ["p2"] * 6):
            due = {"p1": 0, "p2": 0} if extra else {"p1": 0}
            sc = scen("queue", due, True, ["p1"], maxtime=3)
            sched = ["p1"] + ["clock"] * nclk + (["p1"] + run_all) * 10 + extra + (["closer"] + run_all) * 10
            out.append({"cfg": sc, "pol": "list", "sched": sched, "src": "restart-before-retry"})
    # overdue-restart: the retry is overdue when the process comes back (downtime > retry delay) and
    # post_init_delay > 0: nothing may be attempted before start-up + post_init_delay
    for down in (2, 3):
        for due in ({"p1": 0}, {"p1": 0, "p2": 0}):
            sc = scen("queue", due, True, list(due), par=2, maxtime=2, pid=1, downtime=down)
            sched = (list(due) + run_all) * 10 + (["closer"] + run_all) * 10
            out.append({"cfg": sc, "pol": "list", "sched": sched, "src": "overdue-restart"})
    # attempt-panic: the target panics inside an attempt; the production handler contains it
    # (.meta_broken), the slot is released, later entries run, shutdown terminates
    for mode in ("queue", "wheel"):
        for close in (True, False):
            for par in (1, 2):
                sc = scen(mode, {"p1": 0, "p2": 0}, close, ["p2"], par=par, maxtime=2, panic=["p1"])
                sched = (["p1", "p2"] + run_all) * 10 + ((["closer"] + run_all) * 10 if close else [])
                out.append({"cfg": sc, "pol": "list", "sched": sched, "src": "attempt-panic"})
    # residue-restart: the spool directory the process comes back to also holds what dead incarnations and
    # operators leave behind (ID.meta.new, torn / empty ones, backup copies, half-removed and half-stored
    # messages).  (a) nothing was attempted before the shutdown (Commit after Close), every first attempt after
    # the restart fails temporarily; (b) first attempt before, second attempt after the restart, failing again,
    # the retry delay doubling, a second shutdown and restart before the third attempt is due.
    lefts = [("metanew",), ("metanew_torn", "foreign"), ("metanew_empty", "rm_partial", "store_partial"), RESIDUE]
    if not thorough:
        lefts = [("metanew", "foreign"), ("metanew_torn", "rm_partial", "store_partial"), ("metanew_empty",)]
    for li, left in enumerate(lefts):
        for due in ({"p1": 0}, {"p1": 0, "p2": 0}):
            for restarts in ((1, 2) if thorough or li == 0 else (1,)):
                sc = scen("queue", due, True, list(due), par=2, maxtime=2, left=left, restarts=restarts,
                          retry2=list(due)[:1], rscale=2, downtime=li % 2)
                sched = ["p1"] + (["p2"] * 6 if "p2" in due else []) + (["closer"] + run_all) * 10 + ["p1"] * 6
                out.append({"cfg": sc, "pol": "list", "sched": sched, "src": "residue-restart"})
        for nclk in (1, 2):
            for extra in ([], ["p2"] * 6):
                if not thorough and (nclk + len(extra) // 6 + li) % 2:
                    continue
                due = {"p1": 0, "p2": 0} if extra else {"p1": 0}
                sc = scen("queue", due, True, ["p1"], par=2, maxtime=3, left=left, restarts=2, retry2=["p1"],
                          rscale=2, pid=li % 2)
                sched = ["p1"] + ["clock"] * nclk + (["p1"] + run_all) * 10 + extra + (["closer"] + run_all) * 10
                out.append({"cfg": sc, "pol": "list", "sched": sched, "src": "residue-restart"})
    # fractional-scale-restart: retry_time_scale with a fractional part (3/2; the default 5/4), every attempt up to
    # the failupto-th fails temporarily and the process is shut down and started again between each attempt and
    # its retry.  The retry time is not stored, only LastAttempt and TriesCount are: the time the running queue
    # handed to its wheel (WheelAdd, read from the real wheel) is what the restarted one must respect.
    fr = [((3, 2), 1, 2, 2, 0, 0), ((3, 2), 2, 3, 3, 0, 0), ((5, 4), 2, 2, 2, 1, 0), ((3, 2), 1, 2, 2, 0, 1)]
    if thorough:
        fr += [((5, 2), 2, 3, 3, 0, 0), ((5, 4), 8, 4, 4, 0, 0), ((3, 2), 2, 3, 3, 1, 1), ((7, 4), 2, 2, 3, 0, 0),
               ((3, 2), 2, 3, 2, 0, 0)]
    for (rs, rdmul, fail, restarts, down, pid) in fr:
        for due in ({"p1": 0}, {"p1": 0, "p2": 0}):
            if not thorough and len(due) == 2 and (rdmul > 1 or pid):
                continue
            # (a) first attempt before the first shutdown
            sc = scen("queue", due, True, list(due), par=2, maxtime=2, restarts=restarts, retry2=list(due)[:1],
                      rscale=rs, rdmul=rdmul, failupto=fail, downtime=down, pid=pid)
            sched = (list(due) + run_all) * 10 + (["closer"] + run_all) * 10
            out.append({"cfg": sc, "pol": "list", "sched": sched, "src": "fractional-scale-restart"})
            # (b) nothing attempted before the first shutdown (Commit after Close)
            if thorough or rdmul == 1:
                sc = scen("queue", due, True, list(due), par=2, maxtime=2, restarts=restarts, retry2=list(due),
                          rscale=rs, rdmul=rdmul, failupto=fail, downtime=down, pid=pid,
                          left=("metanew",) if pid else ())
                sched = ["p1"] + (["p2"] * 6 if "p2" in due else []) + (["closer"] + run_all) * 10 + ["p1"] * 6
                out.append({"cfg": sc, "pol": "list", "sched": sched, "src": "fractional-scale-restart"})
    for extra in ([], ["p2"] * 6):
        due = {"p1": 0, "p2": 0} if extra else {"p1": 0}
        sc = scen("queue", due, True, ["p1"], maxtime=3, hdr=["p1"])
        sched = (["p1"] + run_all) * 10 + extra + ["clock"] * 3 + run_all * 8 + (["closer"] + run_all) * 10
        out.append({"cfg": sc, "pol": "list", "sched": sched, "src": "header-fault"})
    return out


def scale(b):
    """a behaviour printed by TLC (model time) in harness time: every clock step twice"""
    c = dict(b["cfg"])
    c["due"] = {p: d * SCALE for p, d in c["due"].items()}
    c["maxTime"] *= SCALE
    c["retryDelay"] *= SCALE
    sched = []
    for x in b["sched"]:
        sched += [x] * (SCALE if x == "clock" else 1)
    return {"cfg": c, "sched": sched}


def scenarios(thorough):
    out = []
    for mode in ("wheel", "queue"):
        z = mode == "queue"
        d1 = 0 if z else 1
        out += [
            scen(mode, {"p1": 0}, True, ["p1"], left=("metanew", "foreign")),
            scen(mode, {"p1": 0, "p2": d1}, True, ["p1"], maxtime=2, left=("metanew_torn", "store_partial")),
            scen(mode, {"p1": 0, "p2": 0}, True, [], left=("metanew_empty", "rm_partial")),
            scen(mode, {"p1": d1, "p2": 0}, False, ["p1"], maxtime=2),
            scen(mode, {"p1": 0, "p2": 0, "p3": d1}, True, ["p1", "p2"], par=2, maxtime=2, left=RESIDUE),
            scen(mode, {"p1": 0, "p2": 0}, True, ["p2"], maxtime=2, panic=["p1"], pid=1 if z else 0, downtime=1 if z else 0),
        ]
        if thorough:
            out += [
                scen(mode, {"p1": 0, "p2": d1, "p3": 0, "p4": d1}, True, ["p1", "p2", "p3"], par=2, maxtime=2),
                scen(mode, {"p1": 0, "p2": 0, "p3": 0, "p4": 0}, True, ["p1", "p2", "p3"], par=1, maxtime=2),
                scen(mode, {"p1": 0, "p2": d1, "p3": 0}, False, ["p1", "p2", "p3"], par=2, maxtime=2),
            ]
    return out


def run(ctx, replay):
    thorough = ctx.tier == "thorough"
    devs = open_devs()
    dev_names = sorted(devs)

    # ---- (T) exhaustive model checking of the (repaired) design --------------
    if not replay and not os.environ.get("VERIF_DEV_SKIP_MC"):
        if thorough:
            r = ctx.tlc_expect_ok("TimeWheel", None, name="mc", workers=16, timeout=3000,
                                  cfg_text=cfg(2, (0, 1), ((), ("p1",)), ("TRUE", "FALSE"), (1,), 2))
        else:
            r = ctx.tlc_expect_ok("TimeWheel", None, name="mc", workers=8, timeout=600,
                                  cfg_text=cfg(2, (0,), (("p1",),), ("TRUE",), (1,), 1))
        ctx.cov["states"] = r["distinct"]
        ctx.cov["transitions"] = r["generated"]
        ctx.cov["model_depth"] = r["depth"]
        ctx.log("TLC exhaustive (safety): %d distinct states, %d transitions, depth %d, %.1fs" % (
            r["distinct"], r["generated"], r["depth"], r["wall"]))
        rp = ctx.tlc_expect_ok("TimeWheel", None, name="mcpanic", workers=8, timeout=900,
                               cfg_text=cfg(2, (0,), ((), ("p2",)) if thorough else ((),), ("TRUE", "FALSE"), (1,), 1,
                                            panic=(("p1",),), tail="VIEW View\nINVARIANTS NoViolation TypeOK OnceEach NoBrokenMark\n"))
        ctx.cov["states_with_panicking_attempt"] = rp["distinct"]
        # liveness under weak fairness (the tableau makes this expensive: smaller bounds)
        lives = [(1, (0,), ((), ("p1",)), 1)]   # (and below: one producer whose attempt panics)
        if thorough:
            lives = [(1, (0, 1), ((), ("p1",)), 2), (2, (0,), ((),), 1)]
        nl = 0
        for i, (n, dues, retry, mt) in enumerate(lives):
            rl = ctx.tlc_expect_ok("TimeWheel", None, name="live%d" % i, workers=8, timeout=1500,
                                   cfg_text=cfg(n, dues, retry, ("TRUE", "FALSE"), (1,), mt, tail=LIVE))
            nl += rl["distinct"]
            ctx.log("TLC liveness (weak fairness): %d distinct states, %.1fs" % (rl["distinct"], rl["wall"]))
        ctx.cov["liveness_states"] = nl
        # the as-is deviation must be found by the same invariant (non-vacuity)
        ra = ctx.tlc("TimeWheel", None, name="asis", workers=4, timeout=600,
                     cfg_text=cfg(1, (0,), ((),), ("TRUE",), (1,), 1, devs=["AddCloseWindow"],
                                  tail="VIEW View\nINVARIANTS NoViolation\n"))
        if ra["invariant"] != "NoViolation":
            raise vlib.Infra("as-is model (AddCloseWindow) does not violate NoViolation: vacuous invariant "
                             "(%s, %s)" % (ra["invariant"], ra["error"]))
        ctx.cov["asis_counterexample_found"] = True
        if thorough:
            g = ctx.tlc("TimeWheel", None, name="simbig", workers=8, timeout=1500, simulate=2500, depth=260,   # num is per worker
                        cfg_text=cfg(4, (0, 1, 2), ((), ("p1",), ("p1", "p2"), ("p1", "p2", "p3")),
                                     ("TRUE", "FALSE"), (1, 2, 3), 3, tail="INVARIANTS NoViolation TypeOK OnceEach\n"))
            if not g["ok"]:
                raise vlib.Infra("simulation of the 4-producer design failed: %s %s" % (g["invariant"], g["error"]))
            ctx.cov["simulated_behaviours_4_producers"] = 20000

    # ---- (B) behaviours -------------------------------------------------------
    if replay:
        obj = json.load(open(replay))
        behs = [obj["behaviour"]]
        behs[0]["id"] = 1
    else:
        behs = []
        # delay-bounded schedules out of TLC (as the code is, so that the window is covered)
        gens = [(2, (0,), (("p1",),))]
        if thorough:
            gens += [(1, (0,), (("p1",),))]
        if thorough:
            gens += [(2, (0, 1), (("p1",), ()))]
        tlc_behs = []
        for (n, dues, retry) in gens:
            g = ctx.tlc("TimeWheel", None, name="gen%d%d" % (n, len(dues)), workers=4, timeout=1500,
                        cfg_text=cfg(n, dues, retry, ("TRUE",), (1,), 1 if len(dues) == 1 else 2,
                                     devs=dev_names, gen=True, db=2, tail="CHECK_DEADLOCK FALSE\n"))
            if not g["ok"]:
                raise vlib.Infra("behaviour generation failed: %s %s" % (g["invariant"], g["error"]))
            for tag, val in g["printed"]:
                if tag == "BEH":
                    tlc_behs.append(val)
        ctx.cov["tlc_delay_bounded_schedules"] = len(tlc_behs)
        if not tlc_behs:
            raise vlib.Infra("TLC produced no schedules")
        pick = vlib.sample(ctx.rng, tlc_behs, 6000 if thorough else 150)
        nq = 0
        for i, b in enumerate(map(scale, pick)):
            modes = ["wheel"]
            if all(v == 0 for v in b["cfg"]["due"].values()) and (not thorough or i % 5 == 0):
                modes.append("queue")       # thorough: every picked schedule on the wheel, every 5th also on the queue
            for mode in modes:
                rs = mode == "queue" and b["cfg"]["close"]
                c = dict(b["cfg"], mode=mode, hdr=[], restart=rs, left=list(RESIDUE[i % 3::3]) if rs else [])
                behs.append({"cfg": c, "pol": "list", "sched": b["sched"], "src": "tlc"})
        # delay positions applied directly to the code's non-preemptive schedule, and random schedules
        behs += directed(thorough)
        for sc in scenarios(thorough):
            horizon = 40 if len(sc["due"]) <= 2 else 60
            behs.append({"cfg": sc, "pol": "db", "delays": [], "src": "db"})
            for rot in ((0, 1) if thorough else (0,)):
                for i in range(horizon):
                    behs.append({"cfg": sc, "pol": "db", "delays": [i], "selrot": rot, "src": "db"})
            pairs = [(i, j) for i in range(horizon) for j in range(i + 1, horizon)]
            for (i, j) in vlib.sample(ctx.rng, pairs, 400 if thorough else 40):
                behs.append({"cfg": sc, "pol": "db", "delays": [i, j], "selrot": (i + j) % 3, "src": "db"})
            for k in range(150 if thorough else 30):
                behs.append({"cfg": sc, "pol": "rand", "seed": ctx.rng.randrange(1 << 30), "src": "rand"})
        for i, b in enumerate(behs):
            b["id"] = i + 1
    ctx.log("%d schedules to execute" % len(behs))

    # ---- execution on the instrumented real code ---------------------------------
    overlay = instrument(ctx, FILES)
    binary = ctx.build_harness("twcheck", overlay=overlay)
    events = run_shards_resilient(ctx, binary, behs)
    by_id = {b["id"]: b for b in behs}

    # binding self-test: a corrupted and a truncated copy of an accepted trace must be rejected
    selftest = {}
    if not replay:
        base = None
        for b in behs:
            evs = [e for e in events if e["t"] == b["id"]]
            if sum(1 for e in evs if e["e"] == "Dispatch") >= 2 and not any(e["e"] in ("AddPanic", "Panic") for e in evs) \
                    and not evs[-1]["broken"]:
                base = evs
                break
        if base:
            c1 = [dict(e, t=900001) for e in base]
            for e in c1:
                if e["e"] == "Dispatch":
                    e["now"] = e["now"] + 1      # corrupt one logged field
                    e["ndue"] = e["ndue"] + 1
                    break
            c2 = [dict(e, t=900002) for e in base]
            kdel = next(i for i, e in enumerate(c2) if e["e"] == "Dispatch")
            del c2[kdel]                          # drop one event
            events = events + c1 + c2
            selftest = {900001: "corrupt-field", 900002: "drop-event"}

    # the design's RetryDelay is a constant of the model: traces are validated in groups of equal initial retry
    # time (Cfg.rd), each against the design instantiated with it
    rd_of = {e["t"]: e.get("rd", SCALE) for e in events if e["e"] == "Cfg"}
    verdicts = {}
    for rd in sorted(set(rd_of.values())):
        tcfg = cfg(4, (0,), ((),), ("TRUE",), (1,), 1, devs=dev_names, spec="TSpec", rd=rd,
                   tail="CHECK_DEADLOCK FALSE\nPOSTCONDITION Post\n")
        verdicts.update(validate_parallel(ctx, "TimeWheelTrace", [project(e) for e in events if rd_of.get(e["t"]) == rd],
                                          tcfg, batch=150, par=8 if thorough else 6,
                                          tag="" if rd == SCALE else "rd%d-" % rd))
    by_t = {}
    for e in events:
        by_t.setdefault(e["t"], []).append(e)

    ok = drift = 0
    preds = {}
    known_n = 0
    for t, recs in sorted(verdicts.items()):
        conform = any(not r["drift"] for r in recs)
        mon = [r for r in recs if r["drift"]]
        viol = sorted(set(v for r in recs for v in r["viol"]))
        if t in selftest:
            if conform:
                raise vlib.Infra("binding self-test failed: %s trace was accepted" % selftest[t])
            continue
        if viol:
            dev = mon[0]["dev"] if mon else ""
            for v in viol:
                preds[v] = preds.get(v, 0) + 1
            if dev and dev in devs:
                f = devs[dev]
                known_n += 1
                ctx.known(f["id"], f["what"])
                continue
            what = "scheduler/shutdown history violates " + ",".join(viol)
            ctx.violation(what, {"property": PID, "behaviour": by_id[t], "trace": by_t[t],
                                 "violated": viol, "how": "bin/check C12 --replay <this file>"})
        elif conform:
            ok += 1
        else:
            drift += 1
            if drift <= 10:
                print("DRIFT property=%s trace=%d first-unexplained-seq=%s" % (PID, t, mon[0]["driftAt"] if mon else "?"))
    if selftest:
        ctx.cov["binding_selftest"] = "corrupted-field and dropped-event traces rejected"
    ctx.cov["traces_validated_against_impl"] = ok
    ctx.cov["drift_traces"] = drift
    ctx.cov["known_finding_traces"] = known_n
    ctx.cov["evaluations"] = len(behs)
    ctx.cov["distinct_nontrivial"] = sum(1 for b in behs if b.get("delays") or b.get("sched") or b.get("seed"))
    ctx.cov["rule"] = ("schedules = delay-bounded (<=2) schedules of TimeWheel.tla printed by TLC, executed on the "
                       "real TimeWheel (wheel mode) and the real Queue (queue mode); plus delay positions (0,1,2 "
                       "delays) on the code's own non-preemptive schedule and seeded random schedules, for "
                       "scenarios with 1-%d producers, retries, semaphore 1-2, with and without shutdown; "
                       "non-trivial = at least one pre-emption" % (4 if thorough else 3))
    ctx.cov["violated_predicates"] = preds
    for b in behs[:3]:
        ctx.cov["samples"].append({"behaviour": b, "trace": by_t.get(b["id"], [])[:40]})
    ctx.cov["exhaustive"] = False
    ctx.assumptions += [
        "one goroutine runs at a time (harness/vsched); scheduling points are the synchronisation operations "
        "found syntactically by harness/cmd/instrument; code between two points is treated as atomic",
        "critical sections (Lock..Unlock) are atomic steps",
        "time is the fake clock of a testing/synctest bubble, advanced only by the controller",
        "queue mode: a scripted target stands in for the downstream module",
        "TLC, CommunityModules Json reader, Go toolchain go1.26 are trusted",
    ]


META = {
    "engine": "twcheck",
    "level": "model_checking",
    "technique": "TLA+ spec TimeWheel.tla (Add/Close/tick and the queue's dispatch/Close wrapper at yield-point "
                 "granularity) model-checked by TLC incl. liveness; TLC-generated delay-bounded schedules, direct "
                 "delay-bounded and random schedules executed on the AST-instrumented real TimeWheel and Queue "
                 "under a deterministic yield-point scheduler; histories validated against TimeWheelTrace.tla "
                 "(predicates in TimeWheelObs.tla)",
    "text": "TLC visits every interleaving of 2 producers, one retrying attempt, the timer goroutine and one shutdown "
            "(thorough: dues {0,1}, with/without retry and shutdown, about 7e6 states; 4 producers x 3 attempts by "
            "simulation) and checks dispatched<=1, not early, no panic, no broken mark, nothing removed without "
            "outcome, termination of Add/Close and eventual dispatch under weak fairness. The same predicates are "
            "evaluated by TLC over histories recorded from the real code driven through delay-bounded (<=2) and "
            "random schedules of its synchronisation points.",
    "note": "Bounded: delay bound 2, 1-4 producers, 0-3 retrying attempts, one shutdown. Scheduling points are found "
            "syntactically; code between them and critical sections are atomic. Trusted: TLC, harness/vsched, the "
            "instrumenter, Go toolchain.",
    "design_ref": "DESIGN.md section 5 C12",
}
