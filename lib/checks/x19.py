"""X19 - which messages modify.dkim signs, for which domain and with which key.

(S) spec/DkimSelect.tla: decision table (pattern B) over configuration (domains in every spelling, sign_subdomains,
    require_sender_match, allow_multiple_from, key_path template, keys present / to be generated, canonicalization,
    newkey_algo) x message / session (envelope sender, From mailboxes, authorization identity, SMTPUTF8); the
    property as nine named predicates; the code's path as one action per call / decision (Init: directives,
    validation, keys; ModStateForMsg; RewriteSender; RewriteBody: pick, fold subdomain, keyed lookup, sender match,
    encode, sign; Close) with the code's deviations as named actions switched by Devs.
(T) TLC runs every row through the actions, checks the predicates on every final state and that the actions and
    the composed operator are one procedure, prints the rows; the as-is run must violate the property.
(B) harness/dkimselectcheck runs every row through the real modify.dkim and records what Init answered, the key
    files, the added signature's tags, which configured key verifies it (independent verifier), what else
    changed; spec/DkimSelectTrace.tla evaluates the predicates on it.
"""
import json
import os

import vlib
import vtable

PID = "X19"
ALL_DEVS = ["SenderMatchRefused", "SenderMatchSkipped", "SubdomainRawCompare", "RawToASCII"]

MC_CFG = """SPECIFICATION Spec
CONSTANTS
  Full = %(full)s
  Devs = {%(devs)s}
  Gen = %(gen)s
INVARIANTS %(inv)s
%(emit)s
CHECK_DEADLOCK FALSE
"""

TRACE_CFG = """SPECIFICATION TSpec
CONSTANTS
  Full = TRUE
  Devs = {}
  Gen = FALSE
  OpenDevs = {%(open)s}
CHECK_DEADLOCK FALSE
POSTCONDITION Post
"""


def q(names):
    return ", ".join('"%s"' % n for n in sorted(names))


def ext_entries():
    p = os.environ.get("VERIF_EXT_FINDINGS") or os.path.join(vlib.VERIF, "extensions", "findings.json")
    if not os.path.exists(p):
        return []
    return [f for f in json.load(open(p)).get("findings", []) if f.get("ext") == PID]


def short(i):
    c, x = i["c"], i["x"]
    return "[%s] domains=%s%s rsm=%s%s key_path=%s%s %s/%s %s | MAIL FROM:<%s> From: %s auth=%s%s" % (
        i["tab"], " ".join(x["domains"]), " sign_subdomains" if c["sub"] else "", " ".join(x["rsm"]) or "(default)",
        " allow_multiple_from" if c["amf"] else "", x["key_path"], "" if c["pre"] else " (no key files)", c["hc"], c["bc"],
        c["algo"], x["mailfrom"], x["fromhdr"] or "(none)", x["authuser"] or "(none)", " SMTPUTF8" if i["m"]["utf8"] else "")


def brief_out(o):
    return {k: o[k] for k in ("initErr", "err", "nsig", "d", "s", "key", "newkeys", "intact", "alg", "hc", "bc") if k in o}


def nontrivial(row):
    return row["must"] != "sign" or row["in"]["c"]["sub"] or len(row["in"]["c"]["doms"]) > 1


def run(ctx, replay):
    thorough = ctx.tier == "thorough"
    entries = ext_entries()
    open_by_dev = {}
    for e in entries:
        if e.get("status", "open") != "open":
            continue
        for d in e.get("match", {}).get("deviations", []):
            open_by_dev[d] = e

    # ---- (T) + rows ---------------------------------------------------------
    if replay:
        obj = json.load(open(replay))
        if "row" not in obj or "in" not in obj["row"]:
            raise vlib.Infra("replay file is not a row of DkimSelect.tla")
        rows = [obj["row"]]
        rows[0]["id"] = 1
    else:
        full = "TRUE" if thorough else "FALSE"
        inv = "RuleSatisfiesProp ActionsAreRule" + (" SpellingBlind" if thorough else "")
        r = ctx.tlc_expect_ok("DkimSelect", None, name="mc", workers=4, timeout=900, coverage=thorough,
                              cfg_text=MC_CFG % dict(full=full, devs="", gen="TRUE", inv=inv, emit="CONSTRAINT Emit"))
        rows = vtable.rows_from(r)
        ctx.cov["states"] = r["distinct"]
        ctx.cov["transitions"] = r["generated"]
        ctx.cov["model_depth"] = r["depth"]
        ctx.log("TLC: %d states, %d input rows; the predicates hold on every final state, %.1fs" % (
            r["distinct"], len(rows), r["wall"]))
        if not rows:
            raise vlib.Infra("TLC printed no rows")
        ra = ctx.tlc("DkimSelect", None, name="asis", workers=2, timeout=600,
                     cfg_text=MC_CFG % dict(full="FALSE", devs=q(ALL_DEVS), gen="FALSE", inv="AsIsSatisfiesProp ActionsAreRule", emit=""))
        if ra["invariant"] != "AsIsSatisfiesProp":
            raise vlib.Infra("as-is model does not violate the property: predicates vacuous? (%s)" % ra["error"])
        ctx.cov["asis_counterexample_found"] = True
    sel = rows
    by_id = {row["id"]: row for row in sel}

    # ---- (B) the real code ------------------------------------------------------
    binary = ctx.build_harness("dkimselectcheck")
    items = [{"id": row["id"], "in": row["in"]} for row in sel]
    if not replay:
        ctx.rng.shuffle(items)
    events = ctx.run_shards(binary, items, shards=4, timeout=900,
                            env_extra={"VERIF_SHOW": "1"} if replay else None)
    events = [e for e in events if e["e"] == "Row"]
    ctx.log("real code answered %d rows" % len(events))
    if len(events) != len(sel):
        raise vlib.Infra("harness answered %d of %d rows" % (len(events), len(sel)))
    ev_by_t = {e["t"]: e for e in events}

    # binding self-test: forged outputs must be rejected and not explained by a deviation
    selftest = {}
    if not replay:
        def forge(t, pred, chg):
            for e in events:
                if pred(by_id[e["t"]], e):
                    f = json.loads(json.dumps(e))
                    f["t"] = t
                    chg(f["out"])
                    return f
            return None

        def signed2(row, e):
            return e["out"]["nsig"] == 1 and len(row["in"]["c"]["doms"]) == 2 and row["must"] == "sign"

        forged = [
            (900001, "d= of a signed message turned into another configured domain",
             forge(900001, signed2, lambda o: o.update(d="other.example", auid="@other.example"))),
            (900002, "selector changed", forge(900002, signed2, lambda o: o.update(s="sel2"))),
            (900003, "signature verified by the other domain's key",
             forge(900003, signed2, lambda o: o.update(key=3 - o["key"]))),
            (900004, "a message that must be signed passed on unsigned",
             forge(900004, signed2, lambda o: o.update(nsig=0, d="", auid="", s="", key=0, hc="", bc="", alg="", dascii=False))),
            (900005, "unsigned message reported as failed",
             forge(900005, lambda row, e: e["out"]["nsig"] == 0 and not e["out"]["initErr"] and row["must"] == "pass",
                   lambda o: o.update(err=True))),
            (900006, "message of a domain that is not configured signed for the first domain",
             forge(900006, lambda row, e: e["out"]["nsig"] == 0 and not e["out"]["initErr"] and row["must"] == "pass"
                   and row["in"]["x"]["mailfrom"].endswith("@other.example") and row["in"]["c"]["algo"] == "ed25519"
                   and row["in"]["x"]["domains"][0] == "example.org",
                   lambda o: o.update(nsig=1, d="example.org", auid="@example.org", dascii=True, s="sel", key=1,
                                      hc="relaxed", bc="relaxed", alg="ed25519-sha256"))),
        ]
        for t, what, f in forged:
            if f is None:
                continue
            selftest[t] = what
            events = events + [f]
        if len(selftest) < 3:
            raise vlib.Infra("binding self-test: only %d base rows for forged outputs" % len(selftest))
        f = json.loads(json.dumps(events[0]))
        f["t"] = 900009
        f["in"]["x"]["mailfrom"] = "mallory@example.org"
        selftest[900009] = "row that is not a row of the specification"
        events = events + [f]

    verdicts, accepted = vtable.validate_rows(ctx, "DkimSelectTrace", TRACE_CFG % dict(open=q(open_by_dev)),
                                              events, batch=800, par=4, timeout=900)
    ctx.log("TLC evaluated %d recorded rows: %d accepted as conforming" % (len(events), accepted))
    for t, what in selftest.items():
        v = verdicts.get(t)
        if not v or not v["viol"] or v["devs"]:
            raise vlib.Infra("binding self-test failed: forged row (%s) was accepted or explained by a deviation" % what)
        del verdicts[t]
    if selftest:
        ctx.cov["binding_selftest"] = "forged rows rejected: " + "; ".join(selftest.values())

    # ---- verdicts ------------------------------------------------------------------
    drift, finding_rows, preds = 0, {}, {}
    for t, v in sorted(verdicts.items()):
        row, ev = by_id[t], ev_by_t[t]
        o = ev["out"]
        if "UnknownRow" in v["viol"]:
            raise vlib.Infra("row %d came back changed from the harness (not a row of DkimSelect.tla)" % t)
        devsets = sorted((sorted(d) for d in v["devs"]), key=lambda d: (len(d), d))
        minimal = devsets[0] if devsets else None
        explained = minimal is not None and all(d in open_by_dev for d in minimal)
        if explained and v["viol"]:
            allowed = set()
            for d in minimal:
                allowed |= set(open_by_dev[d]["match"].get("predicates", []))
            explained = set(v["viol"]) <= allowed
        if v["viol"] and not explained:
            for p in v["viol"]:
                preds[p] = preds.get(p, 0) + 1
            what = "modify.dkim violates %s: %s -> %s (documented: %s)" % (
                ",".join(sorted(v["viol"])), short(row["in"]), json.dumps(brief_out(o))[:500], row["must"])
            ctx.violation(what, {"property": PID, "row": row, "out": o, "violated": sorted(v["viol"]),
                                 "how": "bin/check X19 --replay <this file>"})
        elif explained:
            for fid in sorted({open_by_dev[d]["id"] for d in minimal}):
                e = [open_by_dev[d] for d in minimal if open_by_dev[d]["id"] == fid][0]
                k = finding_rows.setdefault(fid, {"rows": 0, "violating_rows": 0, "predicates": {},
                                                  "example": None, "what": e["what"]})
                k["rows"] += 1
                if v["viol"]:
                    k["violating_rows"] += 1
                    for p in v["viol"]:
                        k["predicates"][p] = k["predicates"].get(p, 0) + 1
                    if k["example"] is None:
                        k["example"] = {"in": short(row["in"]), "out": brief_out(o), "documented": row["must"],
                                        "violated": sorted(v["viol"])}
        else:
            drift += 1
            if drift <= 10:
                print("DRIFT property=X19 row=%d %s out=%s procedure=%s" % (
                    t, short(row["in"]), json.dumps(brief_out(o))[:400], json.dumps(row.get("exp"))[:400]))
    if replay:
        o = events[0]["out"]
        v = verdicts.get(events[0]["t"])
        print("REPLAY ext=X19 row: %s" % short(rows[0]["in"]))
        print("REPLAY ext=X19 documented: %s" % rows[0].get("must"))
        print("REPLAY ext=X19 real code: %s" % json.dumps(o))
        print("REPLAY ext=X19 verdict of TLC: %s" % (
            "conforms" if v is None else "violated=%s differs-from-procedure=%s explained-by-deviations=%s" % (
                sorted(v["viol"]), v["drift"], sorted(sorted(d) for d in v["devs"]))))
    for fid, k in sorted(finding_rows.items()):
        print("EXT-FINDING: ext=%s %s %s (%d rows, %d violating)" % (PID, fid, k["what"], k["rows"], k["violating_rows"]))
    ctx.cov["traces_validated_against_impl"] = accepted
    ctx.cov["drift_traces"] = drift
    ctx.cov["ext_finding_rows"] = finding_rows
    ctx.cov["evaluations"] = len(sel)
    ctx.cov["distinct_nontrivial"] = sum(1 for row in sel if nontrivial(row))
    tabs, musts = {}, {}
    for row in sel:
        tabs[row["in"]["tab"]] = tabs.get(row["in"]["tab"], 0) + 1
        musts[row["must"]] = musts.get(row["must"], 0) + 1
    ctx.cov["rows_by_table"] = tabs
    ctx.cov["rows_by_documented_decision"] = musts
    ctx.cov["violated_predicates"] = preds
    ctx.cov["exhaustive"] = thorough
    ctx.cov["rule"] = ("rows = initial states of DkimSelect.tla: env (9-11 domain configurations in every spelling x "
                       "sign_subdomains x every envelope sender: null, postmaster, every spelling of every domain, "
                       "subdomains, a look-alike suffix, a foreign domain x SMTPUTF8), match (require_sender_match x "
                       "allow_multiple_from x 5 envelope senders x 8 From shapes x 8 authorization identities), rsm (the "
                       "directive in every value), cfg (key_path template x keys present / generated x canonicalizations "
                       "x newkey_algo); every row of the tier's tables runs through the real code (thorough: more configurations, every "
                       "require_sender_match value in the match table); "
                       "non-trivial = not a plain must-sign row of a one-domain configuration")
    for tab in ("env", "match", "rsm", "cfg"):
        c = [row for row in sel if row["in"]["tab"] == tab]
        if c:
            row = c[len(c) // 3]
            ctx.cov["samples"].append({"in": short(row["in"]), "documented": row["must"], "procedure": row["exp"],
                                       "out": brief_out(ev_by_t[row["id"]]["out"])})
    ctx.assumptions += [
        "the modifier is driven directly (New, Init on config nodes, ModStateForMsg with a hand-made MsgMetadata / "
        "ConnState, RewriteSender, RewriteRcpt, RewriteBody, Close), not through an endpoint: what an endpoint would "
        "refuse earlier (a U-label in an envelope without SMTPUTF8) is not in the table",
        "key files are ed25519 keys written by the harness (or generated by Init where the row says so); the key a "
        "signature was made with is found with the independent verifier of C08 (a copy of harness/dkimcheck/indep.go)",
        "non-ASCII characters travel as the tokens {u} {U} {d}; the specification holds ASCII only",
        "TLC 1.8.0, CommunityModules Json",
    ]


META = {
    "engine": "dkimselectcheck",
    "level": "model_checking",
    "technique": "TLA+ spec DkimSelect.tla (property predicates, the code's path as one action per call, named deviations) "
                 "checked by TLC on every row; every row run through the real modify.dkim; recorded configuration answer, "
                 "key files, signature tags, verifying key and header evaluated by TLC (DkimSelectTrace.tla)",
    "statement": "For every modify.dkim configuration - one or two domains in any spelling (letter case, A-labels, U-labels "
                 "in lower / upper case or NFD), sign_subdomains, require_sender_match (not given = `envelope auth`, off, "
                 "envelope, auth, both), allow_multiple_from, a key_path template with {domain} / {selector}, keys present "
                 "or to be generated (newkey_algo), header_canon / body_canon - and every message and session - null "
                 "reverse-path, postmaster, an envelope sender in any spelling of a configured domain, of a subdomain, of a "
                 "look-alike or foreign domain; a From field with no, one or several mailboxes; no authorization identity, "
                 "a bare user name or a full address; with or without SMTPUTF8: (1) Init accepts exactly the documented "
                 "configurations (sign_subdomains allows only one domain) and reads or creates exactly the key files "
                 "key_path names; (2) the message leaves with exactly one DKIM-Signature when the envelope sender's domain "
                 "(the first domain for the null and postmaster addresses; the configured domain for its subdomains with "
                 "sign_subdomains) is among the configured domains and every selected require_sender_match condition holds "
                 "(From - its only or, with allow_multiple_from, first mailbox - equals MAIL FROM, equals the "
                 "authorization identity, by local part only if that has no domain; case-insensitively), and with none "
                 "when the domain is not configured or a selected condition fails - nobody gets a signature of a domain "
                 "he is not entitled to; (3) d= (and i=) name the matched configured domain - the organisational one with "
                 "sign_subdomains -, in A-labels unless the message is SMTPUTF8, s= is the configured selector, the "
                 "signature verifies under the key of that domain's key file and uses the configured canonicalizations; (4) "
                 "a message that is not signed is passed on unchanged, a signed one is unchanged below the signature, and "
                 "the modifier never fails the delivery; (5) all spellings of one domain decide identically.",
    "text": "TLC runs 2.2k (quick) / 5k+ (thorough) rows through the actions of DkimSelect.tla, checks the nine predicates "
            "on every final state and evaluates the same predicates on what the real modify.dkim did for the rows.",
    "note": "Whether signatures survive the queue and SMTP is C08; oversign_fields / sign_fields / sig_expiry are "
            "outside; where the documentation is silent (sender match for the null reverse-path, for sessions without an "
            "authorization identity) nothing is demanded about signing, only about d= / s= / key if a signature is made.",
    "design_ref": "extensions/X19.md",
}
