"""X18 - the IMAP endpoint's login path (LOGIN / AUTHENTICATE PLAIN, auth_map / storage_map and their
normalisation, storage.imapsql account selection, LOGINDISABLED / STARTTLS rule, io_debug, Close) and
imap.filter.command (argument templates, stdin, output -> folder / flags, exit status).

(S) spec/ImapLogin.tla: decision tables (pattern B): login (configuration x spelling of the account name x
    password x mechanism), tls (TLS configured x insecure_auth x STARTTLS done x io_debug x mechanism x
    password), close, flt (template x values x output x exit status).  Prop = named predicates, Rule = the
    documented procedure, RuleD(devs) = with the code's named deviations.
(T) TLC enumerates every row, checks Prop(in, Rule(in)) and two theorems about the documented chain, prints
    the rows with the world each needs; the as-is run (deviation on) must violate Prop.
(B) harness/imaplogincheck runs the rows through the real endpoint (go-imap server, unix socket) over the
    real storage.imapsql with the real go-imap client, and the real imap.filter.command (direct call and
    inside a real delivery); spec/ImapLoginTrace.tla evaluates Prop on what the code did.
"""
import json
import os

import vlib
import vtable

PID = "X18"

MC_CFG = """SPECIFICATION Spec
CONSTANTS
  Tab = "%(tab)s"
  Full = %(full)s
  Devs = {%(devs)s}
  Gen = %(gen)s
INVARIANTS %(inv)s
%(emit)s
CHECK_DEADLOCK FALSE
"""

TRACE_CFG = """SPECIFICATION TSpec
CONSTANTS
  Tab = "all"
  Full = TRUE
  Devs = {}
  Gen = FALSE
  OpenDevs = {%(open)s}
CHECK_DEADLOCK FALSE
POSTCONDITION Post
"""

ALL_DEVS = ["OrigRcptCycle"]
CFG_KEYS = ("an", "am", "sn", "sm", "bn")


def q(names):
    return ", ".join('"%s"' % n for n in sorted(names))


def ext_entries():
    p = os.environ.get("VERIF_EXT_FINDINGS") or os.path.join(vlib.VERIF, "extensions", "findings.json")
    if not os.path.exists(p):
        return []
    return [f for f in json.load(open(p)).get("findings", []) if f.get("ext") == PID]


def group_key(row):
    i = row["in"]
    if i["tab"] == "login":
        return ("login",) + tuple(i[k] for k in CFG_KEYS)
    if i["tab"] in ("tls", "close"):
        return ("tls", i["tls"], i["ins"], i.get("iod", "*"))
    return ("flt", i["tpl"])


def make_groups(rows):
    """One harness item per configuration (one endpoint / one storage each)."""
    groups, order = {}, []
    for row in rows:
        k = group_key(row)
        if k[0] == "tls" and k[3] == "*":
            continue
        if k not in groups:
            groups[k] = []
            order.append(k)
        groups[k].append(row)
    # a close row goes to the io_debug=no group of its (tls, insecure_auth) configuration (or the first one there is)
    for row in rows:
        if row["in"]["tab"] == "close":
            i = row["in"]
            cands = [k for k in order if k[0] == "tls" and k[1] == i["tls"] and k[2] == i["ins"]]
            if not cands:
                k = ("tls", i["tls"], i["ins"], "no")
                groups[k] = []
                order.append(k)
                cands = [k]
            groups[sorted(cands)[0]].append(row)
    items = []
    for n, k in enumerate(order):
        rs = groups[k]
        if k[0] == "login":
            cfg = dict(zip(CFG_KEYS, k[1:]))
        elif k[0] == "tls":
            cfg = {"tls": k[1], "ins": k[2], "iod": k[3]}
        else:
            cfg = {"tpl": k[1]}
        items.append({"id": 1000000 + n, "kind": k[0], "cfg": cfg,
                      "rows": [{"id": r["id"], "in": r["in"], "world": r["world"]} for r in rs]})
    return items


def nontrivial(row):
    i = row["in"]
    if i["tab"] == "login":
        return i["sp"] != "u" or i["am"] != "none" or i["sm"] != "none"
    if i["tab"] == "flt":
        return i["vals"] != "v1" or i["rc"] != 0
    return True


def run(ctx, replay):
    thorough = ctx.tier == "thorough"
    entries = ext_entries()
    open_by_dev = {e["match"]["deviation"]: e for e in entries
                   if e.get("status", "open") == "open" and "deviation" in e.get("match", {})}

    # ---- (T) + rows ---------------------------------------------------------------
    if replay:
        obj = json.load(open(replay))
        rows = obj["rows"] if "rows" in obj else [obj["row"]]
        for n, row in enumerate(rows):
            row["id"] = n + 1
    else:
        r = ctx.tlc_expect_ok("ImapLogin", None, name="mc", workers=4, timeout=900,
                              cfg_text=MC_CFG % dict(tab="all", full="TRUE", devs="", gen="TRUE",
                                                     inv="RuleSatisfiesProp AuthIndependentOfStorage NormalisedNamesDecide",
                                                     emit="CONSTRAINT Emit"))
        rows = vtable.rows_from(r)
        if len(rows) != r["distinct"] - 1:
            raise vlib.Infra("TLC printed %d distinct rows for %d states" % (len(rows), r["distinct"]))
        ctx.cov["states"] = r["distinct"]
        ctx.cov["transitions"] = r["generated"]
        ctx.cov["model_depth"] = r["depth"]
        ctx.log("TLC: %d input rows; Prop(in, Rule(in)) and the chain theorems hold on all, %.1fs" % (len(rows), r["wall"]))
        for dev in ALL_DEVS:
            ra = ctx.tlc("ImapLogin", None, name="asis-" + dev, workers=2, timeout=600,
                         cfg_text=MC_CFG % dict(tab="flt", full="FALSE", devs=q([dev]), gen="FALSE",
                                                inv="AsIsSatisfiesProp", emit=""))
            if ra["invariant"] != "AsIsSatisfiesProp":
                raise vlib.Infra("as-is model (%s) does not violate the property: predicates vacuous? (%s)" % (
                    dev, ra["error"]))
        ctx.cov["asis_counterexamples_found"] = ALL_DEVS
        if thorough:
            rc = ctx.tlc("ImapLogin", None, name="cov", workers=1, timeout=900, coverage=True,
                         cfg_text=MC_CFG % dict(tab="all", full="TRUE", devs="", gen="FALSE",
                                                inv="RuleSatisfiesProp", emit=""))
            vac = []
            import re
            # the four Pick* actions are the disjuncts of Next: one coverage line each, "<Next line .. (l c l c)>: n:m"
            acts = re.findall(r"^<(Next) line [^>]*\((\d+) \d+ \d+ \d+\)>: (\d+):(\d+)", rc["out"], re.M)
            if len(acts) != 4:
                raise vlib.Infra("coverage run reports %d actions of Next, expected 4 (see %s/tlc.out)" % (len(acts), rc["dir"]))
            for name, line, gen, dist in acts:
                if int(gen) == 0:
                    vac.append("%s@line%s" % (name, line))
            ctx.cov["action_counts"] = {"Next@line" + line: int(gen) for _, line, gen, _ in acts}
            ctx.cov["vacuous_actions"] = vac
            if vac:
                raise vlib.Infra("actions never taken in the exhaustive configuration: %s" % vac)

    items = make_groups(rows)
    if not replay and not thorough:
        # quick: every tls / close / filter group, a seeded sample of the login configurations (always the
        # documented default and the email_localpart example)
        login = [g for g in items if g["kind"] == "login"]
        rest = [g for g in items if g["kind"] != "login"]
        fixed = [g for g in login if g["cfg"] in (
            dict(an="auto", am="none", sn="auto", sm="none", bn="auto"),
            dict(an="auto", am="lp", sn="auto", sm="lp", bn="auto"),
            dict(an="noop", am="none", sn="noop", sm="none", bn="noop"),
            dict(an="precis_email", am="static", sn="precis_email", sm="static", bn="auto"))]
        others = [g for g in login if g not in fixed]
        items = rest + fixed + vlib.sample(ctx.rng, others, 20)
    sel = [r for g in items for r in g["rows"]]
    by_id = {row["id"]: row for row in rows}
    ctx.log("%d rows in %d configurations to run through the real code" % (len(sel), len(items)))

    # ---- (B) the real code ----------------------------------------------------------
    binary = ctx.build_harness("imaplogincheck")
    if not replay:
        ctx.rng.shuffle(items)
        for g in items:
            ctx.rng.shuffle(g["rows"])     # the order of the sessions of one endpoint must not matter
    events = ctx.run_shards(binary, items, timeout=1500, shards=4)
    row_events = [e for e in events if e["e"] == "Row"]
    group_events = [e for e in events if e["e"] == "Group"]
    ctx.log("real code answered %d rows, %d configuration summaries" % (len(row_events), len(group_events)))
    if len(row_events) != len(sel):
        raise vlib.Infra("harness answered %d of %d rows" % (len(row_events), len(sel)))
    ev_by_t = {e["t"]: e for e in events}
    grp_by_id = {g["id"]: g for g in items}

    # binding self-test: forged outputs (built from the rule's output) must be rejected and not explained
    selftest = {}
    extra = []
    if not replay:
        def forge(t, what, pred, chg):
            for e in row_events:
                row = by_id[e["t"]]
                if pred(row):
                    f = json.loads(json.dumps(e))
                    f["t"] = t
                    f["out"] = json.loads(json.dumps(row["exp"]))
                    chg(f["out"], row)
                    selftest[t] = what
                    extra.append(f)
                    return
            raise vlib.Infra("binding self-test: no base row for '%s'" % what)

        lg = lambda row: row["in"]["tab"] == "login"
        forge(9000001, "another user's account opened",
              lambda row: lg(row) and row["exp"]["v"] == "ok" and row["exp"]["acct"] == "u",
              lambda o, row: o.update(acct="o"))
        forge(9000002, "wrong password accepted",
              lambda row: lg(row) and row["in"]["pw"] == "wrong" and row["in"]["mech"] == "login",
              lambda o, row: o.update(v="ok", acct="u"))
        forge(9000003, "provider asked about the unmapped name",
              lambda row: lg(row) and row["in"]["am"] == "lp" and row["in"]["sp"] == "u" and row["exp"]["pc"],
              lambda o, row: o.update(pc=[{"n": "u", "same": True}]))
        forge(9000004, "credentials accepted before TLS",
              lambda row: row["in"]["tab"] == "tls" and row["exp"]["ld"] and row["in"]["pw"] == "match",
              lambda o, row: o.update(v="ok", pc=1))
        forge(9000005, "placeholder inside a value expanded again",
              lambda row: row["in"]["tab"] == "flt" and row["in"]["vals"] == "v2" and row["in"]["tpl"] == "t2",
              lambda o, row: o.update(args=[a.replace("{account_name}", "user@example.org") for a in o["args"]]))
        forge(9000006, "message lost after a failing filter",
              lambda row: row["in"]["tab"] == "flt" and row["in"]["rc"] == 1 and row["in"]["vals"] == "v1",
              lambda o, row: o.update(land={"n": 0, "box": "", "flags": []}))
        if group_events:
            f = json.loads(json.dumps(group_events[0]))
            f["t"] = 9000007
            f["cfg"] = dict(an="auto", am="none", sn="auto", sm="none", bn="auto")
            f["pairs"] = [{"sp": "u", "acct": "u"}, {"sp": "o", "acct": "u"}, {"sp": "uC", "acct": "uC"}]
            selftest[9000007] = "two users in one account, one user in two"
            extra.append(f)

    verdicts, accepted = vtable.validate_rows(ctx, "ImapLoginTrace", TRACE_CFG % dict(open=q(open_by_dev)),
                                              events + extra, batch=6000, par=3, timeout=1200)
    ctx.log("TLC evaluated %d recorded lines: %d accepted as conforming" % (len(events) + len(extra), accepted))
    for t, what in selftest.items():
        v = verdicts.get(t)
        if not v or not v["viol"] or v["devs"]:
            raise vlib.Infra("binding self-test failed: forged line (%s) was accepted or explained by a deviation" % what)
        del verdicts[t]
    if selftest:
        ctx.cov["binding_selftest"] = "forged lines rejected: " + "; ".join(selftest.values())

    # ---- verdicts ----------------------------------------------------------------------
    drift = 0
    finding_rows = {}
    preds = {}
    for t, v in sorted(verdicts.items()):
        ev = ev_by_t[t]
        if ev["e"] == "Group":
            g = grp_by_id[t]
            what = "IMAP login: accounts of one configuration violate %s: cfg=%s pairs=%s" % (
                ",".join(sorted(v["viol"])), json.dumps(ev["cfg"], sort_keys=True), json.dumps(ev["pairs"]))
            for p in v["viol"]:
                preds[p] = preds.get(p, 0) + 1
            ctx.violation(what, {"property": PID, "rows": [by_id[r["id"]] for r in g["rows"]], "violated": sorted(v["viol"]),
                                 "how": "bin/check X18 --replay <this file>"})
            continue
        row = by_id[t]
        o = ev["out"]
        devsets = sorted((sorted(d) for d in v["devs"]), key=lambda d: (len(d), d))
        minimal = devsets[0] if devsets else None
        explained = minimal is not None and all(d in open_by_dev for d in minimal)
        if explained and v["viol"]:
            allowed = set()
            for d in minimal:
                allowed |= set(open_by_dev[d]["match"].get("predicates", []))
            explained = set(v["viol"]) <= allowed
        if v["viol"] and not explained:
            for p in v["viol"]:
                preds[p] = preds.get(p, 0) + 1
            what = "%s violates %s: in=%s out=%s expected=%s %s" % (
                {"login": "IMAP login", "tls": "IMAP credentials/TLS rule", "close": "IMAP endpoint Close",
                 "flt": "imap.filter.command"}[row["in"]["tab"]],
                ",".join(sorted(v["viol"])), json.dumps(row["in"], sort_keys=True), json.dumps(o, sort_keys=True)[:600],
                json.dumps(row["exp"], sort_keys=True)[:400], (ev.get("errText") or "")[:160])
            ctx.violation(what, {"property": PID, "row": row, "out": o, "violated": sorted(v["viol"]),
                                 "how": "bin/check X18 --replay <this file>"})
        elif explained:
            for d in minimal:
                e = open_by_dev[d]
                k = finding_rows.setdefault(e["id"], {"rows": 0, "violating_rows": 0, "predicates": {},
                                                      "example": None, "what": e["what"]})
                k["rows"] += 1
                if v["viol"]:
                    k["violating_rows"] += 1
                    for p in v["viol"]:
                        k["predicates"][p] = k["predicates"].get(p, 0) + 1
                    if k["example"] is None:
                        k["example"] = {"in": row["in"], "out": o, "expected": row["exp"], "violated": sorted(v["viol"])}
        else:
            drift += 1
            if drift <= 10:
                print("DRIFT property=X18 row=%d in=%s out=%s expected=%s" % (
                    t, json.dumps(row["in"], sort_keys=True), json.dumps(o, sort_keys=True)[:500],
                    json.dumps(row["exp"], sort_keys=True)[:500]))
    if replay:
        for e in row_events[:5]:
            v = verdicts.get(e["t"])
            print("REPLAY ext=X18 in=%s" % json.dumps(e["in"], sort_keys=True))
            print("REPLAY ext=X18 real code: %s %s" % (json.dumps(e["out"], sort_keys=True), e.get("errText") or ""))
            print("REPLAY ext=X18 documented: %s" % json.dumps(by_id[e["t"]].get("exp"), sort_keys=True))
            print("REPLAY ext=X18 verdict of TLC: %s" % (
                "conforms to the documented rule" if v is None else
                "violated=%s differs-from-documented-rule=%s explained-by-deviations=%s" % (
                    sorted(v["viol"]), v["drift"], sorted(sorted(d) for d in v["devs"]))))
    for fid, k in sorted(finding_rows.items()):
        print("EXT-FINDING: ext=%s %s %s (%d rows, %d violating)" % (PID, fid, k["what"], k["rows"], k["violating_rows"]))
    ctx.cov["traces_validated_against_impl"] = accepted - 0
    ctx.cov["drift_traces"] = drift
    ctx.cov["ext_finding_rows"] = finding_rows
    ctx.cov["evaluations"] = len(sel)
    ctx.cov["distinct_nontrivial"] = sum(1 for row in sel if nontrivial(by_id[row["id"]]))
    tabs = {}
    for row in sel:
        tabs[row["in"]["tab"]] = tabs.get(row["in"]["tab"], 0) + 1
    ctx.cov["rows_by_table"] = tabs
    ctx.cov["configurations"] = len(items)
    ctx.cov["violated_predicates"] = preds
    ctx.cov["exhaustive"] = bool(thorough)
    ctx.cov["rule"] = ("rows = states of ImapLogin.tla: login (119 configurations of auth_map_normalize / auth_map / "
                       "storage_map_normalize / storage_map / storage auth_normalize x 13 spellings x 3 passwords x 4 "
                       "mechanisms), tls (72), close (6), flt (6 templates x 5 value sets x 6 outputs x 3 exit codes, 450); "
                       "thorough: all; quick: every tls / close / flt row and 24 login configurations (4 fixed + a seeded "
                       "sample of 20); non-trivial = not the plain spelling under identity maps / not a benign value set "
                       "with exit 0")
    picks = []
    for tab in ("login", "tls", "flt"):
        c = [row for row in sel if row["in"]["tab"] == tab]
        if c:
            picks.append(c[len(c) // 3])
    for row in picks:
        ctx.cov["samples"].append({"in": row["in"], "expected": by_id[row["id"]]["exp"], "out": ev_by_t[row["id"]]["out"]})
    ctx.assumptions += [
        "the authentication provider is scripted (exact, case-sensitive credentials); real providers are X09 / C14",
        "form <-> text: the harness maps the 21 concrete strings of the specification's forms; an unknown string is 'other'",
        "the endpoint listens on a unix socket (STARTTLS on the same listener); implicit-TLS listeners are not driven",
        "storage account names are case-insensitive in go-imap-sql (lower-cased): modelled, from the code",
        "TLC 1.8.0, CommunityModules Json",
    ]


META = {
    "engine": "imaplogincheck",
    "level": "model_checking",
    "technique": "TLA+ spec ImapLogin.tla (decision tables: property predicates, documented rule, named deviations) "
                 "enumerated by TLC; every row run through the real IMAP endpoint (go-imap server and client, unix "
                 "socket, STARTTLS) on the real storage.imapsql and through the real imap.filter.command; recorded "
                 "behaviour evaluated by TLC (ImapLoginTrace.tla)",
    "statement": "For every spelling of an account name (case, NFC/NFD, full-width, IDN domain as A-label or U-label, with "
                 "or without domain, a name PRECIS refuses), every auth_map_normalize / storage_map_normalize function, "
                 "every auth_map / storage_map table (absent, email_localpart_optional, a static table) and both settings "
                 "of the storage's auth_normalize: an IMAP LOGIN or AUTHENTICATE PLAIN succeeds exactly when the "
                 "authentication provider holds the presented password for the name obtained by auth_map_normalize and "
                 "auth_map (storage_map never changes who is authenticated; an authorisation identity other than the "
                 "user name is refused), and the name has a storage account; the provider is asked about exactly that "
                 "name with exactly the presented password; the storage account the session works on is the one "
                 "storage_map names for the normalised user name - never another one -, two spellings the configured "
                 "chain equates open the same account and two it distinguishes never do; a name a normalisation "
                 "function refuses or a table does not list is refused with NO. On a connection without TLS, with TLS "
                 "configured and insecure_auth off, LOGINDISABLED is advertised, AUTH=PLAIN is not, STARTTLS is, and "
                 "credentials sent anyway are refused without reaching the provider; after STARTTLS, with insecure_auth "
                 "on, or with TLS disabled they are judged; without io_debug the password never appears in the log; "
                 "Close stops listening and ends open sessions. imap.filter.command receives exactly the configured "
                 "arguments with each documented placeholder replaced once by its value (a value containing a "
                 "placeholder or shell syntax is passed literally as one argument), reads exactly header and body on "
                 "stdin, its first output line is the folder and the others the flags when it exits with 0, a failing "
                 "command has no effect, it always answers, and the message is stored exactly once whatever the command "
                 "does.",
    "text": "TLC enumerates the 19,092 rows of ImapLogin.tla, checks the property predicates and two theorems on the "
            "documented rule, and evaluates the same predicates on what the real endpoint / storage / filter did for "
            "every selected row (which account a session saw is read from the database).",
    "note": "Authentication provider scripted; implicit-TLS listeners, PROXY protocol, SASL LOGIN and a time-out of the "
            "filter command (the code has none) are not covered.",
    "design_ref": "extensions/X18.md",
}
