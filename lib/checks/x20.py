"""X20 - the target.smtp / target.lmtp forwarder as configured: endpoint selection,
TLS / authentication policy and connection life-cycle.

(S) spec/SmtpForward.tla (pattern A): one configuration (module kind, endpoints tcp:// tls:// unix://,
    starttls / attempt_starttls / require_tls, auth off|plain|forward|external, the source session) x the
    behaviour of every configured next hop during connection set-up x the replies to AUTH, MAIL, RCPT,
    DATA and the final dot x one delivery (Start, AddRcpt*, Body|BodyNonAtomic, Commit|Abort);
    spec/SmtpForwardObs.tla: the property predicates over wire events and returned classes.
(T) TLC checks NoViolation exhaustively on focused configurations (deviations off) and must find a
    counterexample with the deviations of the as-is code on.
(B) TLC-generated behaviours are replayed on the real module (NewDownstream + Init from configuration nodes)
    against scripted next hops on loopback TCP / implicit TLS / unix sockets; the recorded events are
    validated by TLC against spec/SmtpForwardTrace.tla (same Obs predicates).
"""
import concurrent.futures
import json
import os

import vlib

PID = "X20"

CFG = """SPECIFICATION %(spec)s
CONSTANTS
  Kinds = {%(kinds)s}
  Schemes = {%(schemes)s}
  MaxEp = %(maxep)d
  Outs = {%(outs)s}
  StlsDirs = {%(stls)s}
  RtlsDirs = {%(rtls)s}
  Auths = {%(auths)s}
  Srcs = {%(srcs)s}
  AuthRs = {%(authrs)s}
  MailRs = {%(mailrs)s}
  RcptRs = {%(rcptrs)s}
  BodyRs = {%(bodyrs)s}
  MaxRcpt = %(maxrcpt)d
  Devs = {%(devs)s}
  Gen = %(gen)s
%(tail)s
"""
MC_TAIL = "VIEW View\nINVARIANTS NoViolation TypeOK\nCHECK_DEADLOCK FALSE\n"
GEN_TAIL = "CHECK_DEADLOCK FALSE\n"
TRACE_TAIL = "CHECK_DEADLOCK FALSE\nPOSTCONDITION Post\n"

ALL_OUTS = ("refuse", "gdrop", "g4", "g5", "notls", "stls4", "hsfail", "badcert", "up")
ALL_STLS = ("dflt", "yes", "no", "ayes", "ano")
ALL_AUTHS = ("off", "plain", "forward", "external")
ALL_SRCS = ("auth", "nopass", "anon", "noconn")
ALL_AUTHRS = ("ok", "rej5", "rej4", "noauth")
ALL_MAILRS = ("ok", "t4", "p5", "drop")
ALL_DEVS = ("RequireTlsIgnored", "StarttlsOnImplicitTls")
KEEP = {"Cfg", "Start", "Conn", "Srv", "Ret", "End"}


def q(xs):
    return ", ".join('"%s"' % x for x in xs)


def cfg(spec="Spec", kinds=("smtp", "lmtp"), schemes=("tcp", "tls", "unix"), maxep=2, outs=ALL_OUTS, stls=("dflt", "no"),
        rtls=("none",), auths=("off",), srcs=("auth",), authrs=("ok", "rej5"), mailrs=ALL_MAILRS, rcptrs=("ok", "p5"),
        bodyrs=("ok", "d4", "dot5"), maxrcpt=2, devs=(), gen=False, tail=MC_TAIL):
    return CFG % dict(spec=spec, kinds=q(kinds), schemes=q(schemes), maxep=maxep, outs=q(outs), stls=q(stls), rtls=q(rtls),
                      auths=q(auths), srcs=q(srcs), authrs=q(authrs), mailrs=q(mailrs), rcptrs=q(rcptrs), bodyrs=q(bodyrs),
                      maxrcpt=maxrcpt, devs=q(devs), gen="TRUE" if gen else "FALSE", tail=tail)


def findings():
    p = os.environ.get("VERIF_EXT_FINDINGS") or os.path.join(vlib.VERIF, "extensions", "findings.json")
    if not os.path.exists(p):
        return []
    return [f for f in json.load(open(p)).get("findings", []) if f.get("ext") == PID]


def open_findings():
    return [f for f in findings() if f.get("status", "open") == "open"]


def stls_eff(c):
    if c["stls"] == "dflt":
        return c["kind"] == "smtp"
    return c["stls"] in ("yes", "ayes")


def history_matches(f, c):
    """The specific configuration (history) of an open finding."""
    dev = f.get("match", {}).get("deviation")
    if dev == "RequireTlsIgnored":
        return c["rtls"] == "yes" and not stls_eff(c) and any(s != "tls" for s in c["schs"])
    if dev == "StarttlsOnImplicitTls":
        return stls_eff(c) and any(s == "tls" and o == "up" for s, o in zip(c["schs"], c["outs"]))
    return False


def behaviours_from(r):
    return [{"cfg": v["cfg"], "steps": v["steps"]} for tag, v in r["printed"] if tag == "BEH"]


def dedup(behs):
    seen, out = set(), []
    for x in behs:
        key = json.dumps([x["cfg"], x["steps"]], sort_keys=True)
        if key not in seen:
            seen.add(key)
            out.append(x)
    for i, x in enumerate(out):
        x["id"] = i + 1
    return out


def shape(x):
    c = x["cfg"]
    return json.dumps([c["kind"], c["schs"], c["outs"], c["stls"], c["rtls"], c["auth"], c["src"],
                       [s.get("r", "") for s in x["steps"] if s["a"] in ("auth", "mail")]])


def nontrivial(x):
    return any(o != "up" for o in x["cfg"]["outs"]) or any(s.get("r", "ok") != "ok" for s in x["steps"])


def run(ctx, replay):
    thorough = ctx.tier == "thorough"
    known = open_findings()
    open_devs = sorted({f["match"]["deviation"] for f in known if f.get("match", {}).get("deviation") in ALL_DEVS})
    robj = json.load(open(replay)) if replay else None
    skip_mc = bool(os.environ.get("VERIF_DEV_SKIP_MC"))
    if skip_mc:
        ctx.notes.append("VERIF_DEV_SKIP_MC set: exhaustive model checking skipped in this run")
    binary = ctx.build_harness("smtpforwardcheck")

    # ---- (T) exhaustive model checking on focused configurations ------------------------------------
    if not robj and not skip_mc:
        runs = [
            # endpoint selection: every scheme x behaviour of up to MaxEp endpoints
            ("mc-select", cfg(maxep=3 if thorough else 2, stls=("dflt", "no"), auths=("off", "plain"))),
            # TLS / auth policy: one or two endpoints, every directive
            ("mc-policy", cfg(maxep=2 if thorough else 1, outs=("up", "notls", "badcert", "g4", "refuse") if thorough
                              else ("up", "notls", "badcert"), stls=ALL_STLS, rtls=("none", "yes"), auths=ALL_AUTHS, srcs=ALL_SRCS,
                              authrs=ALL_AUTHRS, mailrs=("ok", "p5"), rcptrs=("ok",), bodyrs=("ok",), maxrcpt=1)),
        ]
        states = trans = depth = 0
        with concurrent.futures.ThreadPoolExecutor(max_workers=len(runs)) as ex:
            futs = {name: ex.submit(ctx.tlc, "SmtpForward", None, name=name, workers=2, timeout=2400, cfg_text=text, heap="3g")
                    for name, text in runs}
            res = {name: f.result() for name, f in futs.items()}
        for name, _ in runs:
            r = res[name]
            if not r["ok"]:
                raise vlib.Infra("TLC did not accept SmtpForward/%s: invariant=%s error=%s (see %s/tlc.out)" % (
                    name, r["invariant"], r["error"], r["dir"]))
            states += r["distinct"]
            trans += r["generated"]
            depth = max(depth, r["depth"])
            ctx.log("TLC exhaustive %s: %d distinct states, %d generated, depth %d, %.1fs" % (
                name, r["distinct"], r["generated"], r["depth"], r["wall"]))
        ctx.cov["states"] = states
        ctx.cov["transitions"] = trans
        ctx.cov["model_depth"] = depth
        ra = ctx.tlc("SmtpForward", None, name="asis", workers=2, timeout=900, heap="2g",
                     cfg_text=cfg(maxep=1, outs=("up",), stls=ALL_STLS, rtls=("none", "yes"), auths=("off", "plain"),
                                  devs=ALL_DEVS, tail="VIEW View\nINVARIANTS NoViolation\nCHECK_DEADLOCK FALSE\n"))
        if ra["invariant"] != "NoViolation":
            raise vlib.Infra("as-is model (all deviations on) no longer violates NoViolation: the invariant is vacuous "
                             "(%s %s)" % (ra["invariant"], ra["error"]))
        ctx.cov["asis_counterexample_found"] = True

    # ---- behaviours -----------------------------------------------------------------------------------
    if robj:
        behs = [robj["behaviour"]]
        behs[0]["id"] = 1
    else:
        gdevs = open_devs     # the model with the deviations of the OPEN findings generates the behaviours
        n = 4000 if thorough else 450
        jobs = [
            ("gen-select", dict(workers=2, timeout=1800, heap="3g",
                                cfg_text=cfg(kinds=("smtp",), maxep=2, stls=("dflt", "no"), auths=("off",), mailrs=("ok", "p5"),
                                             rcptrs=("ok",), bodyrs=("ok",), maxrcpt=1, devs=gdevs, gen=True, tail=GEN_TAIL))),
            ("gen-policy", dict(workers=2, timeout=1800, heap="3g",
                                cfg_text=cfg(maxep=1, outs=("up", "notls"), stls=ALL_STLS, rtls=("none", "yes"), auths=ALL_AUTHS,
                                             srcs=ALL_SRCS, authrs=ALL_AUTHRS, mailrs=("ok",), rcptrs=("ok",), bodyrs=("ok",),
                                             maxrcpt=1, devs=gdevs, gen=True, tail=GEN_TAIL))),
            ("sim", dict(workers=1, timeout=1800, simulate=n, depth=40, heap="3g",
                         cfg_text=cfg(maxep=2, stls=ALL_STLS, rtls=("none", "yes"), auths=ALL_AUTHS, srcs=ALL_SRCS,
                                      authrs=ALL_AUTHRS, rcptrs=("ok", "t4", "p5"), devs=gdevs, gen=True, tail=GEN_TAIL))),
        ]
        if thorough:
            jobs.append(("sim3", dict(workers=1, timeout=1800, simulate=1500, depth=40, heap="3g",
                                      cfg_text=cfg(kinds=("smtp",), maxep=3, schemes=("tcp", "tls"), stls=("dflt", "no"),
                                                   auths=("off", "plain"), devs=gdevs, gen=True, tail=GEN_TAIL))))
        with concurrent.futures.ThreadPoolExecutor(max_workers=len(jobs)) as ex:
            futs = {name: ex.submit(ctx.tlc, "SmtpForward", None, name=name, **kw) for name, kw in jobs}
            res = {name: f.result() for name, f in futs.items()}
        behs = []
        for name, _ in jobs:
            g = res[name]
            if not g["ok"]:
                raise vlib.Infra("behaviour generation %s failed: %s %s (see %s/tlc.out)" % (
                    name, g["invariant"], g["error"], g["dir"]))
            got = behaviours_from(g)
            if not name.startswith("sim"):
                ctx.cov["exhaustive_" + name] = len(got)
                if not thorough:
                    by_shape = {}
                    for x in got:
                        by_shape.setdefault(shape(x), []).append(x)
                    got = [ctx.rng.choice(v) for _, v in sorted(by_shape.items())]
                    got = vlib.sample(ctx.rng, got, 450)
            behs += got
        behs = dedup(behs)
        if not behs:
            raise vlib.Infra("TLC produced no behaviours")
    ctx.log("%d behaviours to replay" % len(behs))

    events = ctx.run_shards(binary, behs, test="TestReplay", shards=min(vlib.NCPU, 4), name="replay")
    by_id = {x["id"]: x for x in behs}

    # ---- binding self-test: a corrupted and a truncated copy of an accepted trace must be rejected
    selftest = {}
    if not robj:
        base = None
        for x in behs:
            evs = [e for e in events if e["t"] == x["id"]]
            if any(e["e"] == "Ret" and e.get("c") == "commit" for e in evs) and len(x["cfg"]["schs"]) == 2 and \
                    x["cfg"]["outs"][0] not in ("up", "refuse"):
                base = evs
                break
        if base:
            c1 = [json.loads(json.dumps(dict(e, t=900001))) for e in base]
            for e in c1:
                if e["e"] == "Srv" and e["verb"] == "MAIL":
                    e["ep"] = 1                                           # the MAIL command seen by the endpoint that failed
                    break
            c2 = [json.loads(json.dumps(dict(e, t=900002))) for e in base]
            for i, e in enumerate(c2):
                if e["e"] == "Conn" and e["ep"] == 2:
                    del c2[i]                                             # the second connection never seen
                    break
            events = events + c1 + c2
            selftest = {900001: "corrupt-field", 900002: "drop-event"}

    tcfg = cfg(spec="TSpec", maxep=9, stls=ALL_STLS, rtls=("none", "yes"), auths=ALL_AUTHS, srcs=ALL_SRCS, authrs=ALL_AUTHRS,
               rcptrs=("ok", "t4", "p5"), maxrcpt=9, devs=open_devs, tail=TRACE_TAIL)
    ngroups = 4 if len(behs) > 1500 else 2
    groups = [[e for e in events if e["t"] % ngroups == g] for g in range(ngroups)]
    groups = [g for g in groups if g]
    verdicts, by_t = {}, {}
    with concurrent.futures.ThreadPoolExecutor(max_workers=len(groups)) as ex:
        futs = [ex.submit(ctx.validate, "SmtpForwardTrace", None, g, keep=KEEP, name="SmtpForwardTrace-g%d" % i, cfg_text=tcfg,
                          batch=1500) for i, g in enumerate(groups)]
        for f in futs:
            v, bt = f.result()
            verdicts.update(v)
            by_t.update(bt)

    ok = drift = 0
    preds, seen_findings = {}, {}
    for t, recs in sorted(verdicts.items()):
        r0 = recs[0]
        if t in selftest:
            if not r0["drift"] and not r0["viol"]:
                raise vlib.Infra("binding self-test failed: %s trace was accepted" % selftest[t])
            continue
        viol = set(r0["viol"])
        c = by_id[t]["cfg"]
        explained = set()
        for f in known:
            m = f.get("match", {})
            if viol & set(m.get("predicates", [])) and history_matches(f, c):
                explained |= viol & set(m["predicates"])
                seen_findings[f["id"]] = f["what"]
        rest = viol - explained
        if rest:
            names = sorted(rest)
            for p in names:
                preds[p] = preds.get(p, 0) + 1
            ctx.violation("target.%s violates %s" % (c["kind"], ",".join(names)),
                          {"property": PID, "behaviour": by_id[t], "trace": by_t[t], "violated": names,
                           "how": "bin/check X20 --replay <this file>"})
        elif r0["drift"]:
            drift += 1
            print("DRIFT property=%s trace=%d first-unexplained-seq=%s" % (PID, t, r0["driftAt"]))
        else:
            ok += 1
    if selftest:
        ctx.cov["binding_selftest"] = "corrupted-field and dropped-event traces rejected"
    for fid, what in sorted(seen_findings.items()):
        print("EXT-FINDING: ext=%s %s %s" % (PID, fid, what))
    mixed = 0
    for x in behs:
        cl = {("temp" if o in ("refuse", "g4") else "perm" if o == "g5" else "free") for o in x["cfg"]["outs"]}
        if "up" not in x["cfg"]["outs"] and {"temp", "perm"} <= cl:
            mixed += 1
    if mixed:
        print("OBSERVATION property=%s %d behaviours in which the endpoints failed with different classes: the class of the "
              "LAST endpoint's failure is reported (not constrained by the statement)" % (PID, mixed))
    ctx.cov["mixed_class_failures"] = mixed
    ctx.cov["ext_findings_seen"] = sorted(seen_findings)
    ctx.cov["traces_validated_against_impl"] = ok
    ctx.cov["drift_traces"] = drift
    ctx.cov["violated_predicates"] = preds
    ctx.cov["evaluations"] = len(behs)
    ctx.cov["distinct_nontrivial"] = sum(1 for x in behs if nontrivial(x))
    ctx.cov["wire_events"] = sum(1 for e in events if e["e"] in ("Srv", "Conn") and e["t"] < 900000)
    for x in behs[:3]:
        ctx.cov["samples"].append({"behaviour": x, "trace": by_t.get(x["id"], [])[:40]})
    ctx.cov["rule"] = ("behaviours = (configuration, behaviour of every configured endpoint, replies to AUTH / MAIL / RCPT / DATA / "
                       "final dot, commit or abort) of SmtpForward.tla printed by TLC: exhaustive over two focused sub-spaces "
                       "(one per shape in quick, all in thorough) plus -simulate over the full space, de-duplicated; non-trivial = "
                       "an endpoint that is not simply up, or a non-ok reply")
    ctx.cov["exhaustive"] = False
    ctx.assumptions += [
        "next hops are scripted line-based SMTP/LMTP servers on loopback TCP (tcp://, tls:// with implicit TLS) and unix sockets; "
        "'refuse' = a port / path nobody listens on; certificates are issued for 127.0.0.1 by a root given to tls_client root_ca "
        "(valid) or by an unknown root (badcert)",
        "a connection counts as left open when the next hop has not seen the target close it 6 s after the delivery ended",
        "one delivery per target object; at most 3 endpoints, 2 recipients",
        "TLC 1.8.0, CommunityModules Json reader",
    ]


META = {
    "engine": "smtpforwardcheck",
    "level": "model_checking",
    "statement": "For every configuration of target.smtp / target.lmtp (one or several endpoints tcp://, tls://, unix://; starttls / "
                 "attempt_starttls / require_tls; tls_client; auth off | plain user pass | forward | external; hostname) and every "
                 "behaviour of the configured next hops (refuses connections, closes before the greeting, greets 4xx / 5xx, lacks "
                 "STARTTLS, refuses STARTTLS, breaks the handshake, presents a certificate that does not verify, lacks AUTH or refuses "
                 "the credentials 4xx / 5xx, answers MAIL / RCPT / DATA / the final dot 2xx / 4xx / 5xx or drops the connection): the "
                 "endpoints are tried strictly in the configured order, each at most once, none is skipped unless it refuses the "
                 "connection, and a later endpoint is contacted only while no earlier one completed its connection set-up (never "
                 "after a live server refused AUTH or MAIL); Start fails at set-up only after every endpoint was tried and never when "
                 "an endpoint is usable; the message (MAIL, content) reaches at most one endpoint; target.lmtp says LHLO and "
                 "target.smtp EHLO, under the configured hostname once the channel is encrypted; AUTH, MAIL, RCPT, DATA and the content "
                 "never travel in clear text when starttls is in effect (default for target.smtp, starttls / attempt_starttls yes), the "
                 "endpoint is tls://, or require_tls yes is set; AUTH is sent only when configured, with exactly the configured "
                 "credentials (plain), exactly the source session's (forward) or EXTERNAL, MAIL follows only an accepted AUTH, and "
                 "with auth forward a message of a session without user name and password is refused (530) without AUTH or MAIL; Start "
                 "succeeds iff MAIL was accepted, its error is temporary when every failure was temporary and permanent when every "
                 "failure was permanent or a live server refused with 5xx; Commit says QUIT on a healthy session, nothing is sent after "
                 "Commit / Abort, and every connection opened is closed by the end of the delivery.",
    "technique": "TLA+ spec SmtpForward.tla (configuration x next hop behaviour x one delivery) model-checked by TLC; TLC-generated "
                 "behaviours replayed on the real module built from configuration nodes against scripted next hops on loopback "
                 "TCP / TLS / unix sockets; wire and API events validated by TLC against SmtpForwardTrace.tla (predicates in "
                 "SmtpForwardObs.tla)",
    "text": "TLC visits every configuration of the focused sub-spaces with every behaviour of up to 2 (thorough: 3) endpoints and every "
            "reply class at AUTH / MAIL / RCPT / DATA / final dot and checks the selection, policy, outcome and close predicates in "
            "every state; the same predicates are evaluated by TLC over the traces of the real module.",
    "note": "Real sockets on loopback; a harness-side time-out is exit 2. Trusted: TLC, the harness, Go toolchain.",
    "design_ref": "extensions/X20.md",
}
