"""X14 - the simple inbound checks (require_tls, require_matching_rdns, require_mx_record with the
fail_action wrapper) and the external-command check (check.command) do what the documentation says.

(S) spec/SimpleChecks.tla: decision tables (pattern B) - connection / EHLO / PTR / sender / MX situations x
    fail_action x placement; the property as named predicates (Prop), the documented procedure (Rule), the
    code's deviations as named switches (RuleD).
    spec/CmdCheck.tla + CmdCheckObs.tla: one message through a pipeline with a check.command block as a state
    machine (pattern A) - Begin, Skip, Expand, Spawn, Io, Exit, Decide, Reply, Finish; the scenario (config,
    session, envelope, message, behaviour of the command per execution) is chosen by Init; predicates over
    what is visible outside (answers, what the executions were given, the message at the target).
(T) TLC enumerates every row / every behaviour of every scenario, checks Prop(in, Rule(in)) resp. NoViolation
    and Terminates, prints the rows / behaviours; one as-is run per deviation must violate the property.
(B) harness/simplecheckscheck runs every row / scenario on the real modules (module registry, configuration
    text, real msgpipeline, go-mockdns, the endpoint's own reverse lookup, a real external command that
    records argv and stdin); SimpleChecksTrace.tla / CmdCheckTrace.tla evaluate the predicates on what the
    code did.
"""
import copy
import json
import os
from concurrent.futures import ThreadPoolExecutor

import vlib
import vtable

PID = "X14"
CMD_BASE = 100000          # ids of check.command scenarios start here

SIMPLE_DEVS = ["MxLookupULabel", "FirstPtrOnly"]
CMD_DEVS = ["RdnsNilPanic", "DupRcptSkipped", "RcptsKeepRefused", "NoDrain", "NoReap", "CodeZeroIgnored"]
DEVS = SIMPLE_DEVS + CMD_DEVS

SIMPLE_CFG = """SPECIFICATION Spec
CONSTANTS
  Full = %(full)s
  Devs = {%(devs)s}
  Gen = %(gen)s
INVARIANTS %(inv)s
%(emit)s
CHECK_DEADLOCK FALSE
"""

SIMPLE_TRACE_CFG = """SPECIFICATION TSpec
CONSTANTS
  Full = FALSE
  Devs = {}
  Gen = FALSE
  OpenDevs = {%(open)s}
CHECK_DEADLOCK FALSE
POSTCONDITION Post
"""

CMD_CFG = """SPECIFICATION Spec
CONSTANTS
  Full = %(full)s
  Devs = {%(devs)s}
  Gen = %(gen)s
INVARIANTS NoViolation
%(extra)s
"""

CMD_TRACE_CFG = """SPECIFICATION TSpec
CONSTANTS
  Full = FALSE
  Devs = {%(open)s}
  Gen = FALSE
CHECK_DEADLOCK FALSE
POSTCONDITION Post
"""

SIMPLE_OUT = ("failed", "act", "stage", "others", "code", "temp", "enchc", "queries")
REPLY_KEYS = ("k", "code", "temp", "enchc")


def q(names):
    return ", ".join('"%s"' % n for n in sorted(names))


def ext_findings():
    p = os.path.join(vlib.VERIF, "extensions", "findings.json")
    if not os.path.exists(p):
        return []
    return [f for f in json.load(open(p)).get("findings", []) if f.get("ext") == PID]


# ---- projections of the recorded events (what the trace specifications read) -----------------------------

def project_row(e):
    o = e["out"]
    return {"t": e["t"], "seq": e["seq"], "e": "Row", "in": e["in"], "out": {k: o[k] for k in SIMPLE_OUT}}


def project_ev(e):
    if e["e"] == "Pipe":
        return {"t": e["t"], "seq": e["seq"], "e": "Pipe", "call": e["call"], "arg": e["arg"],
                "reply": {k: e["reply"][k] for k in REPLY_KEYS},
                "runs": [{"n": r["n"], "argv": r["argv"], "read": r["read"],
                          "stdin": {"hdr": r["stdin"]["hdr"], "body": r["stdin"]["body"]}} for r in e["runs"]],
                "panics": e["panics"], "left": e["left"], "stalled": e["stalled"]}
    if e["e"] == "End":
        return {k: e[k] for k in ("t", "seq", "e", "cfgerr", "delivered", "quarantine", "added", "rcpts")}
    return {k: e[k] for k in ("t", "seq", "e", "sc")}


def simple_nontrivial(row):
    """the verdict depends on a DNS answer or the TLS state: the documented rule finds a failure"""
    return bool(row["exp"]["failed"])


def cmd_nontrivial(beh):
    """some execution of the command ends other than 'exit 0, nothing on stdout'"""
    return any(b["exit"] != 0 or b["out"] != "empty" for b in beh["sc"]["beh"]) or beh["sc"]["start"] != "ok"


def brief_simple(i):
    c, f = i["conn"], i["from"]
    fa = i["fa"]["act"] if i["fa"]["given"] else "(default)"
    ptr = c["ptr"]["k"] + ("=" + ",".join(n["name"] + ("." if n["dot"] else "") for n in c["ptr"]["names"]) if c["ptr"]["names"] else "")
    frm = {"null": "<>", "addr": "%s@%s%s%s" % (f["local"], f["dom"]["name"], "." if f["dom"]["dot"] else "",
                                                 " (U-labels)" if f["dom"]["utf8"] else "")}.get(f["kind"], f["local"])
    return "%s fail_action=%s level=%s place=%s conn=%s tls=%s ehlo=%s%s ptr=%s from=%s mx=%s%s resolver=%s rcpts=%d" % (
        i["check"], fa, i["level"], i["place"], c["kind"], c["tls"], c["helo"]["name"] + ("." if c["helo"]["dot"] else ""),
        " (U-labels)" if c["helo"]["utf8"] else "", ptr, frm, i["mx"]["k"],
        "=" + ",".join(i["mx"]["hosts"]) if i["mx"]["hosts"] else "", i["res"], i["nrcpt"])


def brief_sc(sc):
    def arg(a):
        return "".join("{%s}" % p["v"] if p["k"] == "ph" else p["v"] for p in a)
    return "run_on=%s codes=%s args=%s conn=%s/%s rdns=%s from=%r rcpts=%r msg=%s beh=%s start=%s" % (
        sc["runOn"], ["%d %s%s" % (c["code"], c["act"], " %d" % c["rc"] if c["rc"] else "") for c in sc["codes"]],
        [arg(a) for a in sc["args"]], sc["conn"]["kind"], sc["conn"]["ip"], sc["conn"]["rdns"]["k"], sc["from"], sc["rcpts"],
        sc["msg"]["body"], ["%s/%s/%s" % (b["stdin"], b["out"], b["exit"]) for b in sc["beh"]], sc["start"])


def brief_events(evs):
    out = []
    for e in evs:
        if e["e"] == "Pipe":
            r = e["reply"]
            out.append("%s(%s)->%s runs=%s%s%s%s" % (
                e["call"], e["arg"], "ok" if r["k"] == "ok" else "rej %s%s" % (r["code"], " temp" if r["temp"] else ""),
                [{"argv": x["argv"], "stdin": (x["stdin"]["hdr"] + x["stdin"]["body"])[:80]} for x in e["runs"]],
                " panics=%d" % e["panics"] if e["panics"] else "", " left=%d" % e["left"] if e["left"] else "",
                " stalled=%d" % e["stalled"] if e["stalled"] else ""))
        elif e["e"] == "End":
            out.append("end(cfgerr=%s delivered=%s quarantine=%s added=%s rcpts=%s)" % (
                e["cfgerr"], e["delivered"], e["quarantine"], [a[:40] for a in e["added"]][:4], e["rcpts"]))
    return " ; ".join(out)


def harvest(ctx, name):
    """after a failed shard run: the events that were written, and the items that were running when a shard whose
    log shows a panic inside the modules under test died (the code under test crashed the process)"""
    d = os.path.join(ctx.work, name)
    got, bad = [], []
    for f in sorted(os.listdir(d)):
        if not (f.startswith("out") and f.endswith(".ndjson")):
            continue
        begun, done, evs = [], set(), []
        for line in open(os.path.join(d, f)):
            line = line.strip()
            if not line:
                continue
            try:
                e = json.loads(line)
            except ValueError:
                continue
            if e["e"] in ("Begin", "Cfg"):
                begun.append(e["t"])
            if e["e"] in ("Row", "End"):
                done.add(e["t"])
            evs.append(e)
        got += [e for e in evs if e["t"] in done]
        left = [t for t in begun if t not in done]
        log = os.path.join(d, f.replace("out", "log").replace(".ndjson", ".txt"))
        txt = open(log).read() if os.path.exists(log) else ""
        if left and ("panic:" in txt or "fatal error:" in txt) and "internal/check" in txt:
            k = txt.find("panic:")
            bad.append((left[-1], txt[max(0, k):k + 2500]))
    return got, bad


# ---- binding self-test ---------------------------------------------------------------------------------

def forged_rows(rows):
    def find(pred):
        for row in rows:
            if pred(row):
                return row
        return None

    def mk(t, what, row, **chg):
        if row is None:
            raise vlib.Infra("binding self-test: no base row for '%s'" % what)
        out = dict(row["exp"])
        out.update(chg)
        return t, what, {"t": t, "seq": 2, "e": "Row", "in": row["in"], "out": out}
    mod = lambda row: row["in"]["level"] == "module"
    res = [
        mk(9000001, "plaintext session passes require_tls",
           find(lambda r: mod(r) and r["in"]["check"] == "require_tls" and r["in"]["conn"]["kind"] == "tcp4" and r["exp"]["failed"]
                and r["exp"]["act"] == "reject"),
           failed=False, act="none", stage="none", code=0, enchc=0),
        mk(9000002, "fail_action quarantine turned into a refusal",
           find(lambda r: mod(r) and r["in"]["check"] == "require_mx_record" and r["exp"]["act"] == "quarantine"), act="reject"),
        mk(9000003, "temporary DNS failure refused permanently",
           find(lambda r: r["in"]["level"] == "pipeline" and r["in"]["check"] == "require_mx_record" and r["in"]["mx"]["k"] == "temp"
                and r["exp"]["act"] == "reject"), code=550, temp=False, enchc=5),
        mk(9000004, "null MX accepted",
           find(lambda r: mod(r) and r["in"]["mx"]["hosts"] == ["."] and r["in"]["from"]["kind"] == "addr"
                and r["in"]["check"] == "require_mx_record" and r["exp"]["failed"]),
           failed=False, act="none", stage="none", code=0, enchc=0),
        mk(9000005, "mismatching PTR acted on at the body stage",
           find(lambda r: mod(r) and r["in"]["check"] == "require_matching_rdns" and r["exp"]["failed"]), stage="body"),
        mk(9000006, "an extra lookup",
           find(lambda r: mod(r) and r["in"]["check"] == "require_tls"), queries=[{"t": "MX", "q": "sender.test", "ascii": True}]),
    ]
    return res


def forged_traces(behs):
    def find(pred):
        for b in behs:
            if pred(b):
                return b
        return None

    def mk(t, what, beh, change):
        if beh is None:
            raise vlib.Infra("binding self-test: no base behaviour for '%s'" % what)
        evs = copy.deepcopy(beh["events"])
        change(evs)
        out = [{"t": t, "seq": 1, "e": "Cfg", "sc": beh["sc"]}]
        for k, e in enumerate(evs):
            e = dict(e)
            e["t"], e["seq"] = t, k + 2
            out.append(e)
        return t, what, out
    one = lambda b, tab: b["sc"]["tab"] == tab and b["sc"]["start"] == "ok"

    def pipe(evs, call):
        return [e for e in evs if e["e"] == "Pipe" and e["call"] == call][0]

    def c1(evs):
        r = pipe(evs, "mail")["runs"][0]
        r["argv"] = r["argv"][:1] + ["--injected"] + r["argv"][1:]

    def c2(evs):
        pipe(evs, "body")["runs"][0]["stdin"]["body"] = "hello\nworld\n"

    def c3(evs):
        pipe(evs, "body")["reply"] = {"k": "ok", "code": 0, "temp": False, "enchc": 0}
        evs[-1].update(delivered=True, rcpts=["r1@rcpt.test"])

    def c4(evs):
        evs[-1]["added"] = []

    def c5(evs):
        p = pipe(evs, "body")
        p["runs"] = p["runs"] + [dict(p["runs"][0], n=2)]

    def c6(evs):
        pipe(evs, "body")["reply"] = {"k": "rej", "code": 550, "temp": False, "enchc": 5}
        evs[-1].update(delivered=False, rcpts=[], added=[], quarantine=False)
    res = [
        mk(9100001, "an extra argument reaches the command",
           find(lambda b: one(b, "args") and b["sc"]["runOn"] == "sender" and "-oQ" in b["sc"]["from"]), c1),
        mk(9100002, "message on stdin with bare LF",
           find(lambda b: one(b, "msg") and b["sc"]["msg"]["body"] == "small" and b["sc"]["beh"][0]["stdin"] == "read"), c2),
        mk(9100003, "exit status 1 answered with success",
           find(lambda b: one(b, "exit") and b["sc"]["runOn"] == "body" and not b["sc"]["codes"] and b["sc"]["beh"][0]["exit"] == 1
                and b["sc"]["beh"][0]["out"] == "empty"), c3),
        mk(9100004, "header from stdout not added",
           find(lambda b: one(b, "out") and b["sc"]["runOn"] == "body" and b["sc"]["beh"][0]["out"] == "hdr2"
                and b["sc"]["beh"][0]["exit"] == 0 and b["sc"]["beh"][0]["stdin"] == "read" and b["sc"]["beh"][0]["err"] == ""), c4),
        mk(9100005, "command executed twice for one message",
           find(lambda b: one(b, "exit") and b["sc"]["runOn"] == "body" and not b["sc"]["codes"] and b["sc"]["beh"][0]["exit"] == 0
                and b["sc"]["beh"][0]["out"] == "empty"), c5),
        mk(9100006, "killed command refused permanently",
           find(lambda b: one(b, "exit") and b["sc"]["runOn"] == "body" and not b["sc"]["codes"] and b["sc"]["beh"][0]["exit"] == -9
                and b["sc"]["beh"][0]["out"] == "empty"), c6),
    ]
    return res


def run(ctx, replay):
    thorough = ctx.tier == "thorough"
    entries = ext_findings()
    for e in entries:
        if e["match"]["deviation"] not in DEVS:
            raise vlib.Infra("finding %s names an unknown deviation %s" % (e["id"], e["match"]["deviation"]))
    open_by_dev = {e["match"]["deviation"]: e for e in entries if e.get("status", "open") == "open"}
    open_simple = [d for d in SIMPLE_DEVS if d in open_by_dev]
    open_cmd = [d for d in CMD_DEVS if d in open_by_dev]
    ext_seen = []        # (finding id, what)
    full = "TRUE" if thorough else "FALSE"

    # ---- (T) + rows / behaviours ------------------------------------------------------------------------
    asis_runs, asis_pool = [], None
    rows, behs = [], []
    if replay:
        try:
            obj = json.load(open(replay))
            if obj.get("sub") == "simple":
                rows = [obj["row"]]
                rows[0]["id"] = 1
            elif obj.get("sub") == "cmd":
                behs = [obj["beh"]]
                behs[0]["id"] = CMD_BASE + 1
            else:
                raise KeyError("sub")
        except (OSError, ValueError, KeyError, TypeError) as e:
            raise vlib.Infra("cannot read the replay file %s: %r" % (replay, e))
    else:
        def t_simple():
            return ctx.tlc_expect_ok("SimpleChecks", None, name="mc-simple", workers=4, timeout=1200,
                                     cfg_text=SIMPLE_CFG % dict(full=full, devs="", gen="TRUE",
                                                                inv="RuleSatisfiesProp RuleDecides", emit="CONSTRAINT Emit"))

        def t_cmd():
            # one run: NoViolation on every step, Terminates (liveness under WF_vars(Next)), and the behaviours printed
            return ctx.tlc_expect_ok("CmdCheck", None, name="mc-cmd", workers=4, timeout=1800,
                                     cfg_text=CMD_CFG % dict(full=full, devs="", gen="TRUE",
                                                             extra="PROPERTIES Terminates\nCONSTRAINT Emit"))
        with ThreadPoolExecutor(max_workers=2) as ex:
            f1, f2 = ex.submit(t_simple), ex.submit(t_cmd)
            r1, r2 = f1.result(), f2.result()
        r3 = r2
        rows = vtable.rows_from(r1)
        if len(rows) != r1["distinct"]:
            raise vlib.Infra("TLC printed %d distinct rows for %d states (SimpleChecks)" % (len(rows), r1["distinct"]))
        behs = vtable.rows_from(r3, tag="BEH")
        for b in behs:
            b["id"] += CMD_BASE
        scen = len({json.dumps(b["sc"], sort_keys=True) for b in behs})
        if scen != len(behs):
            raise vlib.Infra("CmdCheck printed %d behaviours for %d scenarios (the design is deterministic per scenario)" % (
                len(behs), scen))
        ctx.cov["states"] = r1["distinct"] + r2["distinct"]
        ctx.cov["transitions"] = r1["generated"] + r2["generated"]
        ctx.cov["model"] = {
            "SimpleChecks": {"distinct": r1["distinct"], "generated": r1["generated"], "depth": r1["depth"], "rows": len(rows)},
            "CmdCheck": {"distinct": r2["distinct"], "generated": r2["generated"], "depth": r2["depth"],
                         "scenarios": len(behs), "liveness": "Terminates (WF_vars(Next))"},
        }
        ctx.log("TLC SimpleChecks: %d rows, Prop(in, Rule(in)) and RuleDecides hold on all (%.1fs); CmdCheck: %d distinct "
                "states (%d generated, depth %d) over %d scenarios, NoViolation and Terminates hold (%.1fs)" % (
                    r1["distinct"], r1["wall"], r2["distinct"], r2["generated"], r2["depth"], len(behs), r2["wall"]))

        # as-is: each deviation of the code, switched on alone, must violate the property (non-vacuity)
        def asis(dev):
            if dev in SIMPLE_DEVS:
                return dev, "AsIsSatisfiesProp", ctx.tlc("SimpleChecks", None, name="asis-" + dev, workers=2, timeout=600,
                                                         cfg_text=SIMPLE_CFG % dict(full="FALSE", devs=q([dev]), gen="FALSE",
                                                                                    inv="AsIsSatisfiesProp", emit=""))
            return dev, "NoViolation", ctx.tlc("CmdCheck", None, name="asis-" + dev, workers=2, timeout=600,
                                               cfg_text=CMD_CFG % dict(full="FALSE", devs=q([dev]), gen="FALSE", extra=""))
        asis_pool = ThreadPoolExecutor(max_workers=3)
        asis_runs = [asis_pool.submit(asis, d) for d in DEVS]
    row_by_id = {r["id"]: r for r in rows}
    beh_by_id = {b["id"]: b for b in behs}
    ctx.log("%d rows and %d scenarios to run through the real code" % (len(rows), len(behs)))

    # ---- (B) the real code -----------------------------------------------------------------------------
    binary = ctx.build_harness("simplecheckscheck")
    items = [{"id": b["id"], "sub": "cmd", "sc": b["sc"]} for b in behs]
    # the scenarios (external processes) spread over all shards, the rows (in-process) appended evenly
    items += [{"id": r["id"], "sub": "simple", "in": r["in"]} for r in rows]
    pending, events, crashed = items, [], []
    for attempt in range(6):
        name = "replay" if attempt == 0 else "replay%d" % attempt
        try:
            events += ctx.run_shards(binary, pending, timeout=1500, name=name)
            pending = []
            break
        except vlib.Infra:
            got, bad = harvest(ctx, name)
            if not bad:
                raise
            events += got
            crashed += bad
            done = {e["t"] for e in got} | {t for t, _ in bad}
            pending = [it for it in pending if it["id"] not in done]
    row_events = [e for e in events if e["e"] == "Row"]
    cmd_events = [e for e in events if e["e"] in ("Cfg", "Pipe", "End")]
    cmd_by_t = {}
    for e in sorted(cmd_events, key=lambda e: (e["t"], e["seq"])):
        cmd_by_t.setdefault(e["t"], []).append(e)
    ctx.log("real code answered %d rows and %d scenarios" % (len(row_events), len(cmd_by_t)))
    if crashed:
        ctx.log("the code under test crashed the process on %d items (%d not run after %d attempts)" % (
            len(crashed), len(pending), attempt + 1))
    elif len(row_events) != len(rows) or len(cmd_by_t) != len(behs):
        raise vlib.Infra("harness answered %d of %d rows and %d of %d scenarios" % (len(row_events), len(rows), len(cmd_by_t), len(behs)))
    ev_by_t = {e["t"]: e for e in row_events}
    crash_notes = {}
    for t, tail in crashed:
        crash_notes[t] = tail
        if t in row_by_id:
            fake = {"t": t, "seq": 2, "e": "Row", "in": row_by_id[t]["in"],
                    "out": {"failed": False, "act": "panic", "stage": "none", "others": [], "code": 0, "temp": False, "enchc": 0,
                            "queries": [], "panic": tail}}
            row_events.append(fake)
            ev_by_t[t] = fake
        elif t in beh_by_id:
            cmd_by_t[t] = [
                {"t": t, "seq": 1, "e": "Cfg", "sc": beh_by_id[t]["sc"]},
                {"t": t, "seq": 2, "e": "Pipe", "call": "mail", "arg": beh_by_id[t]["sc"]["from"],
                 "reply": {"k": "ok", "code": 0, "temp": False, "enchc": 0}, "runs": [], "panics": 1, "left": 0, "stalled": 0,
                 "log": [tail]},
                {"t": t, "seq": 3, "e": "End", "cfgerr": False, "delivered": False, "quarantine": False, "added": [], "rcpts": []}]
    rows = [r for r in rows if r["id"] in ev_by_t]
    behs = [b for b in behs if b["id"] in cmd_by_t]

    # binding self-test: forged outputs / traces must be rejected, and must not pass as findings
    self_rows, self_traces = {}, {}
    proj_rows = [project_row(e) for e in row_events]
    proj_traces = [project_ev(e) for t in sorted(cmd_by_t) for e in cmd_by_t[t]]
    if not replay:
        for t, what, f in forged_rows(list(row_by_id.values())):
            self_rows[t] = what
            proj_rows.append(f)
        for t, what, evs in forged_traces(list(beh_by_id.values())):
            self_traces[t] = what
            proj_traces += evs

    # ---- TLC on what the code did ------------------------------------------------------------------------
    verdicts, accepted_rows = {}, 0
    if proj_rows:
        verdicts, accepted_rows = vtable.validate_rows(ctx, "SimpleChecksTrace", SIMPLE_TRACE_CFG % dict(open=q(open_simple)),
                                                       proj_rows, name="vrows", batch=1500, par=4, timeout=1200)
    tverdicts = {}
    if proj_traces:
        tv, _ = ctx.validate("CmdCheckTrace", None, proj_traces, name="vtraces", cfg_text=CMD_TRACE_CFG % dict(open=q(open_cmd)),
                             batch=600, timeout=1800)
        for t, recs in tv.items():
            if len(recs) != 1:
                raise vlib.Infra("trace %s has %d verdicts" % (t, len(recs)))
            tverdicts[t] = recs[0]
    ctx.log("TLC evaluated %d recorded rows (%d accepted as conforming) and %d recorded traces" % (
        len(proj_rows), accepted_rows, len(tverdicts)))
    for t, what in self_rows.items():
        v = verdicts.get(t)
        if not v or not v["viol"] or v["devs"]:
            raise vlib.Infra("binding self-test failed: forged row (%s) was accepted or explained by a deviation" % what)
        del verdicts[t]
    for t, what in self_traces.items():
        v = tverdicts.get(t)
        if not v or not v["viol"] or not v["drift"]:
            raise vlib.Infra("binding self-test failed: forged trace (%s) was accepted or followed by the design" % what)
        del tverdicts[t]
    if self_rows or self_traces:
        ctx.cov["binding_selftest"] = "forged outputs rejected: " + "; ".join(list(self_rows.values()) + list(self_traces.values()))

    if not replay:
        for fut in asis_runs:
            dev, inv, ra = fut.result()
            if ra["invariant"] != inv:
                raise vlib.Infra("as-is model (%s) does not violate the property: predicates vacuous? (%s)" % (dev, ra["error"]))
        asis_pool.shutdown()
        ctx.cov["asis_counterexample_found"] = list(DEVS)

    # ---- verdicts -----------------------------------------------------------------------------------------
    drift = 0
    finding_rows = {}
    preds = {}

    def note_finding(devs, viol, example):
        for d in devs:
            e = open_by_dev[d]
            if (e["id"], e["what"]) not in ext_seen:
                ext_seen.append((e["id"], e["what"]))
            k = finding_rows.setdefault(e["id"], {"cases": 0, "violating_cases": 0, "predicates": {}, "example": None})
            k["cases"] += 1
            if viol:
                k["violating_cases"] += 1
                for p in viol:
                    k["predicates"][p] = k["predicates"].get(p, 0) + 1
                if k["example"] is None:
                    k["example"] = example

    def allowed_preds(devs):
        s = set()
        for d in devs:
            s |= set(open_by_dev[d]["match"].get("predicates", []))
        return s

    # rows of the simple checks
    for t, v in sorted(verdicts.items()):
        row, ev = row_by_id[t], ev_by_t[t]
        outs = {k: ev["out"][k] for k in SIMPLE_OUT}
        devsets = sorted((sorted(d, key=SIMPLE_DEVS.index) for d in v["devs"]), key=lambda d: (len(d), d))
        minimal = devsets[0] if devsets else None
        explained = minimal is not None and all(d in open_by_dev for d in minimal)
        if explained and v["viol"]:
            explained = set(v["viol"]) <= allowed_preds(minimal)
        if v["viol"] and not explained:
            for p in v["viol"]:
                preds[p] = preds.get(p, 0) + 1
            what = ("%s violates %s: %s -> %s (documented: %s)" % (
                row["in"]["check"], ",".join(sorted(v["viol"])), brief_simple(row["in"]), json.dumps(outs, sort_keys=True),
                json.dumps(row.get("exp"), sort_keys=True)))[:900]
            ctx.violation(what, {"property": PID, "sub": "simple", "row": row, "out": ev["out"], "violated": sorted(v["viol"]),
                                 "how": "bin/check X14 --replay <this file>"})
        elif explained:
            note_finding(minimal, v["viol"], {"situation": brief_simple(row["in"]), "out": outs, "documented": row["exp"],
                                              "violated": sorted(v["viol"]), "config": ev["out"].get("cfg")})
        else:
            drift += 1
            if drift <= 10:
                print(("DRIFT ext=X14 row=%d %s out=%s expected=%s" % (t, brief_simple(row["in"]), json.dumps(outs, sort_keys=True),
                                                                       json.dumps(row.get("exp"), sort_keys=True)))[:1500])
    # traces of check.command
    accepted_traces = 0
    taken_no_viol = 0
    for t, v in sorted(tverdicts.items()):
        beh, evs = beh_by_id[t], cmd_by_t[t]
        taken = sorted(v["taken"], key=CMD_DEVS.index)
        if v["viol"]:
            explained = (not v["drift"]) and taken and all(d in open_by_dev for d in taken) \
                and set(v["viol"]) <= allowed_preds(taken)
            if explained:
                note_finding(taken, v["viol"], {"scenario": brief_sc(beh["sc"]), "observed": brief_events(evs),
                                                "violated": sorted(v["viol"])})
            else:
                for p in v["viol"]:
                    preds[p] = preds.get(p, 0) + 1
                what = ("check.command violates %s: %s ; observed: %s" % (
                    ",".join(sorted(v["viol"])), brief_sc(beh["sc"]), brief_events(evs)))[:900]
                if t in crash_notes:
                    what = ("check.command crashed the server process: %s ; %s" % (brief_sc(beh["sc"]), crash_notes[t][:300]))[:900]
                ctx.violation(what, {"property": PID, "sub": "cmd", "beh": beh, "observed": [project_ev(e) for e in evs],
                                     "violated": sorted(v["viol"]), "how": "bin/check X14 --replay <this file>"})
        elif v["drift"]:
            drift += 1
            if drift <= 10:
                print(("DRIFT ext=X14 trace=%d at event %s: %s ; observed: %s ; expected: %s" % (
                    t, v["driftAt"], brief_sc(beh["sc"]), brief_events(evs), brief_events(beh.get("events", []))))[:1800])
        else:
            accepted_traces += 1
            if taken:
                taken_no_viol += 1

    if replay:
        if rows:
            ev = row_events[0]
            v = verdicts.get(ev["t"])
            print("REPLAY ext=X14 situation: %s" % brief_simple(rows[0]["in"]))
            print("REPLAY ext=X14 config:\n%s" % ev["out"].get("cfg", ""))
            print("REPLAY ext=X14 real code: %s" % json.dumps({k: ev["out"].get(k) for k in SIMPLE_OUT + ("msg", "log", "note", "panic")}))
            print("REPLAY ext=X14 documented: %s" % json.dumps(rows[0].get("exp")))
            if v:
                print("REPLAY ext=X14 verdict of TLC: violated=%s differs-from-documented-rule=%s explained-by-deviations=%s" % (
                    sorted(v["viol"]), v["drift"], sorted(sorted(d) for d in v["devs"])))
            else:
                print("REPLAY ext=X14 verdict of TLC: accepted as conforming")
        for b in behs:
            v = tverdicts.get(b["id"])
            print("REPLAY ext=X14 scenario: %s" % brief_sc(b["sc"]))
            print("REPLAY ext=X14 real code: %s" % brief_events(cmd_by_t[b["id"]]))
            for e in cmd_by_t[b["id"]]:
                if e.get("log"):
                    print("REPLAY ext=X14 log of maddy: %s" % json.dumps(e["log"])[:700])
            print("REPLAY ext=X14 documented: %s" % brief_events(b.get("events", [])))
            if v:
                print("REPLAY ext=X14 verdict of TLC: violated=%s drift=%s deviations-taken=%s" % (
                    sorted(v["viol"]), v["drift"], sorted(v["taken"])))

    # ---- evidence ----------------------------------------------------------------------------------------------
    ctx.cov["traces_validated_against_impl"] = accepted_rows + accepted_traces
    ctx.cov["rows_accepted"] = accepted_rows
    ctx.cov["traces_accepted"] = accepted_traces
    ctx.cov["drift_traces"] = drift
    ctx.cov["ext_finding_rows"] = finding_rows
    ctx.cov["ext_findings_seen"] = [fid for fid, _ in ext_seen]
    ctx.cov["evaluations"] = len(rows) + len(behs)
    ctx.cov["distinct_nontrivial"] = sum(1 for r in rows if simple_nontrivial(r)) + sum(1 for b in behs if cmd_nontrivial(b))
    tabs = sorted({r["in"]["tab"] for r in rows})
    ctx.cov["rows_by_table"] = {tab: sum(1 for r in rows if r["in"]["tab"] == tab) for tab in tabs}
    ctabs = sorted({b["sc"]["tab"] for b in behs})
    ctx.cov["scenarios_by_table"] = {tab: sum(1 for b in behs if b["sc"]["tab"] == tab) for tab in ctabs}
    ctx.cov["executions_of_the_command"] = sum(len(e["runs"]) for t in cmd_by_t for e in cmd_by_t[t] if e["e"] == "Pipe")
    ctx.cov["rule"] = ("rows = states of SimpleChecks.tla (one per input): require_tls (4 kinds of connection x TLS x 4 fail_action "
                       "settings x module / pipeline level), require_matching_rdns (9 EHLO spellings x 14 reverse-lookup answers "
                       "x 4 x 2, + sessions without an address), require_mx_record (10 sender shapes x 10 MX answers x 4 x 2 x 2 "
                       "resolver flavours), placement (10 situations x global / source / destination x 4 x 1-2 recipients); "
                       "scenarios = initial states of CmdCheck.tla: exit status x 'code' tables x stage, stdout kinds x stdin "
                       "handling, placeholders x sessions x hostile addresses x stage, message shapes on stdin, recipient stage "
                       "(per-recipient verdicts, {rcpts}, repeated recipients), start failures; every row and scenario goes "
                       "through the real code in both tiers (thorough: Full = TRUE tables); non-trivial = the documented rule "
                       "finds a failure / some execution ends other than 'exit 0, empty stdout'")
    ctx.cov["violated_predicates"] = preds
    ctx.cov["exhaustive"] = True
    for tab in tabs:
        for r in [r for r in rows if r["in"]["tab"] == tab and simple_nontrivial(r)][:1]:
            o = ev_by_t[r["id"]]["out"]
            ctx.cov["samples"].append({"situation": brief_simple(r["in"]), "documented": r["exp"],
                                       "out": {k: o.get(k) for k in SIMPLE_OUT + ("msg", "cfg")}})
    for tab in ctabs:
        for b in [b for b in behs if b["sc"]["tab"] == tab and cmd_nontrivial(b)][:1]:
            ctx.cov["samples"].append({"scenario": brief_sc(b["sc"]), "observed": brief_events(cmd_by_t[b["id"]])})
    ctx.assumptions += [
        "DNS is a go-mockdns resolver behind a recorder that answers like a real resolver: names exist in ASCII only, a "
        "non-ASCII query name is 'no such host' (what Go's resolver answers without asking anybody); flavour 'go' turns an "
        "answer without records into 'no such host'; temporary failure = *net.DNSError{IsTemporary}",
        "the reverse lookup of the client address is done by internal/endpoint/smtp's own fetchRDNSName (shim VerifFetchRDNS) "
        "against the same zone; the session is otherwise the ConnState the endpoint would build; the SMTP endpoint itself is "
        "not part of the binding",
        "the stateless checks are created by the factories maddy registered under the documented names and initialised from "
        "configuration text; only their resolver is replaced (shim VerifSetResolver)",
        "the external command is the test binary itself started with a marker argument (TestMain diverts before flag parsing); "
        "it records argv and stdin and writes / exits as the scenario says; 'left' = the /proc entry of the command's pid still "
        "exists when the pipeline command has returned; 'stalled' = a write to stdout stayed blocked for 10 s (15 s thorough)",
        "TLC 1.8.0 / 2026.09, CommunityModules Json",
    ]
    for fid, what in ext_seen:
        print("EXT-FINDING: ext=%s %s %s" % (PID, fid, what))


META = {
    "engine": "simplecheckscheck",
    "level": "model_checking",
    "technique": "TLA+ decision-table spec SimpleChecks.tla (predicates, documented procedure, named deviations) and state-machine "
                 "spec CmdCheck.tla / CmdCheckObs.tla (one message through a pipeline running an external command: expand, "
                 "spawn, feed / collect, exit, decide) enumerated by TLC; every row and scenario run through the real modules "
                 "(configuration text, module registry, real msgpipeline, go-mockdns, a real external process recording argv "
                 "and stdin); recorded rows / traces evaluated by TLC (SimpleChecksTrace.tla, CmdCheckTrace.tla)",
    "statement": "For every inbound session (TLS or not; TCP, Unix-socket or locally generated; any EHLO spelling - letter case, "
                 "trailing dot, internationalized in A- or U-labels, address literal -; reverse lookup giving one or several PTR "
                 "names, none, an empty answer, a temporary or another failure, or not applicable), every sender (address in any "
                 "letter case, internationalized domain in either spelling, null reverse-path, postmaster / a string without "
                 "domain), every MX answer of the sender's domain (records, null MX alone or among others, none, NXDOMAIN, "
                 "temporary or another failure) and every fail_action (ignore / quarantine / reject; default quarantine, reject "
                 "for require_tls): require_tls fails exactly the sessions without a completed TLS handshake; "
                 "require_matching_rdns fails exactly when no PTR record of the client address names the EHLO domain (names "
                 "compared as domain names) or there is none, and passes where reverse lookups do not apply (from the code); "
                 "require_mx_record passes the null reverse-path (from the code) and otherwise fails exactly when the sender's "
                 "domain has no MX record or one of them is the null MX; a failure gets exactly the configured action (reject = "
                 "5xx refusal of MAIL FROM - of the first RCPT TO of its block for a recipient-scoped check -, quarantine = the "
                 "flag at every target, ignore = nothing), a pass gets none; a temporary DNS failure never becomes a permanent "
                 "refusal (with reject it is a 4xx); codes are coherent; each check acts at its own stage only and looks up "
                 "nothing but the sender's domain, in ASCII, once. For check.command, for every run_on stage, 'code' table, "
                 "argument template, session, envelope, message and behaviour of the command: the command is executed exactly "
                 "once at the configured stage (default body; once per RCPT TO, also for a repeated recipient) and nowhere else; "
                 "it gets one argument per configured argument, each placeholder replaced by the documented value (empty where "
                 "undefined or not yet known, {rcpts} = the accepted recipients including the current one, one per line (from "
                 "the code), unknown placeholders untouched), whatever the addresses contain (no argument is added, split or re-expanded); its stdin is empty "
                 "except at the body stage, where it is exactly header + empty line + body; exit status 0 accepts, 1 rejects "
                 "with a permanent error, 2 quarantines unless overridden, a 'code' directive maps its status (0 included) to "
                 "its action; an unmapped status, death by signal or failure to start is never a permanent refusal (4xx, from "
                 "the code); stdout that is a header is prepended to the message header in its order, stdout that is not a "
                 "header gives a temporary error; the server never crashes or hangs on what the command does and leaves no "
                 "process behind.",
    "text": "TLC enumerates every row of SimpleChecks.tla (Prop(in, Rule(in)), RuleDecides) and every behaviour of every scenario "
            "of CmdCheck.tla (NoViolation, Terminates), and evaluates the same predicates on what the real checks answered "
            "(module level and through a real message pipeline) and on what a real external command was given (argv, stdin), "
            "how the pipeline answered and what the target received, for every row and scenario in both tiers.",
    "note": "DNS is go-mockdns behind a recorder; the SMTP endpoint is replaced by the calls it makes (its own reverse lookup "
            "included); the external command is the test binary re-executed; eight deviations of the unchanged tree are open "
            "extension findings (extensions/findings.json).",
    "design_ref": "extensions/X14.md",
}
