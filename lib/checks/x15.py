"""X15 - envelope address rewriting: modify.replace_sender / modify.replace_rcpt, the modifier group, the
table combinator table.chain behind them and the mutable SQL tables.

(T) TLC enumerates every row of Rewrite.tla (address shapes x table contents x groups of one to three
    modifiers; envelopes x `modify` blocks at pipeline / source / destination scope; the documentation's own
    examples) and of TableChain.tla (chains of up to three steps over multi-valued, single-valued, failing
    and identity tables) and checks the documented rule against the declarative property on every row; it
    checks SqlTable.tla (histories of SetKey / RemoveKey / Lookup / LookupMulti / Keys / reopen against an
    abstract map) exhaustively.  Every named deviation of HEAD must violate the same invariants.
(B) Every row is run through the real modifiers / the real msgpipeline / the real table.chain built from
    configuration text by the module registry; TLC-generated histories are run on the real
    table.sql_table / table.sql_query over sqlite3.  RewriteTrace.tla / TableChainTrace.tla /
    SqlTableTrace.tla evaluate the same predicates on what the real code did.
"""
import json
import os
from concurrent.futures import ThreadPoolExecutor

import vlib
import vtable

EXT = "X15"

# named deviations and the predicates each one may explain
RW_DEVS = {
    "LocalNotValidated": {"InvalidReplacementAccepted", "InvalidResult", "RcptFailureIgnored", "SenderFailureIgnored",
                          "StackResultWrong"},
    "QuotedFullAsLocal": {"LocalKeyResultWrong", "InvalidResult", "StackResultWrong", "EnvelopeWrong"},
    "NullLookedUp": {"NullSenderRewritten", "SenderWrong", "SenderRefused", "StackResultWrong"},
    "FailurePermanent": {"TableFailurePermanent"},
    "DocLocalPartName": {"DocExampleRefused"},
    "DocChainQuote": {"DocExampleRefused"},
}
CHAIN_DEVS = {
    "OptMissAbandonsStep": {"ChainResultWrong", "ChainErrorSwallowed", "ChainMissNotReported", "ChainProblemIgnored"},
}
SQL_DEVS = {
    "NamedArgsDefaultNo": {"LookupStaleValue", "LookupMultiWrong"},
}
# families of Rewrite.tla in which a deviation shows (for the as-is run)
RW_ASIS_FAMS = {"LocalNotValidated": ["mod0"], "QuotedFullAsLocal": ["mod0"], "NullLookedUp": ["mod0"],
                "FailurePermanent": ["pipe0"], "DocLocalPartName": ["doc"], "DocChainQuote": ["doc"]}

SQL_CFGS = ["T", "TC", "QN", "QD", "QP"]
SQL_PALS = ["plain", "quote", "like", "inject", "nul", "long", "case", "nfd", "blank", "param", "newline", "value"]
SQL_OPS = ["Set", "Remove", "Lookup", "LookupMulti", "Keys", "Reopen"]


def tla_set(xs, quote=True):
    return "{" + ", ".join(('"%s"' % x) if quote else str(x) for x in xs) + "}"


def rw_cfg(fams, full=False, devs=(), gen=False, tail="", spec="Spec"):
    return ("SPECIFICATION %s\nCONSTANTS\n  Fams = %s\n  PipeFull = %s\n  Devs = %s\n  Gen = %s\n%s\n" % (
        spec, tla_set(fams), "TRUE" if full else "FALSE", tla_set(devs), "TRUE" if gen else "FALSE", tail))


def chain_cfg(maxsteps, devs=(), gen=False, tail="", spec="Spec"):
    return ("SPECIFICATION %s\nCONSTANTS\n  MaxSteps = %d\n  Devs = %s\n  Gen = %s\n%s\n" % (
        spec, maxsteps, tla_set(devs), "TRUE" if gen else "FALSE", tail))


def sql_cfg(maxsteps, cfgs=SQL_CFGS, pals=("plain",), ops=SQL_OPS, devs=(), gen=False, tail="", spec="Spec"):
    return ("SPECIFICATION %s\nCONSTANTS\n  Strs = {\"s1\", \"s2\", \"s3\"}\n  Cfgs = %s\n  Pals = %s\n  MaxSteps = %d\n"
            "  Ops = %s\n  Devs = %s\n  Gen = %s\n%s\n" % (
                spec, tla_set(cfgs), tla_set(pals), maxsteps, tla_set(ops), tla_set(devs),
                "TRUE" if gen else "FALSE", tail))


GEN_TAIL = "INVARIANTS RuleSatisfiesProp\nCONSTRAINT Emit\nCHECK_DEADLOCK FALSE"
ASIS_TAIL = "INVARIANTS AsIsSatisfiesProp\nCHECK_DEADLOCK FALSE"
TRACE_TAIL = "CHECK_DEADLOCK FALSE\nPOSTCONDITION Post"


def load_findings():
    p = os.path.join(vlib.VERIF, "extensions", "findings.json")
    if not os.path.exists(p):
        return []
    return [f for f in json.load(open(p)).get("findings", []) if f.get("ext") == EXT]


def open_devs():
    """deviation -> finding, open findings only; VERIF_X15_ASSUME_FIXED=1 (fix verification / drills of the
    repairs): nothing is suppressed"""
    if os.environ.get("VERIF_X15_ASSUME_FIXED"):
        return {}
    out = {}
    for f in load_findings():
        d = f.get("match", {}).get("dev")
        if d and f.get("status", "open") == "open":
            out[d] = f
    return out


# ---- pattern B: rows out of TLC, through the real code, back into TLC ---------------------------------

HEAP = "2g"      # per JVM: the rows are small, the box is shared


def gen_rows(ctx, module, name, cfg_text, timeout=1500, workers=2):
    r = ctx.tlc_expect_ok(module, None, name=name, workers=workers, timeout=timeout, cfg_text=cfg_text, heap=HEAP)
    rows = vtable.rows_from(r)
    if len(rows) != r["distinct"]:
        raise vlib.Infra("%s/%s: TLC printed %d distinct rows for %d states" % (module, name, len(rows), r["distinct"]))
    r["out"], r["printed"] = "", []      # tens of megabytes for the big families
    return r, rows


def judge_rows(ctx, kind, rows, events, verdicts, odevs, dev_preds, pending, stats):
    """classify the verdicts of one family of rows"""
    by_id = {row["id"]: row for row in rows}
    ev_by_t = {e["t"]: e for e in events}
    drift = 0
    for t, v in sorted(verdicts.items()):
        row, ev = by_id[t], ev_by_t[t]
        devsets = sorted((sorted(d) for d in v["devs"]), key=lambda d: (len(d), d))
        minimal = devsets[0] if devsets else None
        explained = minimal is not None
        if explained and v["viol"]:
            allowed = set()
            for d in minimal:
                allowed |= dev_preds[d]
            explained = set(v["viol"]) <= allowed
        if v["viol"] and not explained:
            out = {k: w for k, w in ev["out"].items() if k != "text"}
            what = "%s: %s violated: in=%s out=%s" % (
                kind, ",".join(sorted(v["viol"])), json.dumps(row["in"], sort_keys=True)[:260],
                json.dumps(out, sort_keys=True)[:260])
            pending.append((what, {"property": EXT, "kind": kind, "row": {"in": row["in"], "exp": row.get("exp")},
                                   "out": ev["out"], "violated": sorted(v["viol"]),
                                   "how": "bin/check X15 --replay <this file>"}))
            for p in v["viol"]:
                stats["violated_predicates"][p] = stats["violated_predicates"].get(p, 0) + 1
        elif explained:
            for d in minimal:
                f = odevs[d]
                ctx.known(f["id"], f["what"])
                stats["rows_explained_by_finding"][f["id"]] = stats["rows_explained_by_finding"].get(f["id"], 0) + 1
                if len(minimal) == 1 and v["viol"]:
                    reference_replay(ctx, f["id"], {"property": EXT, "kind": kind, "finding": f["id"],
                                                    "row": {"in": row["in"], "exp": row.get("exp")}, "out": ev["out"],
                                                    "violated": sorted(v["viol"]), "how": "bin/check X15 --replay <this file>"})
        else:
            drift += 1
            if drift <= 10:
                print("DRIFT property=%s %s row=%d in=%s out=%s expected=%s" % (
                    EXT, kind, t, json.dumps(row["in"], sort_keys=True)[:300],
                    json.dumps({k: w for k, w in ev["out"].items() if k != "text"}, sort_keys=True)[:300],
                    json.dumps(row.get("exp"), sort_keys=True)[:300]))
    stats["rows_drift"] += drift


_saved = set()


def reference_replay(ctx, fid, obj):
    """X15_SAVE_REPLAYS=1: store one replay artefact per open finding (the first row / trace that shows it alone)"""
    if os.environ.get("X15_SAVE_REPLAYS") and fid not in _saved:
        _saved.add(fid)
        print("REFERENCE-REPLAY %s %s" % (fid, ctx.save_replay(obj)))


def forge(events, by_id, t, pred, chg):
    """binding self-test: a copy of a real answer, altered"""
    for e in events:
        if pred(by_id[e["t"]], e):
            f = json.loads(json.dumps(e))
            f["t"] = t
            chg(f["out"])
            return f
    raise vlib.Infra("binding self-test: no base row")


def run_rewrite(ctx, binary, odevs, replay_row, pending, stats):
    thorough = ctx.tier == "thorough"
    open_rw = sorted(d for d in odevs if d in RW_DEVS)
    if replay_row:
        rows = [dict(replay_row, id=1)]
    else:
        jobs = [("rw-mod1", ["mod1", "doc"], False), ("rw-mod2", ["mod2"], thorough), ("rw-pipe", ["pipe"], thorough)]
        if thorough:
            jobs.append(("rw-mod3", ["mod3"], False))

        def one(job):
            name, fams, full = job
            return gen_rows(ctx, "Rewrite", name, rw_cfg(fams, full=full, gen=True, tail=GEN_TAIL), timeout=2400)
        with ThreadPoolExecutor(max_workers=4) as ex:
            res = list(ex.map(one, jobs))
        rows = []
        for (name, fams, full), (r, rs) in zip(jobs, res):
            ctx.log("TLC Rewrite %s: %d rows, the documented rule satisfies the property on all, %.1fs" % (
                name, r["distinct"], r["wall"]))
            stats["states"] += r["distinct"]
            stats["transitions"] += r["generated"]
            stats["rows_by_family"][name] = r["distinct"]
            rows += rs
        for i, row in enumerate(rows):
            row["id"] = i + 1

        def asis(dev):
            return ctx.tlc("Rewrite", None, name="rw-asis-" + dev, workers=1, timeout=600, heap="1g",
                           cfg_text=rw_cfg(RW_ASIS_FAMS[dev], devs=[dev], tail=ASIS_TAIL))
        with ThreadPoolExecutor(max_workers=3) as ex:
            ras = list(ex.map(asis, sorted(RW_DEVS)))
        for dev, ra in zip(sorted(RW_DEVS), ras):
            if ra["invariant"] != "AsIsSatisfiesProp":
                raise vlib.Infra("as-is rewriting model (%s) does not violate the property: predicates vacuous? (%s)" % (
                    dev, ra["error"]))
    by_id = {row["id"]: row for row in rows}
    items = [{"id": row["id"], "in": row["in"]} for row in rows]
    events = ctx.run_shards(binary, items, test="TestRows", name="rw-replay", shards=8,
                            env_extra={"VERIF_DOCS_REPO": ctx.repo})
    events = [e for e in events if e["e"] == "Row"]
    if len(events) != len(rows):
        raise vlib.Infra("harness answered %d of %d rewriting rows" % (len(events), len(rows)))
    selftest = {}
    if not replay_row:
        def drop_last(o):
            o["out"] = o["out"][:-1]

        def other_target(o):
            for rc in o["rc"]:
                for dl in rc["dl"]:
                    dl["t"] = "T2" if dl["t"] == "T1" else "T1"
        forged = [
            forge(events, by_id, 900001, lambda row, e: row["in"]["fam"] == "mod" and e["out"]["res"] == "ok"
                  and len(e["out"]["out"]) == 2 and len(row["in"]["mods"]) == 1, drop_last),
            forge(events, by_id, 900002, lambda row, e: row["in"]["fam"] == "pipe" and e["out"]["load"] == "ok"
                  and any(rc["dl"] for rc in e["out"]["rc"]) and not row["in"]["g"] and not row["in"]["s"]
                  and not row["in"]["d"], other_target),
        ]
        selftest = {900001: "value dropped", 900002: "delivered to the other target"}
        events = events + forged
    slim = [{"t": e["t"], "seq": e["seq"], "e": "Row", "in": e["in"],
             "out": {k: w for k, w in e["out"].items() if k not in ("text", "raw", "fromraw", "err", "loaderr")}}
            for e in events]
    tcfg = rw_cfg([], full=False, tail="  OpenDevs = %s\n%s" % (tla_set(open_rw), TRACE_TAIL), spec="TSpec")
    verdicts, accepted = vtable.validate_rows(ctx, "RewriteTrace", tcfg, slim, name="rw-trace",
                                              batch=4000 if thorough else 2500, par=4, timeout=2400, heap=HEAP)
    for t, what in selftest.items():
        v = verdicts.get(t)
        if not v or not v["viol"] or v["devs"]:
            raise vlib.Infra("binding self-test failed: forged rewriting row (%s) was accepted or explained" % what)
        del verdicts[t]
    judge_rows(ctx, "rewrite", rows, events, verdicts, odevs, RW_DEVS, pending, stats)
    stats["rows_run"] += len(rows)
    stats["rows_accepted"] += accepted
    if selftest:
        stats["selftests"].append("rewriting rows: " + "; ".join(selftest.values()))
    ev_by_t = {e["t"]: e for e in events}
    for fam in ("mod", "pipe"):
        pick = [row for row in rows if row["in"]["fam"] == fam]
        if pick:
            row = pick[len(pick) // 3]
            ctx.cov["samples"].append({"row": row["in"], "expected": row.get("exp"),
                                       "out": {k: w for k, w in ev_by_t[row["id"]]["out"].items() if k != "text"},
                                       "config": ev_by_t[row["id"]]["out"].get("text", "")})
    stats["nontrivial"] += sum(1 for row in rows if row["in"]["fam"] == "pipe" or
                               (row["in"]["fam"] == "mod" and row.get("exp", {}).get("out") != [row["in"]["addr"]]))
    return accepted


def run_chain(ctx, binary, odevs, replay_row, pending, stats):
    thorough = ctx.tier == "thorough"
    open_ch = sorted(d for d in odevs if d in CHAIN_DEVS)
    maxsteps = 3 if thorough else 2
    if replay_row:
        rows = [dict(replay_row, id=1)]
    else:
        r, rows = gen_rows(ctx, "TableChain", "chain-rows", chain_cfg(maxsteps, gen=True, tail=GEN_TAIL), workers=2)
        ctx.log("TLC TableChain: %d rows (chains of up to %d steps), the rule satisfies the property on all, %.1fs" % (
            r["distinct"], maxsteps, r["wall"]))
        stats["states"] += r["distinct"]
        stats["transitions"] += r["generated"]
        stats["rows_by_family"]["chain"] = r["distinct"]
        for dev in sorted(CHAIN_DEVS):
            ra = ctx.tlc("TableChain", None, name="chain-asis-" + dev, workers=1, timeout=300, heap="1g",
                         cfg_text=chain_cfg(2, devs=[dev], tail=ASIS_TAIL))
            if ra["invariant"] != "AsIsSatisfiesProp":
                raise vlib.Infra("as-is chain model (%s) does not violate the property (%s)" % (dev, ra["error"]))
    by_id = {row["id"]: row for row in rows}
    items = [{"id": row["id"], "in": row["in"]} for row in rows]
    events = ctx.run_shards(binary, items, test="TestChain", name="chain-replay", shards=4)
    events = [e for e in events if e["e"] == "Row"]
    if len(events) != len(rows):
        raise vlib.Infra("harness answered %d of %d chain rows" % (len(events), len(rows)))
    selftest = {}
    if not replay_row:
        def swap(o):
            o["vs"] = list(reversed(o["vs"]))
        forged = [forge(events, by_id, 900001, lambda row, e: e["out"]["res"] == "ok" and len(set(e["out"]["vs"])) >= 2
                        and len(row["in"]["steps"]) == 1, swap)]
        selftest = {900001: "order of the values reversed"}
        events = events + forged
    slim = [{"t": e["t"], "seq": e["seq"], "e": "Row", "in": e["in"],
             "out": {k: e["out"][k] for k in ("res", "vs", "val", "ok")}} for e in events]
    tcfg = chain_cfg(maxsteps, tail="  OpenDevs = %s\n%s" % (tla_set(open_ch), TRACE_TAIL), spec="TSpec")
    verdicts, accepted = vtable.validate_rows(ctx, "TableChainTrace", tcfg, slim, name="chain-trace", batch=6000,
                                              par=2, timeout=1200, heap=HEAP)
    for t, what in selftest.items():
        v = verdicts.get(t)
        if not v or not v["viol"] or v["devs"]:
            raise vlib.Infra("binding self-test failed: forged chain row (%s) was accepted or explained" % what)
        del verdicts[t]
    judge_rows(ctx, "chain", rows, events, verdicts, odevs, CHAIN_DEVS, pending, stats)
    stats["rows_run"] += len(rows)
    stats["rows_accepted"] += accepted
    if selftest:
        stats["selftests"].append("chain rows: " + "; ".join(selftest.values()))
    ev_by_t = {e["t"]: e for e in events}
    pick = [row for row in rows if len(row["in"]["steps"]) == 2 and len(row.get("exp", {}).get("vs", [])) >= 3]
    if pick:
        row = pick[len(pick) // 2]
        ctx.cov["samples"].append({"row": row["in"], "expected": row.get("exp"),
                                   "out": {k: w for k, w in ev_by_t[row["id"]]["out"].items() if k != "text"},
                                   "config": ev_by_t[row["id"]]["out"].get("text", "")})
    stats["nontrivial"] += sum(1 for row in rows if len(row["in"]["steps"]) >= 2)
    return accepted


# ---- pattern A: the SQL tables ------------------------------------------------------------------------------

def validate_traces(ctx, module, cfg_text, events, name, batch=1500, timeout=2400):
    """like vlib.Ctx.validate (events sorted by t, seq; batches of whole traces), with a bounded JVM heap"""
    by_t = {}
    for e in events:
        by_t.setdefault(e["t"], []).append(e)
    ts = sorted(by_t)
    verdicts, states = {}, 0
    for bi in range(0, len(ts), batch):
        chunk = ts[bi:bi + batch]
        d = ctx.sub("%s-b%d" % (name, bi // batch))
        with open(os.path.join(d, "trace.ndjson"), "w") as f:
            for t in chunk:
                for e in by_t[t]:
                    f.write(json.dumps(e) + "\n")
        r = ctx.tlc(module, None, name=os.path.basename(d), workers=1, timeout=timeout, cfg_text=cfg_text, heap=HEAP)
        if not r["ok"]:
            raise vlib.Infra("trace validation run failed: invariant=%s error=%s (see %s/tlc.out)" % (
                r["invariant"], r["error"], r["dir"]))
        states += r["distinct"]
        got = None
        for tag, val in r["printed"]:
            if tag == "VERDICTS":
                got = val
        if got is None:
            raise vlib.Infra("no VERDICTS line from %s (see %s/tlc.out)" % (module, r["dir"]))
        for rec in got:
            verdicts.setdefault(rec["t"], []).append(rec)
        for t in chunk:
            if t not in verdicts:
                raise vlib.Infra("trace %s produced no verdict (incomplete trace?) see %s" % (t, d))
    ctx.cov["trace_states"] = ctx.cov.get("trace_states", 0) + states
    return verdicts


def behaviours_from(r):
    return [{"cfg": val["cfg"], "pal": val["pal"], "hist": val["hist"]} for tag, val in r["printed"] if tag == "BEH"]


def run_sql(ctx, binary, odevs, replay_beh, pending, stats):
    thorough = ctx.tier == "thorough"
    open_sql = sorted(d for d in odevs if d in SQL_DEVS)
    if replay_beh:
        behs = [replay_beh]
    else:
        steps = 8 if thorough else 6
        r = ctx.tlc_expect_ok("SqlTable", None, name="sql-mc", workers=4, timeout=1800, heap=HEAP,
                              cfg_text=sql_cfg(steps, tail="VIEW View\nINVARIANTS NoViolation TypeOK DesignIsTheMap\nCHECK_DEADLOCK FALSE"))
        ctx.log("TLC SqlTable exhaustive: %d distinct states, %d generated, depth %d, %.1fs" % (
            r["distinct"], r["generated"], r["depth"], r["wall"]))
        stats["states"] += r["distinct"]
        stats["transitions"] += r["generated"]
        stats["sql_states"] = r["distinct"]
        for dev in sorted(SQL_DEVS):
            ra = ctx.tlc("SqlTable", None, name="sql-asis-" + dev, workers=2, timeout=300, heap="1g",
                         cfg_text=sql_cfg(4, devs=[dev], tail="VIEW View\nINVARIANTS NoViolation\nCHECK_DEADLOCK FALSE"))
            if ra["invariant"] != "NoViolation":
                raise vlib.Infra("as-is SQL table model (%s) does not violate NoViolation (%s)" % (dev, ra["error"]))
        # behaviours: every history of two mutating / reading calls under every configuration and palette
        # (breadth-first), plus seeded simulation of longer histories
        nsim = 1500 if thorough else 120
        jobs = [
            ("sql-sweep", dict(name="sql-sweep", workers=2, timeout=1500,
                               cfg_text=sql_cfg(2, pals=SQL_PALS, gen=True, tail="CHECK_DEADLOCK FALSE"))),
            ("sql-sweep3", dict(name="sql-sweep3", workers=2, timeout=1500,
                                cfg_text=sql_cfg(3, cfgs=["T", "QN", "QD"], pals=["quote", "nul"], ops=["Set", "Remove", "Reopen"],
                                                 gen=True, tail="CHECK_DEADLOCK FALSE"))),
            ("sql-sim", dict(name="sql-sim", workers=1, timeout=1500, simulate=nsim, depth=40,
                             cfg_text=sql_cfg(10, pals=SQL_PALS, gen=True, tail="CHECK_DEADLOCK FALSE"))),
            ("sql-sim-mut", dict(name="sql-sim-mut", workers=1, timeout=1500, simulate=nsim, depth=40,
                                 cfg_text=sql_cfg(12, pals=SQL_PALS, ops=["Set", "Remove", "Reopen"], gen=True,
                                                  tail="CHECK_DEADLOCK FALSE"))),
        ]

        def gen(job):
            name, kw = job
            g = ctx.tlc("SqlTable", None, heap=HEAP, **kw)
            if not g["ok"]:
                raise vlib.Infra("behaviour generation %s failed: %s %s" % (name, g["invariant"], g["error"]))
            got = behaviours_from(g)
            g["out"], g["printed"] = "", []
            return name, got
        with ThreadPoolExecutor(max_workers=4) as ex:
            gens = list(ex.map(gen, jobs))
        behs, seen = [], set()
        for name, got in gens:
            if not got:
                raise vlib.Infra("TLC produced no behaviours for " + name)
            got.sort(key=lambda b: json.dumps(b, sort_keys=True))
            stats["sql_generated"][name] = len(got)
            if name.startswith("sql-sweep"):
                cap = (6000 if name == "sql-sweep" else 3000) if thorough else 260
                got = vlib.sample(ctx.rng, got, cap)
            for b in got:
                k = json.dumps(b, sort_keys=True)
                if k not in seen:
                    seen.add(k)
                    b["plan"] = name
                    behs.append(b)
    for i, b in enumerate(behs):
        b["id"] = i + 1
    ctx.log("%d SQL table behaviours to replay (%d calls)" % (len(behs), sum(len(b["hist"]) for b in behs)))
    events = ctx.run_shards(binary, behs, test="TestReplay", name="sql-replay", shards=8)
    by_id = {b["id"]: b for b in behs}
    full = {}
    for e in events:
        full.setdefault(e["t"], []).append(e)
    slim = [{k: v for k, v in e.items() if k != "err"} for e in events]

    selftest = {}
    if not replay_beh:
        base = None
        for b in behs:
            evs = [e for e in slim if e["t"] == b["id"]]
            if b["cfg"] == "T" and sum(1 for e in evs if e["e"] == "Lookup" and e["ok"]) >= 2:
                base = evs
                break
        if base:
            c1 = json.loads(json.dumps([dict(e, t=900001) for e in base]))
            for e in c1:
                if e["e"] == "Lookup" and e["ok"]:
                    e["val"] = "s1" if e["val"] != "s1" else "s2"
                    break
            c2 = [dict(e, t=900002) for e in base]
            k = next(i for i, e in enumerate(c2) if e["e"] == "Set")
            del c2[k]
            slim = slim + c1 + c2
            selftest = {900001: "corrupt-field", 900002: "drop-event"}

    ts = sorted(set(e["t"] for e in slim))
    nchunk = max(1, min(3, len(ts) // 200))
    part = {t: i % nchunk for i, t in enumerate(ts)}
    chunks = [[e for e in slim if part[e["t"]] == k] for k in range(nchunk)]
    tcfg = sql_cfg(0, devs=open_sql, tail=TRACE_TAIL, spec="TSpec")
    with ThreadPoolExecutor(max_workers=nchunk) as ex:
        outs = list(ex.map(lambda k: validate_traces(ctx, "SqlTableTrace", tcfg, chunks[k], "sql-val%d" % k), range(nchunk)))
    verdicts = {}
    for v in outs:
        verdicts.update(v)
    ok = drift = 0
    for t, recs in sorted(verdicts.items()):
        if t in selftest:
            if any(not r["drift"] and not r["viol"] for r in recs):
                raise vlib.Infra("binding self-test failed: %s SQL trace was accepted" % selftest[t])
            continue
        viol = sorted(set(v for r in recs for v in r["viol"]))
        conform = [r for r in recs if not r["drift"]]
        b = by_id[t]
        if viol:
            explained = None
            if conform and b["cfg"] == "QD":
                for d in open_sql:
                    if set(viol) <= SQL_DEVS[d]:
                        explained = d
            if explained:
                f = odevs[explained]
                ctx.known(f["id"], f["what"])
                stats["rows_explained_by_finding"][f["id"]] = stats["rows_explained_by_finding"].get(f["id"], 0) + 1
                reference_replay(ctx, f["id"], {"property": EXT, "kind": "sql", "finding": f["id"],
                                                "behaviour": {k: v for k, v in b.items() if k != "id"},
                                                "trace": full.get(t, []), "violated": viol,
                                                "how": "bin/check X15 --replay <this file>"})
                ok += 1
                continue
            for p in viol:
                stats["violated_predicates"][p] = stats["violated_predicates"].get(p, 0) + 1
            pending.append(("SQL table (%s, keys %s) violates %s" % (b["cfg"], b["pal"], ",".join(viol)),
                            {"property": EXT, "kind": "sql", "behaviour": {k: v for k, v in b.items() if k != "id"},
                             "trace": full.get(t, []), "violated": viol, "how": "bin/check X15 --replay <this file>"}))
        elif conform:
            ok += 1
        else:
            drift += 1
            if drift <= 10:
                print("DRIFT property=%s sql trace=%d cfg=%s pal=%s first-unexplained-seq=%s" % (
                    EXT, t, b["cfg"], b["pal"], recs[0]["driftAt"]))
    if selftest:
        stats["selftests"].append("SQL traces: corrupted-field and dropped-event traces rejected")
    stats["sql_traces"] = len(behs)
    stats["sql_traces_ok"] = ok
    stats["sql_drift"] = drift
    stats["sql_calls"] = sum(1 for e in events if e["e"] not in ("Cfg", "End"))
    stats["nontrivial"] += sum(1 for b in behs if b["pal"] != "plain")
    for b in behs[:1]:
        ctx.cov["samples"].append({"behaviour": b, "trace": [
            {k: v for k, v in e.items() if k not in ("t",)} for e in full.get(b["id"], [])[:12]]})
    return ok


def run(ctx, replay):
    try:
        _run(ctx, replay)
    except vlib.Infra:
        raise
    except Exception as e:      # nothing that goes wrong inside the driver is a statement about maddy
        import traceback
        raise vlib.Infra("driver error: %s\n%s" % (e, traceback.format_exc()[-1800:]))


def _run(ctx, replay):
    odevs = open_devs()
    binary = ctx.build_harness("rewritecheck")
    pending = []

    def new_stats():
        return {"states": 0, "transitions": 0, "rows_by_family": {}, "rows_run": 0, "rows_accepted": 0, "rows_drift": 0,
                "rows_explained_by_finding": {}, "violated_predicates": {}, "selftests": [], "nontrivial": 0,
                "sql_generated": {}}

    def merge(into, st):
        for k, v in st.items():
            if isinstance(v, dict):
                for kk, vv in v.items():
                    if isinstance(vv, int) and k != "rows_by_family" and k != "sql_generated":
                        into[k][kk] = into[k].get(kk, 0) + vv
                    else:
                        into[k][kk] = vv
            elif isinstance(v, list):
                into[k] = into.get(k, []) + v
            else:
                into[k] = into.get(k, 0) + v
    stats = new_stats()
    robj = json.load(open(replay)) if replay else None
    only = os.environ.get("X15_ONLY")      # development aid: run one of the three parts
    acc = 0
    if robj:
        kind = robj.get("kind")
        if kind == "rewrite":
            acc = run_rewrite(ctx, binary, odevs, robj["row"], pending, stats)
        elif kind == "chain":
            acc = run_chain(ctx, binary, odevs, robj["row"], pending, stats)
        elif kind == "sql":
            acc = run_sql(ctx, binary, odevs, robj["behaviour"], pending, stats)
        else:
            raise vlib.Infra("not an X15 replay file: " + replay)
    else:
        with ThreadPoolExecutor(max_workers=3) as ex:
            parts = [("rewrite", run_rewrite), ("chain", run_chain), ("sql", run_sql)]
            parts = [(name, fn, new_stats()) for name, fn in parts if not only or only == name]      # one record per thread
            futs = [ex.submit(fn, ctx, binary, odevs, None, pending, st) for name, fn, st in parts]
            acc = sum(f.result() for f in futs)
            for name, fn, st in parts:
                merge(stats, st)

    # one artefact per distinct set of violated predicates first (vlib keeps the first eight)
    seen, first, rest = set(), [], []
    for what, obj in pending:
        k = (obj["kind"], tuple(obj["violated"]))
        (rest if k in seen else first).append((what, obj))
        seen.add(k)
    for what, obj in first + rest:
        ctx.violation(what, obj)

    ctx.cov["states"] = stats["states"]
    ctx.cov["transitions"] = stats["transitions"]
    ctx.cov["traces_validated_against_impl"] = acc
    ctx.cov["evaluations"] = stats["rows_run"] + stats.get("sql_traces", 0)
    ctx.cov["distinct_nontrivial"] = stats["nontrivial"]
    ctx.cov["rows_by_family"] = stats["rows_by_family"]
    ctx.cov["rows_run_through_real_code"] = stats["rows_run"]
    ctx.cov["rows_accepted"] = stats["rows_accepted"]
    ctx.cov["rows_drift"] = stats["rows_drift"]
    ctx.cov["rows_explained_by_finding"] = stats["rows_explained_by_finding"]
    ctx.cov["violated_predicates"] = stats["violated_predicates"]
    for k in ("sql_states", "sql_generated", "sql_traces", "sql_traces_ok", "sql_drift", "sql_calls"):
        if k in stats:
            ctx.cov[k] = stats[k]
    ctx.cov["drift_traces"] = stats["rows_drift"] + stats.get("sql_drift", 0)
    if stats["selftests"]:
        ctx.cov["binding_selftest"] = "forged answers rejected - " + " | ".join(stats["selftests"])
    ctx.cov["asis_counterexamples_found"] = sorted(RW_DEVS) + sorted(CHAIN_DEVS) + sorted(SQL_DEVS) if not replay else []
    ctx.cov["rule"] = ("rows = every state of Rewrite.tla (families mod1, mod2, doc, pipe core; thorough adds mod3 and the "
                       "full pipe space) and of TableChain.tla (chains of up to 2 / 3 steps): all of them are run through "
                       "the real code in both tiers; SQL behaviours = complete behaviours of SqlTable.tla printed by TLC: "
                       "breadth-first sweeps (every history of two calls under every configuration and key palette, "
                       "sampled by VERIF_SEED in quick) + seeded -simulate of 10-12 calls; non-trivial = a row whose "
                       "mandated result differs from its input / a chain of two or more steps / keys that are not plain words")
    ctx.cov["exhaustive"] = False      # rows: all of them; SQL histories: sweeps sampled in quick + simulation
    ctx.assumptions += [
        "addresses and table contents are drawn from the finite alphabet of Rewrite.tla (harness/rewritecheck/alphabet.go "
        "spells the tokens); a string outside the alphabet coming back from the code is judged as 'not an address of the alphabet'",
        "table.file / table.regexp / table.static lookups themselves are X01's subject; quoted local parts through "
        "table.email_localpart are excluded (X01-F5)",
        "the reply class of a failed command is what Endpoint.wrapErr of endpoint/smtp makes of the error msgpipeline returned",
        "SQL tables on sqlite3 (cgo, mattn/go-sqlite3) only; PostgreSQL is not exercised; one handle at a time",
        "TLC 1.8.0, CommunityModules Json reader",
    ]
    if ctx.known_seen:
        for fid, what in sorted(ctx.known_seen):
            print("EXT-FINDING: ext=%s %s %s" % (EXT, fid, what))
        ctx.cov["ext_findings_seen"] = sorted(k for k, _ in ctx.known_seen)
        ctx.known_seen = []


META = {
    "engine": "rewritecheck",
    "level": "model_checking",
    "technique": "TLA+ specs Rewrite.tla / TableChain.tla (pattern B: TLC enumerates every row and checks the documented "
                 "rule against the declarative property) and SqlTable.tla (pattern A, model-checked); every row is run "
                 "through the real modify.replace_sender / replace_rcpt, modifier group, msgpipeline and table.chain built "
                 "from configuration text by the module registry, TLC-generated histories through the real "
                 "table.sql_table / table.sql_query on sqlite3; RewriteTrace.tla / TableChainTrace.tla / "
                 "SqlTableTrace.tla evaluate the predicates on what the real code did",
    "statement": "For every envelope address (any letter case, Unicode normalisation form and A-label / U-label spelling, "
                 "quoted local parts, the domain-less postmaster, the null reverse-path, malformed strings), every table "
                 "content and every group of replace_sender / replace_rcpt modifiers at pipeline, source or destination "
                 "scope: the address is looked up first as the whole normalised address (domain decoded from Punycode, NFC, "
                 "case-folded), then by its normalised local part; a key found under the whole address wins; a local-part "
                 "replacement keeps the domain, a replacement that is itself a full address replaces the whole address "
                 "(from the code); an address without a matching key is passed on unchanged; the lookup is not repeated "
                 "for the replacement; recipients may expand 1-to-N (all values, in table order, not deduplicated), the "
                 "sender takes one value; every address handed on is a valid address and an invalid replacement is an "
                 "error (from the code); a failing table lookup fails the command with a temporary reply and nothing is "
                 "delivered to the unrewritten address (from the code); the null reverse-path is never rewritten (from "
                 "the code); a replace_sender does nothing in a destination block; the modifiers of one block are applied "
                 "in order, each to every address the previous one produced, and the pipeline applies its scopes in the "
                 "order pipeline, source, destination, selecting the destination block on the rewritten address; the "
                 "documentation's own examples load.  table.chain applies every step to every value of the previous step "
                 "and concatenates the results in order; a value missing from a `step` makes the whole lookup 'not "
                 "found', a value missing from an `optional_step` is passed on unchanged next to the replacements of the "
                 "other values; a lookup error fails the chain; Lookup is the first value of LookupMulti.  A mutable SQL "
                 "table (sql_table, or sql_query with the documented add / list / set / del queries and the documented "
                 "default named_args yes) behaves like a map under every history of SetKey / RemoveKey / Lookup / "
                 "LookupMulti / Keys and across close and re-open: a lookup returns the value set last, a removed key is "
                 "not found, Keys lists exactly the present keys, and keys and values containing quotes, LIKE wildcards, "
                 "SQL fragments, NUL, newlines, placeholder names, upper / lower case or NFC / NFD variants, the empty "
                 "string or 100 000 characters are data, not syntax.",
    "text": "TLC enumerates 7 241 (quick) / 32 889 (thorough) rewriting rows and 1 092 / 17 476 chain rows, checks the "
            "documented rule against the property on each, and every row is run through the real code in both tiers; "
            "SqlTable.tla is model-checked and 760 (quick) / 12 000 (thorough) TLC-generated histories are run on "
            "real sqlite-backed tables; the same predicates are evaluated by TLC on everything the real code answered.",
    "note": "Finite alphabet of addresses / table contents; sqlite3 only; the reply class is taken from the SMTP "
            "endpoint's own error conversion; trusted: TLC, the harness, Go toolchain.",
    "design_ref": "extensions/X15.md",
}
