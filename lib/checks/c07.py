"""C07 - DMARC verdict and action equal the specification for every input.

(S) spec/Dmarc.tla: input tables (alignment over every pair of spellings, verdict table over
    multisets of DKIM results x SPF result x modes, action table over verdict class x p x sp x
    pct x lookup outcomes, From-header shapes), the property as named predicates (Prop), the
    documented procedure (Rule) and the code's known deviations as named switches (RuleD).
(T) TLC enumerates every row, checks Prop(in, Rule(in)) and pass <=> aligned passing identifier,
    prints the rows; a second run with the deviations on must violate Prop (non-vacuity).
(B) rows are run through the real internal/dmarc (ExtractFromDomain, FetchRecord,
    EvaluateAlignment, Verifier.Apply, scripted resolver) and the real message pipeline
    (check_runner.applyResults: SMTP error class / quarantine flag) by harness/dmarccheck;
    spec/DmarcTrace.tla evaluates Prop on what the code answered.
"""
import json

import vlib
import vtable

PID = "C07"

MC_CFG = """SPECIFICATION Spec
CONSTANTS
  MaxDkim = %(maxdkim)d
  Devs = {%(devs)s}
  Gen = %(gen)s
INVARIANTS %(inv)s
%(emit)s
CHECK_DEADLOCK FALSE
"""

TRACE_CFG = """SPECIFICATION TSpec
CONSTANTS
  MaxDkim = 3
  Devs = {}
  Gen = FALSE
  OpenDevs = {%(open)s}
CHECK_DEADLOCK FALSE
POSTCONDITION Post
"""


def q(names):
    return ", ".join('"%s"' % n for n in sorted(names))


def nontrivial(row):
    i = row["in"]
    if i["tab"] != "verdict":
        return True
    return i["spf"]["v"] in ("pass", "temperror") or any(d["v"] in ("pass", "temperror") for d in i["dkim"])


def run(ctx, replay):
    thorough = ctx.tier == "thorough"
    entries = vtable.known_entries(PID)
    open_by_dev = {e["match"]["deviation"]: e for e in entries if e.get("status", "open") == "open"}
    all_devs = sorted(e["match"]["deviation"] for e in entries)

    # ---- (T) + rows ---------------------------------------------------------
    org_model = None
    if replay:
        obj = json.load(open(replay))
        rows = [obj["row"]]
        rows[0]["id"] = 1
        sel = rows
    else:
        maxdkim = 3 if thorough else 2
        r = ctx.tlc_expect_ok("Dmarc", None, name="mc", workers=8, timeout=2400,
                              cfg_text=MC_CFG % dict(maxdkim=maxdkim, devs="", gen="TRUE",
                                                     inv="RuleSatisfiesProp PassIffAligned",
                                                     emit="CONSTRAINT Emit"))
        rows = vtable.rows_from(r)
        if len(rows) != r["distinct"]:
            raise vlib.Infra("TLC printed %d distinct rows for %d states" % (len(rows), r["distinct"]))
        for tag, val in r["printed"]:
            if tag == "ORGTABLE":
                org_model = val
        ctx.cov["states"] = r["distinct"]
        ctx.cov["transitions"] = r["generated"]
        ctx.cov["model_depth"] = r["depth"]
        ctx.log("TLC: %d input rows (MaxDkim=%d); Prop(in, Rule(in)) and pass<=>aligned hold on all, %.1fs" % (
            r["distinct"], maxdkim, r["wall"]))
        # as-is: with the code's deviations switched on the same predicates must fail (non-vacuity)
        if all_devs:
            ra = ctx.tlc("Dmarc", None, name="asis", workers=4, timeout=600,
                         cfg_text=MC_CFG % dict(maxdkim=1, devs=q(all_devs), gen="FALSE",
                                                inv="AsIsSatisfiesProp", emit=""))
            if ra["invariant"] != "AsIsSatisfiesProp":
                raise vlib.Infra("as-is model (%s) does not violate the property: predicates vacuous? (%s)" % (
                    all_devs, ra["error"]))
            ctx.cov["asis_counterexample_found"] = True
        # which rows go through the real code
        if thorough:
            sel = rows
        else:
            fixed = [row for row in rows if row["in"]["tab"] != "verdict"]
            verdict_rows = [row for row in rows if row["in"]["tab"] == "verdict"]
            sel = fixed + vlib.sample(ctx.rng, verdict_rows, max(1, len(verdict_rows) // 4))
            sel.sort(key=lambda row: row["id"])
    by_id = {row["id"]: row for row in sel}
    ctx.log("%d rows to run through the real code" % len(sel))

    # ---- (B) the real code ------------------------------------------------------
    binary = ctx.build_harness("dmarccheck")
    items = [{"id": row["id"], "in": row["in"], "zone": row["zone"]} for row in sel]
    events = ctx.run_shards(binary, items, timeout=1500)
    org_events = [e for e in events if e["e"] == "OrgTable"]
    events = [e for e in events if e["e"] == "Row"]
    ctx.log("real code answered %d rows" % len(events))
    if len(events) != len(sel):
        raise vlib.Infra("harness answered %d of %d rows" % (len(events), len(sel)))
    ev_by_t = {e["t"]: e for e in events}
    for e in events:
        if e["out"].get("infra"):
            raise vlib.Infra("row %d: %s" % (e["t"], e["out"]["infra"]))
    # the model's organizational-domain constant against the public suffix list the code uses
    if org_model is not None:
        for oe in org_events:
            for name, want in org_model.items():
                got = oe["table"].get(name)
                if not got or got["org"] != want["org"] or got["psuffix"] != want["psuffix"]:
                    raise vlib.Infra("Org constant of Dmarc.tla disagrees with the public suffix list for %s: "
                                     "model %s, list %s" % (name, want, got))
        ctx.cov["org_table_checked_against_publicsuffix"] = len(org_model)

    # binding self-test: forged outputs must be rejected, and must not pass as known findings
    selftest = {}
    if not replay:
        def forge(t, pred, **chg):
            # built from the row and the rule's output only: independent of what the code did
            for e in events:
                row = by_id[e["t"]]
                if pred(row):
                    f = json.loads(json.dumps(e))
                    f["t"] = t
                    f["out"].update(row["exp"])
                    f["out"].update(chg)
                    return f
            return None
        lower = lambda row: row["in"]["from"].islower()
        forged = [
            (900001, "fail turned into pass", forge(900001, lambda row: lower(row) and row["exp"]["action"] == "permreject",
                                                    verdict="pass", action="accept")),
            (900002, "quarantine dropped", forge(900002, lambda row: lower(row) and row["exp"]["action"] == "quarantine",
                                                 action="accept")),
            (900003, "temporary refusal made permanent", forge(900003, lambda row: lower(row) and row["in"]["ldom"] == "servfail"
                                                               and row["in"]["shape"] == "one", action="permreject")),
        ]
        for t, what, f in forged:
            if f is None:
                raise vlib.Infra("binding self-test: no base row for '%s'" % what)
            selftest[t] = what
            events = events + [f]

    verdicts, accepted = vtable.validate_rows(ctx, "DmarcTrace", TRACE_CFG % dict(open=q(open_by_dev)),
                                              events, batch=20000 if thorough else 7000, par=6, timeout=1800)
    ctx.log("TLC evaluated %d recorded rows: %d accepted as conforming" % (len(events), accepted))
    for t, what in selftest.items():
        v = verdicts.get(t)
        if not v or not v["viol"] or v["devs"]:
            raise vlib.Infra("binding self-test failed: forged row (%s) was accepted or explained by a deviation" % what)
        del verdicts[t]
    if selftest:
        ctx.cov["binding_selftest"] = "forged rows rejected: " + "; ".join(selftest.values())

    # ---- verdicts ------------------------------------------------------------------
    drift = 0
    known_rows = {}
    preds = {}
    for t, v in sorted(verdicts.items()):
        row, ev = by_id[t], ev_by_t[t]
        outs = {k: ev["out"][k] for k in ("verdict", "action")}
        devsets = sorted((sorted(d) for d in v["devs"]), key=lambda d: (len(d), d))
        minimal = devsets[0] if devsets else None
        explained = minimal is not None and all(d in open_by_dev for d in minimal)
        if explained and v["viol"]:
            allowed = set()
            for d in minimal:
                allowed |= set(open_by_dev[d]["match"].get("predicates", []))
            explained = set(v["viol"]) <= allowed
        if v["viol"] and not explained:
            for p in v["viol"]:
                preds[p] = preds.get(p, 0) + 1
            what = "DMARC answer violates %s: in=%s out=%s" % (
                ",".join(sorted(v["viol"])),
                json.dumps({k: row["in"][k] for k in row["in"] if k != "tab"}, sort_keys=True), json.dumps(outs))
            ctx.violation(what, {"property": PID, "row": row, "out": ev["out"], "violated": sorted(v["viol"]),
                                 "how": "bin/check C07 --replay <this file>"})
        elif explained:
            # exactly the behaviour of the named deviation(s) of open known findings
            for d in minimal:
                e = open_by_dev[d]
                ctx.known(e["id"], e["what"])
                k = known_rows.setdefault(e["id"], {"rows": 0, "violating_rows": 0, "predicates": {}, "example": None})
                k["rows"] += 1
                if v["viol"]:
                    k["violating_rows"] += 1
                    for p in v["viol"]:
                        k["predicates"][p] = k["predicates"].get(p, 0) + 1
                    if k["example"] is None or ("PassOnlyIfAligned" in v["viol"]
                                                and "PassOnlyIfAligned" not in k["example"]["violated"]):
                        k["example"] = {"in": row["in"], "out": outs, "expected": row["exp"], "violated": sorted(v["viol"]),
                                        "queries": ev["out"].get("queries")}
        else:
            drift += 1
            if drift <= 10:
                print("DRIFT property=C07 row=%d in=%s out=%s expected=%s" % (
                    t, json.dumps(row["in"], sort_keys=True), json.dumps(outs), json.dumps(row.get("exp"))))
    ctx.cov["traces_validated_against_impl"] = accepted
    ctx.cov["drift_traces"] = drift
    ctx.cov["known_finding_rows"] = known_rows
    ctx.cov["evaluations"] = len(sel)
    ctx.cov["distinct_nontrivial"] = sum(1 for row in sel if nontrivial(row))
    ctx.cov["rows_by_table"] = {tab: sum(1 for row in sel if row["in"]["tab"] == tab)
                                for tab in ("align", "verdict", "action", "shape", "realdkim", "coop")}
    ctx.cov["cooperating_check_rows"] = sum(1 for row in sel if row["in"].get("cq", "no") != "no")
    ctx.cov["per_recipient_body_path_rows"] = sum(1 for row in sel if row["in"].get("path") == "na")
    ctx.cov["slow_lookup_rows"] = sum(1 for row in sel if row["in"]["slow"])
    ctx.cov["rule"] = ("rows = states of Dmarc.tla (one per input; distinct by construction): alignment table (4 From "
                       "domains x 2 spellings x 16 identifier spellings x DKIM/MAIL FROM/HELO x r/s), verdict table "
                       "(multisets of <= MaxDkim DKIM results over pass/fail/temperror x 4 domain relations, 7 SPF values x "
                       "4 relations, adkim x aspf, 6 From/case contexts), action table (7 identifier situations x p x sp x pct x "
                       "13/5 lookup outcomes x 3 From domains x 2 spellings x policy lookup fast / still unanswered when the "
                       "pipeline-wide body checks return), the coop table (7 identifier situations x p x sp x 3 lookup "
                       "outcomes x 2 From domains x a second check of the pipeline quarantining at the sender stage "
                       "(pipeline-wide block) / at the body stage (source block) / the message arriving already flagged / "
                       "not at all x atomic / per-recipient "
                       "body path), From shapes, real messages (unsigned / valid / broken signature) "
                       "evaluated by the real check.dkim; quick runs all but a seeded "
                       "quarter of the verdict table (MaxDkim=2) through the code, thorough everything (MaxDkim=3); "
                       "non-trivial = not a verdict-table row whose identifiers are all plain non-pass/non-temperror")
    ctx.cov["violated_predicates"] = preds
    ctx.cov["exhaustive"] = bool(thorough)
    picks = [row for row in sel if row["in"]["tab"] == "align"][:1] + [row for row in sel if row["in"]["tab"] == "verdict"][:2] + \
            [row for row in sel if row["in"]["tab"] == "action"][:1] + [row for row in sel if row["in"]["tab"] == "shape"][-1:]
    for row in picks:
        o = ev_by_t[row["id"]]["out"]
        ctx.cov["samples"].append({"row": row, "out": {k: o[k] for k in ("verdict", "policy", "action", "smtpCode", "quarantine",
                                                                        "fromDomain", "policyDomain", "queries")}})
    ctx.assumptions += [
        "the public-suffix list is trusted; the model's organizational-domain constant is compared with it on every run",
        "the scripted resolver answers case-insensitively (as DNS does); SERVFAIL = *net.DNSError{IsTemporary}, "
        "NXDOMAIN = *net.DNSError{IsNotFound}, 'none' = empty answer without error",
        "SPF and DKIM results are injected by one scripted check in the pipeline (the row's authres results), except in "
        "the real-message rows where DKIM results come from the real check.dkim (default configuration) on really "
        "signed messages (ed25519)",
        "the scripted resolver honours the context like a real one; in slow rows the _dmarc query is answered when a "
        "source-block check runs (a gate, no timer)",
        "pct is absent or 100 (the statement's restriction)",
        "TLC 1.8.0, CommunityModules Json",
    ]


META = {
    "engine": "dmarccheck",
    "level": "model_checking",
    "technique": "TLA+ spec Dmarc.tla (property predicates, RFC 7489 rule, named deviations) enumerated by TLC; rows run "
                 "through the real internal/dmarc and the real message pipeline; recorded answers evaluated by TLC "
                 "(DmarcTrace.tla)",
    "text": "TLC enumerates the input tables of Dmarc.tla (alignment over every pair of lower/upper-case spellings of a "
            "fixed domain set with known organizational domains; multisets of up to 3 DKIM results x SPF result x "
            "adkim/aspf; verdict class x p x sp x pct x policy-lookup outcomes; From-header shapes), checks the property "
            "predicates and 'pass <=> aligned passing identifier' on the documented rule for every row, and evaluates "
            "the same predicates on the verdict (Verifier.Apply) and action (SMTP error class / quarantine flag of the "
            "real pipeline) the code produced for every row (quick: MaxDkim=2, a seeded quarter of the verdict table; "
            "thorough: every row).",
    "note": "Besides DMARC alone: the same action table with a second, cooperating check of the pipeline that quarantines "
            "(as check.spf does for an SPF fail) and over the per-recipient body path (BodyNonAtomic): a published reject "
            "is still a refusal of the right class. SPF/DKIM results are injected (scripted check), DNS is a scripted resolver; the public suffix list is "
            "trusted and the model's org-domain constant is checked against it.",
    "design_ref": "DESIGN.md section 5 C07",
}
