"""C18 - failure reports are well-formed, name the right recipients, and cannot loop.

Same specification and harness as C01 (Queue.tla / QueueObs.tla / QueueTrace.tla, harness/queuecheck)
with the report dimensions switched on: rewritten recipients (OriginalRcpts), SMTPUTF8 on/off, the
report hand-over failing at each stage, and - in the harness - a bounce pipeline that routes into a
second real queue. The report is parsed by the bounce target with the standard library's
mime/multipart + net/textproto (independent of maddy's generator); the C18 predicates are the
Report* predicates of QueueObs.tla, evaluated by TLC on the model and on the recorded traces.
Further dimensions: failures without an enhanced status code (cfg.enh of Queue.tla: the report must still be
generated, with a status of the right class; FailedRcptNotReported is the report view of "every terminally failed
recipient is listed by a report"), and - harness-only, the model does not depend on them - nested pipelines
(`reroute`) between the rewriting pipeline and the queue incl. a two-step rewrite, spelling classes of non-ASCII
local parts and senders (decomposed, compatibility characters, case of non-ASCII letters), shapes of the original header.
"""
import re

import vknown
import vlib
from checks import c01

DIMS = dict(rwsets='{{}, {"r1"}, {"r1", "r2"}}', utf8set="{TRUE, FALSE}", enhset="{TRUE, FALSE}",
            stages='{"ok", "start", "rcpt", "body", "commit"}')
GEN_DIMS = dict(rwsets='{{}, {"r1"}}', utf8set="{TRUE, FALSE}", enhset="{TRUE, FALSE}",
                stages='{"ok", "start", "body", "commit"}')

MINE = c01.REPORT_PREDS | {"ReportNamesNonFailedRcpt"}


def known(viol, beh, trace):
    opened = {f["id"]: f for f in vknown.open_entries("C18")}      # known_findings.d/C18.json (only "open" entries suppress)
    if viol == ["ReportStatusMismatch"] and "C18-F17" in opened:
        generic = True
        for e in trace:
            if e["e"] == "Dsn" and e.get("known"):
                for r, st in e["status"].items():
                    if not re.match(r"^[45]\.0\.0$", st):
                        generic = False
        if generic:
            return ("C18-F17", opened["C18-F17"]["what"])
    # C18-F37: a two-step rewrite across nested pipelines (front "reroute-chain") is reported under the intermediate address
    if viol == ["ReportUsesRewrittenAddress"] and "C18-F37" in opened and beh["cfg"].get("front") == "reroute-chain" \
            and beh["cfg"].get("rw"):
        listed_eff = set(r for e in trace if e["e"] == "Dsn" and e.get("known") for r in e["rewritten"])
        if listed_eff and listed_eff <= set(beh["cfg"]["rw"]):
            return ("C18-F37", opened["C18-F37"]["what"][:200])
    return None


def post(ctx, behs):
    # harness-only dimension: every third report-producing behaviour runs with the bounce pipeline
    # routed into a second real queue (reports about reports must never appear)
    k = 0
    for b in behs:
        if b["cfg"]["bounce"] and not b["cfg"]["nullSender"] and any(s["a"] == "Dsn" for s in b["hist"]):
            k += 1
            if k % 3 == 0:
                b["cfg"]["chain"] = True
            # harness-only data dimensions (the model is independent of spelling and error text)
            # the rewriting is done by a real pipeline's replace_rcpt (global / source / destination scope) in front
            # of the queue on three of four behaviours with rewritten recipients, by the harness on the fourth
            # ... and on five of nine with nested pipelines (`reroute { }`) between the rewriting pipeline and the
            # queue: rewriting outside, inside, split between the two, behind two nested pipelines, in two steps (chain)
            # (harness/queuecheck/front_nest_test.go; the metadata object with the original-recipient map is shared)
            if b["cfg"].get("rw") and not b["cfg"].get("caseVar") and \
                    b["cfg"].get("uniForm", "") not in ("upper", "mixed"):   # (replace_rcpt looks keys up case-folded and normalised)
                b["cfg"]["front"] = ["global", "reroute-outer", "source", "reroute-inner", "dest", "",
                                     "reroute-split", "reroute-outer2", "reroute-chain"][k % 9]
            # shape of the ORIGINAL header the report has to carry (repeated Received fields, a folded long field, a 900
            # character field, encoded words, raw UTF-8): every field is looked up in the report's header part
            b["cfg"]["hdrForm"] = ["", "many", "long", "encoded", "utf8", "many"][k % 6]
            b["cfg"]["idn"] = k % 2 == 0
            b["cfg"]["errtext"] = ["", "multiline", "nonascii"][k % 3 if k % 5 else 2]


def run(ctx, replay):
    c01.run_queue(ctx, replay, "C18", lambda v: v in MINE, DIMS,
                  {"known": known, "post": post, "gen_dims": GEN_DIMS, "maxlist_thorough": 2, "thorough_cap": 40000})
    ctx.cov["rule"] = ctx.cov.get("rule", "") + "; report dimensions on (rewritten recipients, SMTPUTF8, hand-over failing at each stage, chained queue)"


META = {
    "engine": "queuecheck",
    "level": "model_checking",
    "technique": "TLA+ spec Queue.tla with report dimensions model-checked by TLC; reports produced by the real queue "
                 "parsed independently and validated by TLC against QueueTrace.tla (Report* predicates of QueueObs.tla)",
    "text": "TLC explores every fault plan x rewritten-recipient set x SMTPUTF8 x report hand-over outcome of Queue.tla in the "
            "bound and checks the report predicates (well-formed multipart/report, null return path, addressed to the "
            "sender, exactly the recipients that failed terminally in that attempt, under client-supplied addresses, "
            "with the last status, original header attached, none when the sender is null, none about a report); the "
            "same predicates are evaluated on reports the real queue generated for TLC-generated plans.",
    "note": "Reports are parsed with mime/multipart + net/textproto in the harness; scripted downstream; the chained "
            "second queue is a harness dimension; trusted: TLC, harness, Go toolchain.",
    "design_ref": "DESIGN.md section 5 C18",
}
