"""X02 - the MTA-STS policy cache behind mx_auth.mtasts serves only valid, unexpired policies of
the right domain and refreshes them as RFC 8461 says.

(S) spec/StsCache.tla + StsCacheObs.tla (pattern A): the cache (go-mtasts Cache.Get / Refresh / fetch,
    fs and ram store) and its life-cycle in maddy (mtastsPolicy.Init, StartUpdater / updater, Close)
    over histories of publications (TXT id, policy body), faults of every call (TXT temp / NXDOMAIN /
    several / malformed, HTTPS failure, store write failure), clock advances, restarts on the same
    configuration, damaged cache files, Get calls and runs of the refresh loop; the code's deviations
    as named switches.  spec/StsCacheTables.tla (pattern B): MX pattern matching and the
    TXT-record / HTTP-response / policy-body decision of a fetch.
(T) TLC: exhaustive on the design (NoViolation), the as-is model must violate it for every deviation
    and every as-is violation must be explained by a deviation taken; every table row satisfies Prop.
(B) TLC-printed behaviours / rows are executed by harness/stscachecheck on the real code (module built
    through maddy's registry and PolicyGroup from config nodes; real go-mtasts cache, stores, TXT
    parser, net/http download path with a scripted transport; fake clock of a synctest bubble); the
    recorded events are validated by StsCacheTrace.tla / StsCacheTablesTrace.tla, which evaluate the
    same predicates on what the code did.

The cache library is the dependency github.com/foxcpp/go-mtasts at the version pinned by the go.mod of
the tree under test.  VERIF_MTASTS=<dir> builds the harness against a copy of it (mutation drills).
"""
import json
import os
import shutil
import subprocess
import time

import vlib
import vtable

PID = "X02"

ALL_A_DEVS = ["StoreFailCached", "NullPolicyCrash", "UpdaterNotStarted", "HalfWindow"]
ALL_B_DEVS = ["RawIndex", "UpperALabel", "TxtNoDiscard"]

A_CFG = """SPECIFICATION %(spec)s
CONSTANTS
  Domains = {%(domains)s}
  Ids = {%(ids)s}
  Vers = {%(vers)s}
  Ages = {%(ages)s}
  Dts = {%(dts)s}
  MaxT = %(maxt)d
  MaxSteps = %(maxsteps)d
  GetFaults = {%(getfaults)s}
  RefFaults = {%(reffaults)s}
  Kinds = {%(kinds)s}
  Lifes = {%(lifes)s}
  Damages = {%(damages)s}
  Devs = {%(devs)s}
  Gen = %(gen)s
CHECK_DEADLOCK FALSE
%(tail)s
"""

B_CFG = """SPECIFICATION %(spec)s
CONSTANTS
  MaxMx = %(maxmx)d
  Devs = {%(devs)s}
  Gen = %(gen)s
CHECK_DEADLOCK FALSE
%(tail)s
"""


def q(names):
    return ", ".join('"%s"' % n for n in names)


def a_cfg(domains=("d1",), ids=("i1", "i2"), vers=(1, 2), ages=(6, 20), dts=(6, 12), maxt=36, maxsteps=7,
          reffaults=("ok", "temp", "http", "store"), devs=(), gen=False, tail="", spec="Spec",
          getfaults=("ok", "temp", "perm", "multi", "bad", "http", "store"), kinds=("fs", "ram"), lifes=("prod", "test"),
          damages=("junk", "nullpol")):
    return A_CFG % dict(spec=spec, domains=q(domains), ids=q(ids), vers=", ".join(map(str, vers)),
                        ages=", ".join(map(str, ages)), dts=", ".join(map(str, dts)), maxt=maxt, maxsteps=maxsteps,
                        reffaults=q(reffaults), getfaults=q(getfaults), kinds=q(kinds), lifes=q(lifes),
                        damages=q(damages), devs=q(devs), gen="TRUE" if gen else "FALSE", tail=tail)


TRACE_A = dict(domains=("d1", "d2", "d3"), ids=("i1", "i2", "i3"), vers=(1, 2, 3), ages=(6, 12, 20), maxt=100000,
               maxsteps=100000, spec="TSpec", tail="POSTCONDITION Post")


def ext_findings():
    p = os.path.join(vlib.VERIF, "extensions", "findings.json")
    if not os.path.exists(p):
        return []
    return [f for f in json.load(open(p)).get("findings", []) if f.get("ext") == PID]


def build(ctx):
    """like ctx.build_harness, plus an optional replacement of the go-mtasts dependency (VERIF_MTASTS)"""
    lib = os.environ.get("VERIF_MTASTS")
    if not lib:
        return ctx.build_harness("stscachecheck")
    if not os.path.exists(os.path.join(lib, "cache.go")):
        raise vlib.Infra("VERIF_MTASTS=%s is not a copy of go-mtasts" % lib)
    out = os.path.join(ctx.work, "stscachecheck.test")
    mf = os.path.join(ctx.work, "go.mod")
    txt = open(os.path.join(vlib.HARNESS, "go.mod")).read().replace("=> /repo", "=> " + ctx.repo)
    txt += "\nreplace github.com/foxcpp/go-mtasts => %s\n" % os.path.abspath(lib)
    open(mf, "w").write(txt)
    shutil.copy(os.path.join(ctx.repo, "go.sum"), os.path.join(ctx.work, "go.sum"))
    t0 = time.time()
    p = subprocess.run(["go1.26", "test", "-c", "-tags", "verif", "-o", out, "-modfile", mf, "./stscachecheck"],
                       cwd=vlib.HARNESS, env=vlib.goenv(), stdout=subprocess.PIPE, stderr=subprocess.STDOUT, text=True)
    if p.returncode != 0 or not os.path.exists(out):
        raise vlib.Infra("harness build failed (stscachecheck, go-mtasts => %s):\n%s" % (lib, p.stdout[-4000:]))
    ctx.log("built harness stscachecheck against go-mtasts copy %s in %.1fs" % (lib, time.time() - t0))
    ctx.notes.append("go-mtasts replaced by " + lib)
    return out


def behaviours_from(r):
    return [{"cfg": v["cfg"], "hist": v["hist"]} for tag, v in r["printed"] if tag == "BEH"]


def shape(b):
    """a behaviour without the names that do not change what the cache has to do"""
    return (b["cfg"]["kind"], b["cfg"]["life"],
            tuple((h["a"], h.get("flt", ""), h.get("txt", "none") != "none", h.get("dt", 0), h.get("kind", ""),
                   h.get("age", 0), tuple(sorted((h.get("plan") or {}).values()))) for h in b["hist"]))


def weight(b):
    w = 0
    for h in b["hist"]:
        w += {"Get": 2, "Tick": 2, "Restart": 2, "Corrupt": 3, "AutoRefresh": 1}.get(h["a"], 0)
        if h.get("flt", "ok") != "ok":
            w += 1
    return w


def nontrivial(b):
    return any(h["a"] in ("Tick", "Restart", "Corrupt") or h.get("flt", "ok") != "ok"
               or any(v != "ok" for v in (h.get("plan") or {}).values()) for h in b["hist"])


def run(ctx, replay):
    thorough = ctx.tier == "thorough"
    entries = ext_findings()
    dev_finding, allowed = {}, {}
    # VERIF_X02_FIXED=X02-F2,...: treat these findings as fixed (to try a proposed fix before the entry is closed)
    as_fixed = set(filter(None, os.environ.get("VERIF_X02_FIXED", "").split(",")))
    for e in entries:
        if e["id"] in as_fixed:
            e = dict(e, status="fixed: (VERIF_X02_FIXED)")
        for d in e["match"]["deviations"]:
            if d not in ALL_A_DEVS + ALL_B_DEVS:
                raise vlib.Infra("finding %s names an unknown deviation %s" % (e["id"], d))
            if e.get("status", "open") == "open":
                dev_finding[d] = e
                allowed[d] = set(e["match"]["predicates"])
    open_a = [d for d in ALL_A_DEVS if d in dev_finding]
    open_b = [d for d in ALL_B_DEVS if d in dev_finding]
    ext_seen = {}        # finding id -> [what, count]

    def seen(d, n=1):
        e = dev_finding[d]
        ext_seen.setdefault(e["id"], [e["what"], 0])[1] += n

    binary = build(ctx)

    # =========================== pattern A: the cache ===========================
    if replay:
        obj = json.load(open(replay))
        behs = [obj["behaviour"]] if "behaviour" in obj else []
        rows = [obj["row"]] if "row" in obj else []
        for k, x in enumerate(behs + rows):
            x["id"] = k + 1
    else:
        # every TLC job of this check is independent of the others: run them side by side
        from concurrent.futures import ThreadPoolExecutor
        nsim = 6000 if thorough else 500
        inv = "VIEW View\nINVARIANTS NoViolation TypeOK"
        jobs = {
            "mc": dict(workers=16 if thorough else 6, timeout=2400,
                       cfg_text=a_cfg(domains=("d1", "d2"), maxsteps=7, reffaults=("ok", "temp", "http"), tail=inv)
                       if thorough else a_cfg(maxsteps=7, tail=inv)),
            "asis-all": dict(workers=4, timeout=1800,
                             cfg_text=a_cfg(maxsteps=7 if thorough else 6, devs=ALL_A_DEVS,
                                            tail="VIEW View\nINVARIANTS ViolationsExplained TypeOK")),
            "gen": dict(workers=4, timeout=1200, cfg_text=a_cfg(maxsteps=4, gen=True)),
            "sim2": dict(workers=1, timeout=1200, simulate=nsim, depth=16,
                         cfg_text=a_cfg(domains=("d1", "d2"), maxsteps=12, maxt=72, gen=True)),
            "sim1": dict(workers=1, timeout=1200, simulate=nsim, depth=18,
                         cfg_text=a_cfg(ages=(6, 12, 20), maxsteps=14, maxt=96, gen=True)),
        }
        # the refresh loop at work: few kinds of action, so random walks reach "entry about to expire when the loop runs"
        jobs["sim3"] = dict(workers=1, timeout=1200, simulate=nsim, depth=16,
                            cfg_text=a_cfg(vers=(1,), ages=(6, 12, 20), maxsteps=12, maxt=96, gen=True, lifes=("test",),
                                           getfaults=("ok", "http"), reffaults=("ok", "http"), damages=("junk",)))
        if thorough:
            jobs["mc1"] = dict(workers=16, timeout=2400,
                               cfg_text=a_cfg(ages=(6, 12, 20), maxt=48, maxsteps=9, tail=inv))
        for d in ALL_A_DEVS:
            jobs["asis-" + d] = dict(workers=2, timeout=600,
                                     cfg_text=a_cfg(maxsteps=7, devs=[d], tail="VIEW View\nINVARIANTS NoViolation"))
        tjobs = {
            "tables": dict(workers=6, timeout=2400,
                           cfg_text=B_CFG % dict(spec="Spec", maxmx=3 if thorough else 2, devs="", gen="TRUE",
                                                 tail="INVARIANTS RuleSatisfiesProp\nCONSTRAINT Emit")),
            "tables-asis": dict(workers=2, timeout=600,
                                cfg_text=B_CFG % dict(spec="Spec", maxmx=1, devs=q(["TxtNoDiscard"]), gen="FALSE",
                                                      tail="INVARIANTS RuleSatisfiesProp")),
        }
        with ThreadPoolExecutor(max_workers=6) as ex:
            futs = {k: ex.submit(ctx.tlc, "StsCache", None, name=k, **kw) for k, kw in jobs.items()}
            futs.update({k: ex.submit(ctx.tlc, "StsCacheTables", None, name=k, **kw) for k, kw in tjobs.items()})
            res = {k: f.result() for k, f in futs.items()}

        def must_ok(k, what):
            r = res[k]
            if not r["ok"]:
                raise vlib.Infra("%s: invariant=%s error=%s (see %s/tlc.out)" % (what, r["invariant"], r["error"], r["dir"]))
            return r

        # ---- (T) exhaustive on the design --------------------------------------
        r = must_ok("mc", "TLC did not accept the design StsCache.tla")
        ctx.cov["states"] = r["distinct"]
        ctx.cov["transitions"] = r["generated"]
        ctx.cov["model_depth"] = r["depth"]
        ctx.log("TLC exhaustive: %d distinct states, %d generated, depth %d, %.1fs" % (
            r["distinct"], r["generated"], r["depth"], r["wall"]))
        if thorough:
            r1 = must_ok("mc1", "TLC did not accept the design StsCache.tla (1 domain, deep)")
            ctx.cov["states_one_domain_deep"] = r1["distinct"]
            ctx.cov["transitions_one_domain_deep"] = r1["generated"]
            ctx.cov["model_depth_one_domain_deep"] = r1["depth"]
            ctx.log("TLC exhaustive (1 domain, 3 ages, 9 steps): %d distinct states, %d generated, depth %d, %.1fs" % (
                r1["distinct"], r1["generated"], r1["depth"], r1["wall"]))
        # ---- as-is: each deviation is caught by the predicates; every as-is violation is explained -------
        for d in ALL_A_DEVS:
            ra = res["asis-" + d]
            if ra["invariant"] != "NoViolation":
                raise vlib.Infra("as-is model with %s does not violate NoViolation: predicates vacuous? (%s)" % (d, ra["error"]))
        rx = must_ok("asis-all", "as-is model: a violation is not explained by a deviation taken")
        ctx.cov["asis_counterexample_found"] = True
        ctx.cov["asis_states"] = rx["distinct"]

        # ---- behaviours out of TLC ------------------------------------------------------------------
        g = must_ok("gen", "behaviour generation failed")
        allb = behaviours_from(g)
        ctx.cov["exhaustive_behaviours_4_steps"] = len(allb)
        behs = []
        if thorough:
            behs += allb
        else:
            groups = {}
            for b in allb:
                groups.setdefault(shape(b), []).append(b)
            sigs = sorted(groups, key=repr)
            ctx.rng.shuffle(sigs)
            sigs.sort(key=lambda s: -weight(groups[s][0]))
            top = sigs[:250]
            rest = sigs[250:]
            ctx.rng.shuffle(rest)
            for sg in top + rest[:250]:
                behs.append(ctx.rng.choice(groups[sg]))
            ctx.cov["behaviour_shapes_4_steps"] = len(sigs)
        for name in ("sim2", "sim1", "sim3"):
            behs += behaviours_from(must_ok(name, "behaviour simulation failed"))
        seen_b, uniq = set(), []
        for b in behs:
            k = json.dumps(b, sort_keys=True)
            if k not in seen_b:
                seen_b.add(k)
                uniq.append(b)
        behs = uniq
        for k, b in enumerate(behs):
            b["id"] = k + 1
        if not behs:
            raise vlib.Infra("TLC produced no behaviours")
        rows = None

    by_id = {b["id"]: b for b in behs}
    ok = drift = 0
    preds = {}
    if behs:
        ctx.log("%d behaviours to replay" % len(behs))
        events = ctx.run_shards(binary, behs, timeout=1500)
        ntr = len(set(e["t"] for e in events))
        if ntr != len(behs):
            raise vlib.Infra("harness recorded %d of %d behaviours" % (ntr, len(behs)))
        # binding self-test: a corrupted field and a dropped event must not be accepted
        selftest = {}
        if not replay:
            base = None
            ev_of = {}
            for e in events:
                ev_of.setdefault(e["t"], []).append(e)
            for b in behs:
                evs = ev_of.get(b["id"], [])
                if b["cfg"]["life"] == "test" and any(e["e"] == "Get" and e["res"]["kind"] == "policy" and e["fetch"] for e in evs) \
                        and not any(e["e"] == "Get" and e["flt"] == "store" for e in evs) \
                        and not any(e["e"] == "Corrupt" for e in evs):
                    base = evs
                    break
            if base is None:
                raise vlib.Infra("binding self-test: no base trace with a fetched policy")
            c1 = json.loads(json.dumps(base))
            for e in c1:
                e["t"] = 900001
            e = next(e for e in c1 if e["e"] == "Get" and e["res"]["kind"] == "policy" and e["fetch"])
            e["res"]["ver"] = e["res"]["ver"] % 3 + 1          # the code "served" a policy nobody published
            c2 = json.loads(json.dumps(base))
            for e in c2:
                e["t"] = 900002
            g = next(i for i, e in enumerate(c2) if e["e"] == "Get" and e["res"]["kind"] == "policy" and e["fetch"])
            c2 = [e for i, e in enumerate(c2)                   # the publication the policy came from is missing
                  if not (i < g and e["e"] == "Publish" and e["d"] == c2[g]["d"])]
            events = events + c1 + c2
            selftest = {900001: "forged policy", 900002: "dropped publication"}
        # trace validation, batches side by side
        ts = sorted(set(e["t"] for e in events))
        per = 1500
        chunks = [set(ts[i:i + per]) for i in range(0, len(ts), per)]
        tcfg = a_cfg(**dict(TRACE_A, devs=open_a))

        def val(k):
            return ctx.validate("StsCacheTrace", None, [e for e in events if e["t"] in chunks[k]],
                                cfg_text=tcfg, batch=per, name="tv%d" % k)

        from concurrent.futures import ThreadPoolExecutor as TPE
        verdicts, by_t = {}, {}
        with TPE(max_workers=6) as ex:
            for v, bt in ex.map(val, range(len(chunks))):
                verdicts.update(v)
                by_t.update(bt)
        def classify(rec):
            """'ok' | 'known' (exactly the deviations of open findings) | 'violation' | 'drift'"""
            viol, taken = set(rec["viol"]), list(rec["taken"])
            if not viol:
                return "drift" if rec["drift"] else "ok"
            ok_preds = set()
            for d in taken:
                ok_preds |= allowed.get(d, set())
            if taken and all(d in dev_finding for d in taken) and viol <= ok_preds:
                # every false predicate is one an open finding's deviation, taken by this trace, accounts for;
                # if the design lost track of the trace meanwhile that is drift, not a violation
                return "drift" if rec["drift"] else "known"
            return "violation"

        for t, recs in sorted(verdicts.items()):
            rec = recs[0]
            cls = classify(rec)
            if t in selftest:
                if cls != "violation":
                    raise vlib.Infra("binding self-test failed: %s trace was classified '%s'" % (selftest[t], cls))
                continue
            viol = sorted(rec["viol"])
            taken = sorted(rec["taken"])
            if cls == "known":
                for d in taken:
                    if allowed[d] & set(viol):
                        seen(d)
                ok += 1
            elif cls == "violation":
                for v in viol:
                    preds[v] = preds.get(v, 0) + 1
                what = "MTA-STS cache behaviour violates " + ",".join(viol)
                ctx.violation(what, {"property": PID, "behaviour": by_id[t], "trace": by_t[t], "violated": viol,
                                     "deviations_taken": taken, "how": "bin/check X02 --replay <this file>"})
            elif cls == "drift":
                drift += 1
                if drift <= 10:
                    print("DRIFT property=%s trace=%d first-unexplained-seq=%s" % (PID, t, rec["driftAt"]))
            else:
                ok += 1
        if selftest:
            ctx.cov["binding_selftest"] = "forged-policy and dropped-publication traces rejected"
        for b in behs[:2]:
            ctx.cov["samples"].append({"behaviour": b, "trace": by_t.get(b["id"], [])[:12]})
    ctx.cov["traces_validated_against_impl"] = ok
    ctx.cov["drift_traces"] = drift
    ctx.cov["behaviours_replayed"] = len(behs)

    # =========================== pattern B: matching and fetch decision ===========================
    if rows is None:
        rb = must_ok("tables", "TLC did not accept StsCacheTables.tla")
        rows = vtable.rows_from(rb)
        if len(rows) != rb["distinct"]:
            raise vlib.Infra("TLC printed %d distinct rows for %d states" % (len(rows), rb["distinct"]))
        ctx.cov["table_rows"] = rb["distinct"]
        ctx.log("TLC tables: %d rows, Prop(in, Rule(in)) holds on all, %.1fs" % (rb["distinct"], rb["wall"]))
        if res["tables-asis"]["invariant"] != "RuleSatisfiesProp":
            raise vlib.Infra("as-is tables (TxtNoDiscard) do not violate Prop: predicates vacuous?")
    rows_ok = 0
    if rows:
        row_by_id = {r["id"]: r for r in rows}
        items = [{"id": r["id"], "in": r["in"]} for r in rows]
        evs = ctx.run_shards(binary, items, test="TestRows", name="rows", timeout=1500)
        evs = [e for e in evs if e["e"] == "Row"]
        if len(evs) != len(rows):
            raise vlib.Infra("harness answered %d of %d rows" % (len(evs), len(rows)))
        ev_by_t = {e["t"]: e for e in evs}
        self_rows = {}
        if not replay:
            # binding self-test: forged answers must be rejected
            def forge(t, pred, chg):
                for e in evs:
                    row = row_by_id[e["t"]]
                    if row["dev"] == "" and pred(row):
                        f = json.loads(json.dumps(e))
                        f["t"] = t
                        f["out"].update(chg(row))
                        return f
                raise vlib.Infra("binding self-test: no base row")
            forged = [
                forge(900001, lambda r: r["in"]["tab"] == "match" and r["exp"] == "no", lambda r: {"m": "yes"}),
                forge(900002, lambda r: r["in"]["tab"] == "body" and r["exp"]["kind"] == "nopolicy" and r["in"]["body"]["ver"] == "STSv2",
                      lambda r: {"kind": "policy", "mode": "enforce", "age": 604800, "mx": ["mx1.p.sts.test"]}),
                forge(900003, lambda r: r["in"]["tab"] == "http" and r["exp"]["kind"] == "policy", lambda r: {"mx": ["mx.evil.test"]}),
            ]
            for f in forged:
                self_rows[f["t"]] = True
            evs = evs + forged
        verd, accepted = vtable.validate_rows(ctx, "StsCacheTablesTrace",
                                              B_CFG % dict(spec="TSpec", maxmx=3, devs="", gen="FALSE", tail="POSTCONDITION Post"),
                                              evs, name="rowsv", batch=25000, par=6, timeout=1800)
        for t in self_rows:
            if t not in verd or not verd[t]["viol"]:
                raise vlib.Infra("binding self-test failed: forged row %d was accepted" % t)
            del verd[t]
        if self_rows:
            ctx.cov["binding_selftest_rows"] = "forged match / accepted-invalid-body / foreign-mx rows rejected"
        rows_ok = accepted
        rdrift = 0
        for t, v in sorted(verd.items()):
            row, ev = row_by_id[t], ev_by_t[t]
            d = v["dev"]
            if v["viol"]:
                if d and d in dev_finding and set(v["viol"]) <= allowed[d]:
                    seen(d)
                    continue
                for p in v["viol"]:
                    preds[p] = preds.get(p, 0) + 1
                what = "MTA-STS %s answer violates %s: out=%s" % (row["in"]["tab"], ",".join(sorted(v["viol"])), json.dumps(ev["out"]))
                ctx.violation(what, {"property": PID, "row": row, "out": ev["out"], "violated": sorted(v["viol"]),
                                     "how": "bin/check X02 --replay <this file>"})
            else:
                rdrift += 1
                if rdrift <= 10:
                    print("DRIFT property=%s row=%d in=%s out=%s documented=%s" % (
                        PID, t, json.dumps(row["in"], sort_keys=True), json.dumps(ev["out"]), json.dumps(row["exp"])))
        ctx.cov["drift_rows"] = rdrift
        for tab in ("match", "txt", "body", "http"):
            pick = [r for r in rows if r["in"]["tab"] == tab][:1]
            for r in pick:
                ctx.cov["samples"].append({"row": {"in": r["in"], "documented": r["exp"]}, "out": ev_by_t[r["id"]]["out"]})
    ctx.cov["rows_validated_against_impl"] = rows_ok
    ctx.cov["traces_validated_against_impl"] = ok + rows_ok
    ctx.cov["evaluations"] = len(behs) + len(rows or [])
    ctx.cov["distinct_nontrivial"] = sum(1 for b in behs if nontrivial(b)) + sum(
        1 for r in (rows or []) if r["in"]["tab"] != "match" or len(r["in"]["mx"]) > 1)
    ctx.cov["violated_predicates"] = preds
    ctx.cov["ext_findings_seen"] = {k: {"what": v[0], "cases": v[1]} for k, v in ext_seen.items()}
    ctx.cov["exhaustive"] = False
    ctx.cov["rule"] = ("behaviours = complete behaviours of StsCache.tla printed by TLC: every behaviour of 4 actions (1 domain; quick: "
                       "one per shape, the 250 heaviest shapes + 250 seeded; thorough: all) plus -simulate runs (2 domains x 12 "
                       "actions, 1 domain x 14 actions, 1 domain with the refresh loop running and few kinds of action x 12; 500 "
                       "each quick, 6000 each thorough), de-duplicated; rows = every state of "
                       "StsCacheTables.tla (MaxMx 2 quick / 3 thorough); non-trivial = a behaviour with a clock step, restart, "
                       "damage or fault / a row that is not a single-label match")
    ctx.assumptions += [
        "the policy host and the resolver are scripted (http.DefaultTransport replaced; Cache.Resolver replaced after Init); "
        "TLS certificate validation of the policy host is crypto/tls + net/http, not exercised",
        "time is the fake clock of a testing/synctest bubble; one model hour = one hour of fake time",
        "a store write failure is produced by a directory in the place of the temporary file of fsStore.Store",
        "go-mtasts is the version pinned by go.mod of the tree under test (or VERIF_MTASTS)",
        "TLC 1.8.0, CommunityModules Json",
    ]
    for fid, (what, nc) in sorted(ext_seen.items()):
        print("EXT-FINDING: ext=%s %s %s (%d cases)" % (PID, fid, what, nc))


META = {
    "engine": "stscachecheck",
    "level": "model_checking",
    "technique": "TLA+ specs StsCache.tla / StsCacheObs.tla (cache, store, refresh loop; named deviations) and "
                 "StsCacheTables.tla (MX matching, fetch decision) checked by TLC; TLC-generated behaviours and rows executed "
                 "on the real mx_auth.mtasts / go-mtasts code on a fake clock; recorded events validated and judged by TLC "
                 "(StsCacheTrace.tla, StsCacheTablesTrace.tla)",
    "statement": "For every history of what a recipient domain publishes (the TXT record at _mta-sts.<domain> with its id, "
                 "the policy at https://mta-sts.<domain>/.well-known/mta-sts.txt), of failures of the sender's lookups "
                 "(temporary DNS failure, NXDOMAIN, several or malformed TXT records, any failure of the HTTPS fetch: "
                 "status other than 200, redirect, wrong content type, transport or certificate error, malformed body; "
                 "failure to write the cache), of time passing, restarts of maddy on the same configuration and damage "
                 "to cache files: the policy mx_auth.mtasts applies to a delivery is one the policy host of that very "
                 "domain served from the well-known URL not longer ago than its max_age, with exactly the published mode, "
                 "max_age and mx patterns, and lookups never crash or yield neither a policy nor an error; while an "
                 "unexpired cached policy exists no failure of any lookup makes the domain look like it has no policy "
                 "(downgrade resistance); when the published id differs from the cached one (or nothing valid is cached) "
                 "and the fetch succeeds, the newly published policy is used and cached; with nothing valid cached, a "
                 "temporary DNS failure is reported as an error distinct from 'no policy' and a missing/invalid record or "
                 "a failed fetch as 'no policy'; the fs cache survives a restart, a damaged cache file counts as no entry, "
                 "and the refresh loop (at start-up and every 12 hours) re-fetches entries whose id changed or that are about "
                 "to expire, loses no valid entry, and keeps every entry of a reachable domain with max_age >= 12 h from "
                 "expiring (from the code: StartUpdater / Cache.Refresh comments, RFC 8461 10.2). An MX host matches a policy "
                 "iff it equals an mx pattern or consists of exactly one label followed by the suffix of a '*.' pattern, "
                 "compared case-insensitively with A-label and U-label spellings and a trailing dot ignored (RFC 8461 4.1); a "
                 "TXT answer yields a policy only if it holds exactly one v=STSv1 record with an id, and a response only "
                 "if it is 200 text/plain with version STSv1, a known mode, a numeric max_age and (unless mode none) an mx.",
    "text": "TLC explores StsCache.tla exhaustively (Get with 7 kinds of fault, publications, clock steps, restarts, file "
            "damage, refresh runs with a fault plan; fs and ram store; production and test life-cycle) and checks 21 "
            "predicates in every state; the as-is model must violate them for each of the 4 named deviations and explain "
            "every violation. Behaviours printed by TLC are executed on the real module built through maddy's registry "
            "and PolicyGroup (real go-mtasts cache, stores, parsers and net/http client, scripted policy host and resolver, "
            "fake clock); the events are validated against the spec and judged by the same predicates. 48k (quick) / "
            "355k (thorough) table rows for MX matching and the TXT / HTTP / body decision go through Policy.Match and Get.",
    "note": "go-mtasts is a dependency (github.com/foxcpp/go-mtasts, same author), pinned by go.mod; the maddy side is "
            "internal/target/remote/security.go. TLS validation of the policy host is not exercised. Open findings "
            "X02-F1..F6 are reported as EXT-FINDING lines.",
    "design_ref": "extensions/X02.md",
}
