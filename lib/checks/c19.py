"""C19 - a pooled outbound connection has one user at a time and is closed once.

(T) TLC checks Pool.tla (pool.go Get/Return/CleanUp/Close at the granularity of the
    instrumented code's scheduling points, connection objects with owner / close count)
    exhaustively: every interleaving inside the bound, safety, liveness under weak fairness,
    deadlock checking on.  Two mutated designs (no lifetime test, Close without draining)
    must fail, so the invariants are not vacuous.
(B) Schedules - delay-bounded (<= 2) schedules enumerated by TLC, delay positions applied to
    the code's own non-preemptive schedule, seeded random schedules - are executed on the real
    pool.P, instrumented from the current working tree, with instrumented connection objects
    under harness/vsched.  Histories are validated by TLC against PoolTrace.tla; the property
    predicates are those of PoolObs.tla.
"""
import json
import os

import vlib
from checks import c12 as base

PID = "C19"
FILES = ["internal/smtpconn/pool/pool.go"]
LIFE, STALE, PERIOD = 1, 2, 2

CFG = """SPECIFICATION %(spec)s
CONSTANTS
  NWorkers = %(nw)d
  Keys = {%(keys)s}
  MaxPerKey = %(mpk)d
  MaxKeys = %(mk)d
  Life = %(life)d
  Stale = %(stale)d
  Period = %(period)d
  MaxTime = %(maxtime)d
  Rounds = %(rounds)d
  MaxBreaks = %(breaks)d
  WithClose = {%(close)s}
  Ctxs = {%(ctxs)s}
  Devs = {%(devs)s}
  Gen = %(gen)s
  DelayBound = %(db)d
%(tail)s
"""
SAFETY = "VIEW View\nINVARIANTS NoViolation TypeOK OnePlace\n"
LIVE = "VIEW View\nINVARIANTS NoViolation\nPROPERTIES Terminates CloseTerminates NoLeak\n"


ALL_CTXS = ("live", "dead", "probe", "nonew")



def wk(n):
    """TLC worker threads: n, capped by VERIF_TLC_WORKERS_MAX (for a machine shared with other runs)"""
    return max(1, min(n, int(os.environ.get("VERIF_TLC_WORKERS_MAX") or n)))


def cfg(nw=2, keys=("k1",), mpk=1, mk=1, maxtime=3, rounds=1, breaks=1, close=("TRUE", "FALSE"), devs=(),
        gen=False, db=1000, tail=SAFETY, spec="Spec", ctxs=("live",)):
    return CFG % dict(spec=spec, nw=nw, keys=", ".join('"%s"' % k for k in keys), mpk=mpk, mk=mk, life=LIFE,
                      stale=STALE, period=PERIOD, maxtime=maxtime, rounds=rounds, breaks=breaks,
                      close=", ".join(close), ctxs=", ".join('"%s"' % c for c in ctxs), devs=", ".join('"%s"' % d for d in devs),
                      gen="TRUE" if gen else "FALSE", db=db, tail=tail)


FIELDS = {"t", "seq", "e", "k", "n", "close", "workers", "maxPerKey", "maxKeys", "life", "stale", "w", "c", "key", "now", "fresh",
          "byHolder", "hung", "g", "cx"}


def project(e):
    return {k: v for k, v in e.items() if k in FIELDS}


def ops_of(sched):
    ops = {}
    for x in sched:
        p = x.split(":")
        if len(p) >= 2 and p[0].startswith("w"):
            ops.setdefault(p[0], []).append([p[1]] + p[2:])
    return ops


def scen(workers, keys, ops, close=True, mpk=1, mk=1, maxtime=3, life=LIFE, stale=STALE):
    return {"close": close, "workers": workers, "keys": keys, "maxPerKey": mpk, "maxKeys": mk, "life": life,
            "stale": stale, "period": PERIOD, "maxTime": maxtime, "ops": ops}


def scenarios(thorough):
    g, r, d = (lambda k: ["get", k]), ["ret"], ["drop"]
    out = [
        scen(["w1", "w2"], ["k1"], {"w1": [g("k1"), r, g("k1"), r], "w2": [g("k1"), r, g("k1"), r]}),
        scen(["w1", "w2"], ["k1"], {"w1": [g("k1"), r, g("k1"), d], "w2": [g("k1"), r]}, close=False, maxtime=4),
        scen(["w1", "w2"], ["k1", "k2"], {"w1": [g("k1"), r, g("k2"), r], "w2": [g("k2"), r, g("k1"), r]}, mk=1),
        scen(["w1", "w2", "w3"], ["k1"], {"w1": [g("k1"), r, g("k1"), r], "w2": [g("k1"), r, g("k1"), r],
                                          "w3": [g("k1"), r]}, mpk=2, maxtime=4),
    ]
    out.append(scen(["w1", "w2", "w3"], ["k1"], {"w1": [g("k1"), r], "w2": [g("k1"), r], "w3": [g("k1"), r, g("k1"), r]}))
    out.append(scen(["w1", "w2", "w3"], ["k1"], {"w1": [g("k1"), r, g("k1"), r], "w2": [g("k1"), r], "w3": [g("k1"), r]},
                    mpk=2, maxtime=5, life=2, stale=6))
    # MaxConnsPerKey 0 (conn_max_idle_count 0, "keep no idle connections"): every Return finds the bucket full
    out.append(scen(["w1", "w2"], ["k1"], {"w1": [g("k1"), r, g("k1"), r], "w2": [g("k1"), r]}, mpk=0))
    out.append(scen(["w1", "w2"], ["k1", "k2"], {"w1": [g("k1"), r, g("k2"), r], "w2": [g("k2"), r, g("k1"), d]},
                    mpk=0, mk=1, close=False))
    # contexts of Get (Ctxs of Pool.tla): cancelled before the call, cancelled during the probe of a pooled
    # connection, dial failure - on live non-empty, empty, expired buckets and next to an unusable connection
    out.append(scen(["w1", "w2"], ["k1"], {"w1": [g("k1"), r, g("k1") + ["dead"], r],
                                           "w2": [g("k1") + ["probe"], r, g("k1") + ["nonew"], r]}, maxtime=4))
    out.append(scen(["w1", "w2", "w3"], ["k1", "k2"], {"w1": [g("k1"), r, g("k2") + ["probe"], r],
                                                       "w2": [g("k2"), r, g("k1") + ["dead"], d],
                                                       "w3": [g("k1") + ["probe"], r, g("k1"), r]}, mpk=2, mk=2, maxtime=4))
    if thorough:
        ws = ["w%d" % i for i in range(1, 9)]
        out += [
            scen(ws[:4], ["k1", "k2"], {w: [g("k1") + [ALL_CTXS[i % 4]], r, g("k2") + [ALL_CTXS[(i + 1) % 4]], r,
                                            g("k1") + [ALL_CTXS[(i + 2) % 4]], r]
                                        for i, w in enumerate(ws[:4])}, mpk=2, mk=2, maxtime=4),
            scen(ws[:4], ["k1", "k2"], {w: [g("k1"), r, g("k2"), r, g("k1"), r] for w in ws[:4]}, mpk=2, mk=2, maxtime=4),
            scen(ws, ["k1", "k2", "k3"], {w: [g("k%d" % (1 + i % 3)), r, g("k%d" % (1 + (i + 1) % 3)), r]
                                          for i, w in enumerate(ws)}, mpk=2, mk=2, maxtime=4),
            scen(ws[:3], ["k1"], {w: [g("k1"), r, g("k1"), r, g("k1"), d] for w in ws[:3]}, close=False, mpk=1, maxtime=5),
        ]
    return out


def merges(a, b):
    if not a or not b:
        yield list(a) + list(b)
        return
    for m in merges(a[1:], b):
        yield [a[0]] + m
    for m in merges(a, b[1:]):
        yield [b[0]] + m


def full_bucket_windows(thorough):
    """Directed schedules "bucket full + concurrent Get": two connections are out, one is returned (the bucket of
    MaxConnsPerKey 1 is full), then a Return of the second one and a Get by a third worker - whose receive from the
    bucket is lock-free - are interleaved in every order (all merges of their steps, one spare step each)."""
    out = []
    ops = {"w1": [["get", "k1"], ["ret"]], "w2": [["get", "k1"], ["ret"]], "w3": [["get", "k1"], ["ret"]]}
    prefix = ["w1:get:k1", "w1", "w2:get:k1", "w2", "w2:ret", "w2"]
    ret = ["w1:ret", "w1", "w1"]
    get = ["w3:get:k1", "w3", "w3"]
    for close in (True, False):
        sc = scen(["w1", "w2", "w3"], ["k1"], ops, close=close, mpk=1)
        tails = [[]] if not (thorough and close) else [[], ["closer", "closer"]]
        for m in merges(ret, get):
            for tl in tails:
                for pre in ([], ["sweeper", "sweeper"]):
                    out.append({"cfg": sc, "pol": "list", "sched": pre + prefix + m + tl, "src": "window"})
    return out


def cancelled_gets(thorough):
    """Directed schedules "the caller's context is dead while Get holds a pooled connection": one (two) connections
    are returned to the bucket, then a Get whose context is cancelled before the call / during the probe / whose dial
    fails runs on the non-empty bucket - with the head connection usable, dropped by the peer, or the bucket
    expired - followed by a second, live Get and the shutdown."""
    out = []
    for cx in ALL_CTXS[1:]:
        for npool in ((1, 2) if thorough else (1,)):
            for head in ("usable", "broken", "expired"):
                ws = ["w%d" % i for i in range(1, npool + 3)]
                ops = {w: [["get", "k1"], ["ret"]] for w in ws[:npool]}
                ops[ws[npool]] = [["get", "k1", cx], ["ret"]]
                ops[ws[npool + 1]] = [["get", "k1"], ["ret"]]
                sched = []
                for w in ws[:npool]:
                    sched += [w + ":get:k1", w, w]
                for w in ws[:npool]:
                    sched += [w + ":ret", w]
                if head == "broken":
                    sched += ["break:c1"]
                if head == "expired":
                    sched += ["clock", "clock"]
                wc, wl = ws[npool], ws[npool + 1]
                sched += [wc + ":get:k1:" + cx] + [wc] * 5 + [wc + ":ret", wc]
                sched += [wl + ":get:k1"] + [wl] * 4 + [wl + ":ret", wl]
                for close in (True, False):
                    sc = scen(ws, ["k1"], ops, close=close, mpk=npool, maxtime=4)
                    out.append({"cfg": sc, "pol": "list", "sched": sched, "src": "ctx"})
    return out


def old_bucket_fresh_conns(thorough):
    """Directed schedules "expired bucket holding several fresh connections": a bucket's lastUse stamp is written
    only when the bucket is created, so connections returned shortly before the bucket turns MaxConnLifetime old
    are still fresh when the next Get drops the bucket.  Lifetime 2 units: bucket created at t0, two (three)
    connections used at t=2 and returned, Get at t=3 (bucket expired, connections not), then shutdown."""
    out = []
    g, r = ["get", "k1"], ["ret"]
    for nconn in ((2, 3) if thorough else (2,)):
        ws = ["w%d" % i for i in range(1, nconn + 2)]
        ops = {w: [g, r] for w in ws}
        ops["w1"] = [g, r, g, r]
        sched = ["w1:get:k1", "w1", "w1:ret", "w1", "clock", "clock"]
        for w in ws[:nconn]:                      # w1 takes the pooled one, the others get fresh ones
            sched += [w + ":get:k1", w, w]
        orders = [ws[:nconn], list(reversed(ws[:nconn]))]
        for order in orders:
            tail = []
            for w in order:
                tail += [w + ":ret", w]
            last = ws[nconn]
            for clk in (["clock"], ["clock", "clock"]):
                sc = scen(ws, ["k1"], ops, close=True, mpk=nconn, maxtime=5, life=2, stale=6)
                out.append({"cfg": sc, "pol": "list", "src": "oldbucket",
                            "sched": sched + tail + clk + [last + ":get:k1", last, last, last, last]})
    return out


def run(ctx, replay):
    thorough = ctx.tier == "thorough"
    devs = {f["match"]["deviation"]: f for f in findings() if f.get("status") == "open"
            and f.get("match", {}).get("deviation")}

    if not replay and not os.environ.get("VERIF_DEV_SKIP_MC"):
        if thorough:
            r = ctx.tlc_expect_ok("Pool", None, name="mc", workers=wk(16), timeout=3000,
                                  cfg_text=cfg(2, ("k1",), rounds=2, maxtime=2, breaks=0, close=("TRUE",)))
            r2 = ctx.tlc_expect_ok("Pool", None, name="mc2", workers=wk(16), timeout=3000,
                                   cfg_text=cfg(2, ("k1", "k2"), mk=1, rounds=1, maxtime=3, breaks=1))
            ctx.cov["states_two_keys"] = r2["distinct"]
        else:
            r = ctx.tlc_expect_ok("Pool", None, name="mc", workers=wk(8), timeout=600,
                                  cfg_text=cfg(2, ("k1",), rounds=1, maxtime=3, breaks=1))
        # the contexts a Get may be called with (cancelled before the call, during the probe, dial failure)
        if thorough:
            rc = ctx.tlc_expect_ok("Pool", None, name="mcctx", workers=wk(16), timeout=3000,
                                   cfg_text=cfg(2, ("k1",), rounds=1, maxtime=3, breaks=1, ctxs=ALL_CTXS))
        else:
            rc = ctx.tlc_expect_ok("Pool", None, name="mcctx", workers=wk(6), timeout=900,
                                   cfg_text=cfg(2, ("k1",), rounds=1, maxtime=1, breaks=1, close=("TRUE",), ctxs=ALL_CTXS))
        ctx.cov["states_get_contexts"] = rc["distinct"]
        r0 = ctx.tlc_expect_ok("Pool", None, name="mc0", workers=wk(4), timeout=600,
                               cfg_text=cfg(2, ("k1",), mpk=0, rounds=2 if thorough else 1, maxtime=2, breaks=0))
        ctx.cov["states_max_conns_per_key_0"] = r0["distinct"]
        ctx.cov["states"] = r["distinct"]
        ctx.cov["transitions"] = r["generated"]
        ctx.cov["model_depth"] = r["depth"]
        ctx.log("TLC exhaustive (safety): %d distinct states, %d transitions, depth %d, %.1fs" % (
            r["distinct"], r["generated"], r["depth"], r["wall"]))
        rl = ctx.tlc_expect_ok("Pool", None, name="live", workers=wk(8), timeout=1200,
                               cfg_text=cfg(2, ("k1",), rounds=1, maxtime=2, breaks=0, tail=LIVE))
        ctx.cov["liveness_states"] = rl["distinct"]
        ctx.log("TLC liveness (weak fairness): %d distinct states, %.1fs" % (rl["distinct"], rl["wall"]))
        # non-vacuity: two broken designs must be rejected by the same invariant
        for dev in ("NoLifetimeTest", "CloseNoDrain", "CtxDropsConn"):
            ra = ctx.tlc("Pool", None, name="mut-" + dev, workers=wk(4), timeout=600,
                         cfg_text=cfg(2, ("k1",), rounds=1, maxtime=3, breaks=0, close=("TRUE",), devs=[dev],
                                      ctxs=("live", "dead") if dev == "CtxDropsConn" else ("live",),
                                      tail="VIEW View\nINVARIANTS NoViolation\n"))
            if ra["invariant"] != "NoViolation":
                raise vlib.Infra("mutated design %s is not rejected: vacuous invariant (%s, %s)" % (
                    dev, ra["invariant"], ra["error"]))
        ctx.cov["mutated_designs_rejected"] = ["NoLifetimeTest", "CloseNoDrain", "CtxDropsConn"]
        if thorough:
            g = ctx.tlc("Pool", None, name="simbig", workers=wk(8), timeout=1500, simulate=2500, depth=220,   # num is per worker
                        cfg_text=cfg(8, ("k1", "k2", "k3"), mpk=2, mk=2, rounds=2, maxtime=4, breaks=2,
                                     tail="INVARIANTS NoViolation TypeOK OnePlace\n"))
            if not g["ok"]:
                raise vlib.Infra("simulation of the 8-worker design failed: %s %s" % (g["invariant"], g["error"]))
            ctx.cov["simulated_behaviours_8_workers"] = 20000

    if replay:
        obj = json.load(open(replay))
        behs = [obj["behaviour"]]
        behs[0]["id"] = 1
    else:
        behs = []
        g = ctx.tlc("Pool", None, name="gen", workers=wk(4), timeout=1500,
                    cfg_text=cfg(2, ("k1",), rounds=2 if thorough else 1, maxtime=3, breaks=1, close=("TRUE",),
                                 gen=True, db=2, tail="CHECK_DEADLOCK FALSE\n"))
        if not g["ok"]:
            raise vlib.Infra("behaviour generation failed: %s %s" % (g["invariant"], g["error"]))
        tlc_behs = [v for tag, v in g["printed"] if tag == "BEH"]
        ctx.cov["tlc_delay_bounded_schedules"] = len(tlc_behs)
        if not tlc_behs:
            raise vlib.Infra("TLC produced no schedules")
        # the same with every context a Get may be called with; kept: schedules with a Get that is not "live"
        gx = ctx.tlc("Pool", None, name="genctx", workers=wk(4), timeout=1500,
                     cfg_text=cfg(2, ("k1",), rounds=1, maxtime=2 if not thorough else 3, breaks=1, close=("TRUE",),
                                  gen=True, db=2 if thorough else 1, tail="CHECK_DEADLOCK FALSE\n", ctxs=ALL_CTXS))
        if not gx["ok"]:
            raise vlib.Infra("behaviour generation (contexts) failed: %s %s" % (gx["invariant"], gx["error"]))
        ctx_behs = [v for tag, v in gx["printed"] if tag == "BEH"
                    and any(x.count(":") >= 3 for x in v["sched"] if ":get:" in x)]
        ctx.cov["tlc_delay_bounded_schedules_with_contexts"] = len(ctx_behs)
        if not ctx_behs:
            raise vlib.Infra("TLC produced no schedules with a cancelled Get")
        for b in (tlc_behs if thorough else vlib.sample(ctx.rng, tlc_behs, 200)):
            c = dict(b["cfg"], ops=ops_of(b["sched"]))
            behs.append({"cfg": c, "pol": "list", "sched": b["sched"], "src": "tlc"})
        for b in (ctx_behs if thorough else vlib.sample(ctx.rng, ctx_behs, 120)):
            c = dict(b["cfg"], ops=ops_of(b["sched"]))
            behs.append({"cfg": c, "pol": "list", "sched": b["sched"], "src": "tlcctx"})
        behs += cancelled_gets(thorough)
        behs += full_bucket_windows(thorough)
        behs += old_bucket_fresh_conns(thorough)
        for sc in scenarios(thorough):
            horizon = 16 * len(sc["workers"]) + 12
            behs.append({"cfg": sc, "pol": "db", "delays": [], "src": "db"})
            for i in range(horizon):
                behs.append({"cfg": sc, "pol": "db", "delays": [i], "src": "db"})
            pairs = [(i, j) for i in range(horizon) for j in range(i + 1, horizon)]
            for (i, j) in (vlib.sample(ctx.rng, pairs, 300 if thorough else 60)):
                behs.append({"cfg": sc, "pol": "db", "delays": [i, j], "selrot": (i + j) % 2, "src": "db"})
            for k in range(150 if thorough else 50):
                behs.append({"cfg": sc, "pol": "rand", "seed": ctx.rng.randrange(1 << 30), "src": "rand"})
        for i, b in enumerate(behs):
            b["id"] = i + 1
    ctx.log("%d schedules to execute" % len(behs))

    overlay = base.instrument(ctx, FILES)
    binary = ctx.build_harness("poolcheck", overlay=overlay)
    events = base.run_shards_resilient(ctx, binary, behs)
    by_id = {b["id"]: b for b in behs}
    by_t = {}
    for e in events:
        by_t.setdefault(e["t"], []).append(e)

    selftest = {}
    if not replay:
        basetr = None
        for b in behs:
            evs = by_t.get(b["id"], [])
            if any(e["e"] == "GetReturn" and not e["fresh"] for e in evs) and not any(e["e"] == "Panic" for e in evs):
                basetr = evs
                break
        if basetr:
            c1 = [dict(e, t=900001) for e in basetr]
            for e in c1:
                if e["e"] == "GetReturn" and not e["fresh"]:
                    e["c"] = "c9"                   # corrupt one logged field
                    break
            c2 = [dict(e, t=900002) for e in basetr]
            kdel = next(i for i, e in enumerate(c2) if e["e"] == "ReturnReturn")
            del c2[kdel]                            # drop one event
            events = events + c1 + c2
            selftest = {900001: "corrupt-field", 900002: "drop-event"}

    tcfg = cfg(8, ("k1", "k2", "k3"), rounds=4, maxtime=9, breaks=4, close=("TRUE",), spec="TSpec", ctxs=ALL_CTXS,
               tail="CHECK_DEADLOCK FALSE\nPOSTCONDITION Post\n")
    verdicts = base.validate_parallel(ctx, "PoolTrace", [project(e) for e in events], tcfg, batch=150,
                                      par=8 if thorough else 6)

    ok = drift = 0
    preds = {}
    for t, recs in sorted(verdicts.items()):
        conform = any(not r["drift"] for r in recs)
        mon = [r for r in recs if r["drift"]]
        viol = sorted(set(v for r in recs for v in r["viol"]))
        if t in selftest:
            if conform:
                raise vlib.Infra("binding self-test failed: %s trace was accepted" % selftest[t])
            continue
        if viol:
            for v in viol:
                preds[v] = preds.get(v, 0) + 1
            what = "pool history violates " + ",".join(viol)
            ctx.violation(what, {"property": PID, "behaviour": by_id[t], "trace": by_t[t],
                                 "violated": viol, "how": "bin/check C19 --replay <this file>"})
        elif conform:
            ok += 1
        else:
            drift += 1
            if drift <= 10:
                print("DRIFT property=%s trace=%d first-unexplained-seq=%s" % (PID, t, mon[0]["driftAt"] if mon else "?"))
    if selftest:
        ctx.cov["binding_selftest"] = "corrupted-field and dropped-event traces rejected"
    reuse = sum(1 for t, evs in by_t.items() if any(e["e"] == "GetReturn" and not e["fresh"] for e in evs))
    ctx.cov["traces_validated_against_impl"] = ok
    ctx.cov["drift_traces"] = drift
    ctx.cov["evaluations"] = len(behs)
    ctx.cov["distinct_nontrivial"] = reuse
    ctx.cov["rule"] = ("schedules = delay-bounded (<=2) schedules of Pool.tla printed by TLC; delay positions (0,1,2) on "
                       "the code's own non-preemptive schedule; seeded random schedules; scenarios with 2-%d workers, "
                       "1-3 keys, MaxConnsPerKey 1-2, lifetime and stale-key bounds hit, sweeps and one shutdown; Gets called with a live "
                       "context, one cancelled / past its deadline before the call, one cancelled during the Usable() probe, and "
                       "with a failing dial (TLC schedules, directed schedules on usable / broken / expired heads, scenarios); "
                       "non-trivial = a pooled connection was actually reused" % (8 if thorough else 3))
    ctx.cov["violated_predicates"] = preds
    for b in behs[:3]:
        ctx.cov["samples"].append({"behaviour": b, "trace": by_t.get(b["id"], [])[:40]})
    ctx.cov["exhaustive"] = False
    ctx.cov["observations"] = [
        "pool.go Return writes the bucket's lastUse stamp into a copy (slot is a map value), so a bucket is dropped "
        "MaxConnLifetimeSec after its creation even when busy: reuse is lost, C19 is not affected; specified as is",
        "a Return that runs after Close drops the connection without closing it; outside the statement (the pool is "
        "not live) under the reading of DESIGN 2.5",
    ]
    ctx.assumptions += [
        "one goroutine runs at a time (harness/vsched); scheduling points are the synchronisation operations found "
        "syntactically by harness/cmd/instrument; critical sections (Lock..Unlock) are atomic steps",
        "connection objects are harness objects (owner, close count); Usable() = not closed and not dropped by the peer",
        "time is the fake clock of a testing/synctest bubble; one unit = 30 s (ticker period 60 s = 2 units)",
        "a single Close per pool; integration with remote.Target is covered by C05's harness, not here",
        "cfg.New honours the caller's context as a dialer does (error when it is cancelled or past its deadline); a Get "
        "that returns an error is the event GetFail, the worker holds nothing; the design hands a pooled connection that "
        "passes the tests out whatever the context says (as pool.go does) - closing it or putting it back instead would "
        "be DRIFT, dropping it is LeakedAfterShutdown",
    ]


def findings():
    p = os.path.join(os.environ.get("VERIF_KNOWN_DIR") or os.path.join(vlib.VERIF, "known_findings.d"), PID + ".json")
    if not os.path.exists(p):
        return []
    return json.load(open(p)).get("findings", [])


META = {
    "engine": "poolcheck",
    "level": "model_checking",
    "technique": "TLA+ spec Pool.tla (Get/Return/CleanUp/Close at yield-point granularity, connection objects with "
                 "owner and close count) model-checked by TLC incl. liveness; TLC-generated delay-bounded schedules, "
                 "direct delay-bounded and random schedules executed on the AST-instrumented real pool.P under a "
                 "deterministic yield-point scheduler; histories validated against PoolTrace.tla (predicates in PoolObs.tla)",
    "text": "TLC visits every interleaving of 2 workers doing get/use/return on 1-2 keys (MaxConnsPerKey 1) with 3 clock "
            "ticks, one clean-up sweep, a dropped idle connection and one shutdown, and checks: held by at most one "
            "worker, never handed out closed / expired / after shutdown, closed at most once and not while held, no "
            "leak once the pool is closed, termination; a second exhaustive run lets every Get be called with a live context, a "
            "context cancelled before the call or during the probe of a pooled connection, or a failing dial. The same predicates are evaluated by TLC over histories recorded "
            "from the real pool driven through delay-bounded (<=2) and random schedules with up to 8 workers and 3 keys.",
    "note": "Bounded: delay bound 2; exhaustive model for 2 workers; 3-8 workers by simulation and seeded schedules on "
            "the code. Critical sections are atomic steps. Trusted: TLC, harness/vsched, the instrumenter, Go toolchain.",
    "design_ref": "DESIGN.md section 5 C19",
}
