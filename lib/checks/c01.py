"""C01 - one terminal outcome per queued recipient.

(T) TLC checks Queue.tla exhaustively (every fault plan inside the bound).
(B) TLC-generated behaviours (fault plans) are replayed on the real queue over a
    scripted target + scripted bounce target; the recorded traces are validated
    against QueueTrace.tla; the property predicates (QueueObs.tla) are evaluated
    after every recorded event.
    Variant (b): the real target.smtp / target.lmtp / remote-MX target against a scripted next hop.
    Variant (c): SERIES of such behaviours through one queue over one downstream that keeps state between
    messages (the connection pool of the real remote-MX target; a scripted target with all messages in the
    spool at once) - every message of a series is its own trace for QueueTrace.tla (build_series).
    Variant (d): the unclassified failure of the body stage of a behaviour realised at every point between "354" and
    the final dot on the CLIENT's side of the real remote-MX / target.smtp / target.lmtp code (spooled body cannot be
    opened / read fails at once, in the middle, at the end / peer resets in mid-transfer / the client's socket fails):
    harness/queuecheck/bodyfault_test.go, build_bodyfault.
"""
import json
import os

import vlib

KEEP = {"Cfg", "QAccept", "TStart", "TAddRcpt", "TBody", "TBodyNA", "TCommit", "TAbort",
        "Dsn", "Dsn2", "Quiesced"}

REPORT_PREDS = {"ReportNotWellFormed", "ReportReturnPathNotNull", "ReportNotToSender",
                "ReportLacksOriginalHeader", "ReportUsesRewrittenAddress", "ReportStatusMismatch",
                "ReportOmitsFailedRcpt", "ReportListsRcptTwice", "ReportAlthoughSuppressed",
                "ReportAboutReport", "FailedRcptNotReported"}

MC_CFG = """SPECIFICATION Spec
CONSTANTS
  Rcpts = {%(rcpts)s}
  MaxTriesSet = {%(mts)s}
  MaxList = %(maxlist)d
  Devs = {%(devs)s}
  RwSets = %(rwsets)s
  Utf8Set = %(utf8set)s
  EnhSet = %(enhset)s
  BounceStages = %(stages)s
  Gen = %(gen)s
%(tail)s
"""

TRACE_CFG = """SPECIFICATION TSpec
CONSTANTS
  Rcpts = {"r1", "r2", "r3"}
  MaxTriesSet = {1, 2, 3}
  MaxList = 3
  Devs = {%(devs)s}
  RwSets = {{}, {"r1"}, {"r1", "r2"}}
  Utf8Set = {TRUE, FALSE}
  EnhSet = {TRUE, FALSE}
  BounceStages = {"ok", "start", "rcpt", "body", "commit"}
  Gen = FALSE
CHECK_DEADLOCK FALSE
POSTCONDITION Post
"""


DIMS_C01 = dict(rwsets="{{}}", utf8set="{FALSE}", enhset="{TRUE}", stages='{"ok", "start"}')


def cfg(rcpts, mts, maxlist, devs=(), gen=False, tail="", dims=None):
    return MC_CFG % dict(dict({"enhset": "{TRUE}"}, **(dims or DIMS_C01)), rcpts=", ".join('"%s"' % r for r in rcpts),
                         mts=", ".join(str(m) for m in mts), maxlist=maxlist,
                         devs=", ".join('"%s"' % d for d in devs),
                         gen="TRUE" if gen else "FALSE", tail=tail)


MC_TAIL = "VIEW View\nINVARIANTS NoViolation TypeOK Bounded\nPROPERTY Terminates\n"
GEN_TAIL = "CHECK_DEADLOCK FALSE\n"


def behaviours_from(r, start_id):
    out = []
    for tag, val in r["printed"]:
        if tag == "BEH":
            out.append({"id": start_id + len(out), "cfg": val["cfg"], "hist": val["hist"]})
    return out


def dedup(behs):
    seen, out = set(), []
    for b in behs:
        k = json.dumps([b["cfg"], b["hist"]], sort_keys=True)
        if k not in seen:
            seen.add(k)
            out.append(b)
    for i, b in enumerate(out):
        b["id"] = i + 1
    return out


def nontrivial(b):
    return any(s.get("res", "ok") != "ok" or any(v != "ok" for v in (s.get("st") or {}).values())
               for s in b["hist"])


HOOK_CFG = """SPECIFICATION TSpec
CONSTANTS
  Rcpts = {"r1", "r2", "r3", "r4", "r5"}
  MaxTriesSet = {1, 2, 3, 4, 5, 6, 7, 8, 9, 10}
  MaxList = 5
  Devs = {}
  RwSets = {{}}
  Utf8Set = {FALSE}
  EnhSet = {TRUE}
  BounceStages = {"ok", "start", "rcpt", "body", "commit"}
  Gen = FALSE
CHECK_DEADLOCK FALSE
POSTCONDITION Post
"""


def repo_test_traces(ctx, pid, mine):
    """The other direction of the binding: run the REPOSITORY'S OWN tests of internal/target/queue, unchanged,
    with the trace hooks compiled in (build tag verif; verif_trace.go / verif_trace_test.go) and validate every
    message's recorded life against Queue.tla (QueueHookTrace.tla): the tests' own assertions are whatever they
    are, the specification's predicates are evaluated at every step of what the tests made the queue do."""
    import subprocess
    d = ctx.sub("repotests")
    raw = os.path.join(d, "raw.ndjson")
    tmp = os.path.join(d, "tmp")
    os.makedirs(tmp, exist_ok=True)
    env = vlib.goenv()
    env.update(VERIF_TRACE_OUT=raw, TMPDIR=tmp)
    p = subprocess.run(["timeout", "600", "go", "test", "-tags", "verif", "-count=1", "./internal/target/queue/"],
                       cwd=ctx.repo, env=env, stdout=subprocess.PIPE, stderr=subprocess.STDOUT, text=True)
    if not os.path.exists(raw) or os.path.getsize(raw) == 0:
        raise vlib.Infra("the repository's queue tests recorded nothing with the hooks on (rc=%d): %s" % (
            p.returncode, p.stdout[-1500:]))
    ctx.cov["repo_tests_rc"] = p.returncode     # a failing test is not our verdict; its traces still count
    by_key = {}
    for line in open(raw):
        e = json.loads(line)
        by_key.setdefault(e["key"], []).append(e)
    events, info, skipped = [], {}, 0
    for k, key in enumerate(sorted(by_key)):
        evs = sorted(by_key[key], key=lambda e: e["seq"])
        acc = [e for e in evs if e["e"] == "QAccept"]
        if len(acc) != 1 or evs[0]["e"] != "QAccept":
            skipped += 1          # spool entries the test wrote by hand / re-used IDs: no defined start
            continue
        names = {}
        def rid(a):
            if a not in names:
                names[a] = "r%d" % (len(names) + 1)
            return names[a]
        t = 2000000 + k
        a0 = acc[0]
        out = [{"t": t, "seq": 0, "e": "Cfg", "partial": any(e["e"] == "TBodyNA" for e in evs),
                "bounce": a0["bounce"], "nullSender": a0["nullSender"], "mt": a0["mt"],
                "list": [rid(r) for r in a0["rcpts"]], "test": key.split("/")[-3] if key.count("/") >= 3 else key}]
        for e in evs:
            n = {"t": t, "seq": e["seq"], "e": e["e"]}
            if e["e"] == "QAccept":
                n["rcpts"] = [rid(r) for r in e["rcpts"]]
            elif e["e"] == "TAddRcpt":
                n["r"], n["res"] = rid(e["r"]), e["res"]
            elif e["e"] == "TBodyNA":
                st = {rid(r): v for r, v in e["st"].items()}
                st.update({rid(r): v for r, v in (e.get("extra") or {}).items()})
                n["st"] = st
            elif e["e"] == "Dsn":
                n["stage"], n["rcpts"] = e["stage"] or "abort", [rid(r) for r in e["rcpts"]]
            elif e["e"] == "Quiesced":
                n["spoolEmpty"] = e["spoolEmpty"]
            elif "res" in e:
                n["res"] = e["res"]
            out.append(n)
        if len(names) > 5:
            skipped += 1
            continue
        if out[-1]["e"] != "Quiesced":
            out.append({"t": t, "seq": out[-1]["seq"] + 1, "e": "End"})
        events += out
        info[t] = {"spool_entry": key, "events": out}
    if not events:
        raise vlib.Infra("no usable trace from the repository's queue tests")
    # binding self-test: a trace with one corrupted field must not be accepted
    st_t = None
    for t, i in info.items():
        if any(e["e"] == "TCommit" and e["res"] == "ok" for e in i["events"]) and i["events"][-1]["e"] == "Quiesced":
            bad = [dict(e, t=2900001) for e in i["events"]]
            next(e for e in bad if e["e"] == "TCommit" and e["res"] == "ok")["res"] = "temp"
            events += bad
            st_t = 2900001
            break
    verdicts, by_t = ctx.validate("QueueHookTrace", None, events, name="repotests-trace", cfg_text=HOOK_CFG)
    ok = drift = 0
    for t, recs in sorted(verdicts.items()):
        if t == st_t:
            if any(not r["drift"] for r in recs) and not recs[0]["viol"]:
                raise vlib.Infra("binding self-test failed: a corrupted repo-test trace was accepted")
            continue
        viol = sorted(set(v for r in recs for v in r["viol"] if mine(v)))
        if viol:
            ctx.violation("the repository's own queue test %s makes the queue violate %s" % (
                info[t]["events"][0]["test"], ",".join(viol)),
                {"property": pid, "repotest": info[t], "violated": viol,
                 "how": "bin/check %s --replay <this file> (re-runs the package's tests with the hooks on)" % pid})
        elif any(not r["drift"] for r in recs):
            ok += 1
        else:
            drift += 1
            print("DRIFT property=%s repo-test trace %s (%s) first-unexplained-seq=%s" % (
                pid, t, info[t]["events"][0]["test"], recs[0]["driftAt"]))
    ctx.cov["repo_test_traces"] = {"messages": len(by_key), "validated": ok, "drift": drift, "skipped_no_start": skipped,
                                   "events": sum(len(v) for v in by_key.values())}
    return ok


def run(ctx, replay):
    if replay and "repotest" in json.load(open(replay)):
        repo_test_traces(ctx, "C01", lambda v: v not in REPORT_PREDS)
        return
    run_queue(ctx, replay, "C01", lambda v: v not in REPORT_PREDS, DIMS_C01, {"real": True, "series": True, "bodyfault": True})
    if not replay:
        n = repo_test_traces(ctx, "C01", lambda v: v not in REPORT_PREDS)
        ctx.cov["traces_validated_against_impl"] += n
    if ctx.tier == "thorough" and not replay:
        # the end-to-end composition (endpoint -> pipeline -> queue -> forwarder -> next hop), MsgPath.tla
        import subprocess
        import sys
        p = subprocess.run([sys.executable, os.path.join(vlib.VERIF, "bin", "check"), "PATH", "--tier", "thorough"],
                           stdout=subprocess.PIPE, stderr=subprocess.STDOUT, text=True, env=dict(os.environ))
        lines = p.stdout.splitlines()
        if p.returncode == 2:
            raise vlib.Infra("end-to-end composition run failed: " + " ".join(l for l in lines if "INFRA" in l)[:300])
        n = 0
        for l in lines:
            if l.startswith("VIOLATION property=PATH"):
                n += 1
                ctx.violations.append(("end-to-end path: " + l.split("#", 1)[-1].strip(),
                                       l.split("replay=", 1)[1].split()[0]))
        ctx.cov["end_to_end_path_run"] = {"exit": p.returncode, "violations": n,
                                          "summary": [l for l in lines if "behaviours" in l or "done:" in l]}


def build_series(ctx, pool, thorough):
    """Variant (c) (harness/queuecheck/series_test.go): series of 2-3 complete behaviours of Queue.tla addressed to the
    same mailboxes, run through ONE queue over ONE downstream.  Series-level: the queue's configuration (max_tries,
    bounce pipeline) is shared, so members are drawn from one (mt, bounce) class.  remote: per-recipient plans whose
    MAIL always succeeds (target.remote sends MAIL with the first RCPT).

    Selection: what a downstream can carry from one transaction into the next is per-recipient, so a series is
    abstracted to the pairs of CONSECUTIVE transactions (attempts, across message boundaries) it contains, each pair
    projected on every recipient: (result of RCPT and of the body stage in the earlier one, the same in the later one).
    Candidate series are drawn at random from the plans TLC printed and picked greedily so that as many distinct
    combinations as possible are replayed (quick: a seeded part of them; thorough: practically all)."""
    def txns(b, remote):
        # (remote: RCPT has no unclassified result on the wire - the hop answers 4xx - and Commit has no SMTP counterpart)
        out, cur = [], None
        for h in b["hist"]:
            if h["a"] == "TStart":
                cur = {"rc": {}, "data": "none", "start": h.get("res", "ok")}
                out.append(cur)
            elif cur is None:
                continue
            elif h["a"] == "TAddRcpt":
                cur["rc"][h["r"]] = "temp" if (remote and h["res"] == "unspec") else h["res"]
            elif h["a"] == "TBody":
                cur["data"] = h["res"]
            elif h["a"] == "TBodyNA":
                vals = sorted(set((h.get("st") or {}).values()))
                cur["data"] = vals[0] if len(vals) == 1 else "mixed:" + ",".join(vals)
            elif h["a"] == "TCommit" and h["res"] != "ok" and not remote:
                cur["data"] = "commit-" + h["res"]
        return out
    tcache = {}
    def txns_of(b, remote):
        if (id(b), remote) not in tcache:
            tcache[(id(b), remote)] = txns(b, remote)
        return tcache[(id(b), remote)]
    def combos(members, remote):
        ts = [t for m in members for t in txns_of(m, remote)]
        out = set()
        for a, c in zip(ts, ts[1:]):
            if remote and not (a["start"] == "ok" and a["data"] in ("ok", "none")):
                continue      # the connection of the earlier transaction is not returned to the pool: nothing is carried over
            for r in set(a["rc"]) | set(c["rc"]):
                out.add((a["start"], a["rc"].get(r, "-"), a["data"], c["start"], c["rc"].get(r, "-"), c["data"]))
        return out
    classes = {}
    for b in pool:
        c = b["cfg"]
        if c.get("rw") or c.get("chain") or len(set(c["list"])) < 2:
            continue
        classes.setdefault((c["mt"], c["bounce"]), []).append(b)
    keys = sorted(classes)
    if not keys:
        return []
    n_remote, n_scr = (600, 300) if thorough else (90, 24)
    def member(b, sid, pos, utf8):
        nb = json.loads(json.dumps({"cfg": b["cfg"], "hist": b["hist"]}))
        nb["id"] = 3000000 + 10 * sid + pos
        for f in ("restartFirst", "caseVar", "uniLocal", "uniForm", "senderForm", "errshape", "front", "idn", "enh", "errtext"):
            nb["cfg"].pop(f, None)
        nb["cfg"]["utf8"] = utf8
        return nb
    out = []
    rclasses = {}
    for remote, n in ((True, n_remote), (False, n_scr)):
        cands = []
        for _ in range(n * (6 if thorough else 25)):
            key = keys[ctx.rng.randrange(len(keys))]
            cand = classes[key]
            if remote:
                if key not in rclasses:
                    rclasses[key] = [b for b in cand if b["cfg"]["partial"] and
                                     all(h.get("res", "ok") == "ok" for h in b["hist"] if h["a"] == "TStart")]
                cand = rclasses[key]
                if not cand:
                    continue
            ms = [ctx.rng.choice(cand) for _ in range(ctx.rng.choice((2, 3, 3)))]
            cands.append((key, ms, combos(ms, remote)))
        seen = {}
        depth = 3        # every combination is wanted in three different series (different other recipients / neighbours)
        for _ in range(n):
            if not cands:
                break
            # greedy: the candidate with the most combinations still wanted (ties: the earlier draw)
            best = max(range(len(cands)), key=lambda i: (sum(1 for c in cands[i][2] if seen.get(c, 0) < depth), -i))
            key, ms, cs = cands.pop(best)
            for c in cs:
                seen[c] = seen.get(c, 0) + 1
            k = len(out)
            scfg = {"fwd": "remote" if remote else "scripted", "mt": key[0], "bounce": key[1],
                    "idn": k % 4 == 1, "enh": k % 5 != 2, "temp": "421" if k % 3 == 1 else "",
                    "reuse": 2 if k % 4 == 3 else 0, "restart": (not remote) and k % 3 == 2}
            out.append({"id": k + 1, "cfg": scfg,
                        "members": [member(b, k, pos, (not scfg["idn"]) and (k + pos) % 4 == 3) for pos, b in enumerate(ms)]})
        ctx.cov["series_%s_combinations" % ("remote" if remote else "scripted")] = len(seen)
    return out


BODY_FAULTS = ["open", "read0", "readmid", "readend", "reset", "wr0", "wrmid"]     # wr*: the remote-MX target only (its dialer)


def body_unspec(h):
    """the environment choice 'the body stage failed without a classification for every accepted recipient'"""
    if h["a"] == "TBody":
        return h.get("res") == "unspec"
    if h["a"] == "TBodyNA":
        st = list((h.get("st") or {}).values())
        return bool(st) and all(v == "unspec" for v in st)
    return False


def build_bodyfault(ctx, pool, thorough):
    """Variant (d) (harness/queuecheck/bodyfault_test.go).  Queue.tla has ONE unclassified result of the body stage;
    on the wire it can come about at several points, on either side.  Variant (b) realises it on the server's side
    (hang-up after the final dot).  Here every plan TLC printed that contains that choice is a candidate, and the choice
    is realised by one of BODY_FAULTS (top-level field bodyFault of the behaviour) in front of each of the three real
    downstream clients.  HARNESS-ONLY data dimension: the model does not depend on where the transfer broke (to the
    queue each of them is "unspec for every accepted recipient"), the predicates of QueueObs.tla evaluated by TLC on
    the recorded trace decide.  Every (downstream, fault point) pair gets the same number of plans: half of them those
    with the most at stake (two recipients accepted in the broken transfer, a report owed, a further attempt after
    it), the rest a seeded sample."""
    seen, cand = set(), {"smtp": [], "lmtp": [], "remote": []}
    for b in pool:
        c = b["cfg"]
        if c.get("rw") or c.get("chain") or not any(body_unspec(h) for h in b["hist"]):
            continue
        k = json.dumps([c["partial"], c["bounce"], c["nullSender"], c["mt"], c["list"], b["hist"]], sort_keys=True)
        if k in seen:
            continue
        seen.add(k)
        sc = 0
        for i, h in enumerate(b["hist"]):
            if body_unspec(h):
                sc += 2 if len(h.get("st") or {}) >= 2 else 0
                sc += 1 if any(x["a"] == "TStart" for x in b["hist"][i:]) else 0
        sc += 1 if (c["bounce"] and not c["nullSender"]) else 0
        if not c["partial"]:
            cand["smtp"].append((sc, k, b))
        else:
            cand["lmtp"].append((sc, k, b))
            if all(h.get("res", "ok") == "ok" for h in b["hist"] if h["a"] == "TStart"):
                cand["remote"].append((sc, k, b))
    per = 60 if thorough else 3
    out = []
    for down in ("remote", "lmtp", "smtp"):
        lst = sorted(cand[down], key=lambda x: (-x[0], x[1]))
        if not lst:
            continue
        faults = [f for f in BODY_FAULTS if down == "remote" or not f.startswith("wr")]
        n = per * len(faults)
        top = lst[:n // 2]
        rest = vlib.sample(ctx.rng, lst[len(top):], n - len(top))
        ctx.rng.shuffle(top)
        for k, (_, _, b) in enumerate(top + rest):
            nb = json.loads(json.dumps({"cfg": b["cfg"], "hist": b["hist"]}))
            for f in ("restartFirst", "caseVar", "uniLocal", "uniForm", "senderForm", "errshape", "front", "idn", "enh",
                      "errtext", "midData", "sts"):
                nb["cfg"].pop(f, None)
            nb["cfg"]["utf8"] = False
            nb["cfg"]["fwd"] = "remote" if down == "remote" else ""
            nb["bodyFault"] = faults[k % len(faults)]
            # harness-only, as in variant (b): every third one has internationalized recipients on a hop without SMTPUTF8
            # (the client converts the addresses for the wire; the status keys must stay the queue's addresses)
            nb["cfg"]["idn"] = (k // len(faults)) % 3 == 2
            nb["id"] = 4000000 + len(out) + 1
            out.append(nb)
    ctx.cov["bodyfault_candidates"] = {d: len(v) for d, v in cand.items()}
    return out


def wk(n):
    """TLC workers: n, capped by VERIF_TLC_WORKERS when the machine is shared."""
    cap = int(os.environ.get("VERIF_TLC_WORKERS", "0") or 0)
    return min(n, cap) if cap > 0 else n


def run_queue(ctx, replay, pid, mine, dims, opts):
    """Shared by C01 and C18: `mine` selects the predicate names that decide this property,
    `dims` the report dimensions of the model, opts: {"known": fn(viol, behaviour, trace) -> (fid, what) | None,
    "post": fn(behaviours) (e.g. switch some to chain mode)}."""
    thorough = ctx.tier == "thorough"
    # ---- (T) exhaustive model checking of the design ----------------------
    if not replay:
        if thorough:
            r = ctx.tlc_expect_ok("Queue", None, name="mc", workers=wk(16), timeout=2400, heap="8g",
                                  cfg_text=cfg(["r1", "r2", "r3"], [1, 2, 3], opts.get("maxlist_thorough", 3), tail=MC_TAIL, dims=dims))
        else:
            r = ctx.tlc_expect_ok("Queue", None, name="mc", workers=wk(8), timeout=600, heap="3g",
                                  cfg_text=cfg(["r1", "r2"], [1, 2, 3], 2, tail=MC_TAIL, dims=dims))
        ctx.cov["states"] = r["distinct"]
        ctx.cov["transitions"] = r["generated"]
        ctx.cov["model_depth"] = r["depth"]
        ctx.log("TLC exhaustive: %d distinct states, %d transitions, depth %d, %.1fs" % (
            r["distinct"], r["generated"], r["depth"], r["wall"]))
        # the as-is deviation must be found by the same invariants (non-vacuity)
        ra = ctx.tlc("Queue", None, name="asis", workers=4, timeout=300, heap="2g",
                     cfg_text=cfg(["r1", "r2"], [2], 2, devs=["DupRcpt"],
                                  tail="VIEW View\nINVARIANTS NoViolation\n"))
        if ra["invariant"] != "NoViolation":
            raise vlib.Infra("as-is model (DupRcpt) no longer violates NoViolation: the invariant is vacuous")
        ctx.cov["asis_counterexample_found"] = True

    # ---- (B) behaviours out of TLC ------------------------------------------
    if replay:
        obj = json.load(open(replay))
        behs = [obj["behaviour"]]
        behs[0]["_stored_id"] = behs[0].get("id", 0)
        behs[0]["id"] = 1
    else:
        behs = []
        g = ctx.tlc("Queue", None, name="gen", workers=wk(8), timeout=1800, heap="6g" if thorough else "3g",
                    cfg_text=cfg(["r1", "r2"], [1, 2] if thorough else [2], 2, gen=True, tail=GEN_TAIL,
                                 dims=opts.get("gen_dims", dims)))
        if not g["ok"]:
            raise vlib.Infra("behaviour generation failed: %s %s" % (g["invariant"], g["error"]))
        allb = behaviours_from(g, 1)
        ctx.cov["exhaustive_plans"] = len(allb)
        cap = opts.get("thorough_cap", 60000)
        if thorough and len(allb) <= cap:
            behs += allb
            ctx.cov["exhaustive_plans_replayed"] = True
            n_sim = 6000
        else:
            # stratified sample: one plan per shape (sequence of call results, recipient names dropped)
            groups = {}
            for b in allb:
                sig = (json.dumps(b["cfg"], sort_keys=True).replace("r2", "r1"),
                       tuple((h["a"], h.get("res", ""), tuple(sorted((h.get("st") or {}).values())), h.get("stage", ""))
                             for h in b["hist"]))
                groups.setdefault(sig, []).append(b)
            sigs = sorted(groups, key=repr)
            ctx.rng.shuffle(sigs)
            take = cap if thorough else opts.get("quick_plans", 450)
            for sg in sigs[:take]:
                behs.append(ctx.rng.choice(groups[sg]))
            if thorough:   # fill up to the cap with further members of the shapes
                rest = [b for sg in sigs for b in groups[sg]]
                ctx.rng.shuffle(rest)
                behs += rest[:max(0, cap - len(behs))]
            ctx.cov["plan_shapes_total"] = len(sigs)
            n_sim = 6000 if thorough else 150
        g2 = ctx.tlc("Queue", None, name="sim", workers=1, timeout=900, simulate=n_sim, depth=80, heap="2g",
                     cfg_text=cfg(["r1", "r2", "r3"], [1, 2, 3], 3, gen=True, tail=GEN_TAIL, dims=dims))
        if not g2["ok"]:
            raise vlib.Infra("behaviour simulation failed: %s %s" % (g2["invariant"], g2["error"]))
        behs += behaviours_from(g2, len(behs) + 1)
        behs = dedup(behs)
        opts["_allb"] = allb
        if not behs:
            raise vlib.Infra("TLC produced no behaviours")
    if not replay:
        for k, b in enumerate(behs):       # harness-only dimension: every fourth message waits for a restart
            if k % 4 == 3:
                b["cfg"]["restartFirst"] = True
            # harness-only dimension: how the scripted failures are built (421 instead of 451; nested annotated errors;
            # an ordinary error annotated with WithFields + WithTemporary instead of an SMTPError)
            b["cfg"]["errshape"] = ["", "421", "nested", "", "fields", "421", "nested"][k % 7]
            # cfg.enh (a dimension of Queue.tla, explored by TLC where the check's dims switch it on: C18): the failures
            # carry a basic reply code but NO enhanced status code.  Where the model run has EnhSet = {TRUE} (C01, whose
            # predicates do not look at the report's status) every seventh behaviour gets it as a harness-side override.
            if b["cfg"].get("enh", True) is False or k % 7 == 3:
                b["cfg"]["enh"] = False
                b["cfg"]["errshape"] = "noenh"
            # harness-only dimension: the recipients differ only by the letter case of the local part
            if k % 5 == 2 and len(set(b["cfg"]["list"])) >= 2:
                b["cfg"]["caseVar"] = True
            # harness-only dimension: SMTPUTF8 message whose recipients have non-ASCII local parts, in one of the
            # spelling classes of harness/queuecheck/forms_test.go (NFC / decomposed / compatibility characters /
            # differing only by the case of a non-ASCII letter / composed next to decomposed), and whose sender may
            # be a non-ASCII, decomposed or IDN address as well
            elif k % 5 == 4:
                b["cfg"]["utf8"] = True
                b["cfg"]["uniLocal"] = True
                b["cfg"]["uniForm"] = ["", "nfd", "compat", "upper", "mixed"][(k // 5) % 5]
                b["cfg"]["senderForm"] = ["", "uni", "nfd", "idn"][(k // 5) % 4]
    if opts.get("post") and not replay:
        opts["post"](ctx, behs)
    ctx.log("%d behaviours to replay" % len(behs))

    # ---- replay on the real queue --------------------------------------------
    binary = ctx.build_harness("queuecheck")
    # a stored artefact of variant (b) is replayed by variant (b) exactly as stored (its cfg holds the dimensions)
    is_series = bool(replay) and "series" in behs[0]      # a stored artefact of variant (c): the whole series is re-run
    is_bf = bool(replay) and "bodyFault" in behs[0]       # a stored artefact of variant (d)
    replay_real = bool(replay) and not is_series and not is_bf and any(b.get("_stored_id", 0) >= 1000000 for b in behs)
    events = [] if (replay_real or is_series or is_bf) else ctx.run_shards(binary, behs)
    by_id = {b["id"]: b for b in behs}

    # binding self-test: a corrupted and a truncated copy of an accepted trace
    selftest = {}
    if not replay:
        base = None
        for b in behs:
            evs = [e for e in events if e["t"] == b["id"]]
            if b["cfg"]["bounce"] and not b["cfg"]["nullSender"] and \
                    any(e["e"] == "TCommit" and e["res"] == "ok" for e in evs) and \
                    all(e.get("stage", "ok") == "ok" for e in evs if e["e"] == "Dsn") and \
                    sum(1 for e in evs if e["e"] == "TAddRcpt") >= 2:
                base = evs
                break
        if base:
            c1 = [dict(e, t=900001) for e in base]
            for e in c1:
                if e["e"] == "TCommit" and e["res"] == "ok":
                    e["res"] = "perm"      # corrupt one logged field
                    break
            c2 = [dict(e, t=900002) for e in base]
            k = next(i for i, e in enumerate(c2) if e["e"] == "TAddRcpt")
            del c2[k]                      # drop one event
            events = events + c1 + c2
            selftest = {900001: "corrupt-field", 900002: "drop-event"}

    # ---- variant (b): the real target.smtp / target.lmtp forwarder against a misbehaving next hop ----
    real_ids = set()
    if opts.get("real", False):
        pool = behs if (replay or thorough) else behs + opts.get("_allb", [])
        cand = [b for b in pool if not b["cfg"].get("chain") and not b["cfg"].get("rw")]
        nreal = len(cand) if replay else (1500 if thorough else 140)
        def score(b):   # plans that only a real client/server pair can get wrong come first
            sc = 0
            for h in b["hist"]:
                st = list((h.get("st") or {}).values())
                if st and "ok" in st and any(v != "ok" for v in st):
                    sc += 2
                if "unspec" in st or h.get("res") == "unspec":
                    sc += 1
            return sc + (1 if sum(1 for h in b["hist"] if h["a"] == "TStart") >= 2 else 0)
        cand.sort(key=lambda b: (-score(b), json.dumps(b["hist"], sort_keys=True)))
        top = cand[:nreal // 2]
        pick = top + vlib.sample(ctx.rng, cand[len(top):], nreal - len(top))
        rb = []
        if replay_real:
            pick = []
            for b in behs:
                nb = json.loads(json.dumps(b))
                nb["id"] = 1000001
                rb.append(nb)
                by_id[nb["id"]] = nb
                real_ids.add(nb["id"])
        elif replay:
            pick = []
        for k, b in enumerate(pick):
            nb = json.loads(json.dumps(b))
            nb["id"] = 1000000 + k + 1
            nb["cfg"]["utf8"] = bool(nb["cfg"].get("utf8", False)) or (k % 4 == 3)
            nb["cfg"]["errshape"] = "421" if k % 3 == 1 else ""
            nb["cfg"]["enh"] = k % 5 != 4       # every fifth next hop does not do ENHANCEDSTATUSCODES (basic reply codes only)
            nb["cfg"].pop("uniForm", None)
            nb["cfg"].pop("senderForm", None)
            nb["cfg"]["uniLocal"] = (k % 8 == 3)
            # a dropped connection at the body stage happens in the middle of the transfer (8 MiB message)
            nb["cfg"]["midData"] = (k % 2 == 0) and any(h.get("a") == "TBody" and h.get("res") == "unspec" or
                                                       "unspec" in (h.get("st") or {}).values() for h in nb["hist"])      # (only effective together with utf8)
            nb["cfg"]["idn"] = k % 2 == 1      # internationalized recipients (U-label domain) on every second run
            # the real remote-MX target (a PartialDelivery over SMTP) for per-recipient plans whose MAIL always succeeds
            if nb["cfg"]["partial"] and all(h.get("res", "ok") == "ok" for h in nb["hist"] if h["a"] == "TStart") \
                    and k % 3 != 2:
                nb["cfg"]["fwd"] = "remote"
                # every fourth of those: the domains publish a wildcard MTA-STS policy and the MX is an A-label host
                nb["cfg"]["sts"] = ["wild", "", "nil", ""][k % 4]
            rb.append(nb)
            by_id[nb["id"]] = nb
            real_ids.add(nb["id"])
        ev2 = ctx.run_shards(binary, rb, test="TestReplayReal", shards=8, name="real") if rb else []
        stuck = [e for e in ev2 if e["e"] == "Stuck"]
        if stuck:
            raise vlib.Infra("variant (b): the spool of trace %s did not drain within the harness time-out "
                             "(not decided: files %s)" % (stuck[0]["t"], stuck[0]["files"]))
        events = events + ev2
        ctx.log("variant (b): %d behaviours replayed" % len(rb))
        ctx.cov["real_forwarder_traces"] = len(rb)

    # ---- variant (c): series of messages through one queue over one downstream that keeps state -----------
    if opts.get("series", False):
        if replay:
            sers = [behs[0]["series"]] if "series" in behs[0] else []
        else:
            sers = build_series(ctx, behs + opts.get("_allb", []), thorough)
        if sers:
            ev3 = ctx.run_shards(binary, sers, test="TestReplaySeries", shards=8, name="series")
            stuck = [e for e in ev3 if e["e"] == "Stuck"]
            if stuck:
                raise vlib.Infra("variant (c): the spool entry of trace %s did not drain within the harness time-out "
                                 "(not decided: files %s)" % (stuck[0]["t"], stuck[0]["files"]))
            for sr in sers:
                for pos, m in enumerate(sr["members"]):
                    by_id[m["id"]] = {"id": m["id"], "series": sr, "pos": pos, "cfg": m["cfg"], "hist": m["hist"]}
            if replay:
                events = []        # a stored series is replayed as the series only
            events = events + ev3
            ctx.log("variant (c): %d series replayed" % len(sers))
            ctx.cov["series"] = {"series": len(sers), "messages": sum(len(x["members"]) for x in sers),
                                 "remote": sum(1 for x in sers if x["cfg"]["fwd"] == "remote"),
                                 "transactions_on_a_reused_connection":
                                     sum(1 for e in ev3 if e["e"] == "TStart" and e.get("txn", 1) > 1)}

    # ---- variant (d): the point between 354 and the final dot at which the body stage fails unclassified -----------
    if opts.get("bodyfault", False):
        if replay:
            bfs = [dict(json.loads(json.dumps(behs[0])), id=4000001)] if is_bf else []
        else:
            bfs = build_bodyfault(ctx, behs + opts.get("_allb", []), thorough)
        if bfs:
            ev4 = ctx.run_shards(binary, bfs, test="TestReplayBodyFault", shards=6, name="bodyfault")
            stuck = [e for e in ev4 if e["e"] == "Stuck"]
            if stuck:
                raise vlib.Infra("variant (d): trace %s did not come to rest within the harness time-out "
                                 "(not decided: %s)" % (stuck[0]["t"], stuck[0]["files"]))
            for b in bfs:
                by_id[b["id"]] = b
            if replay:
                events = []
            events = events + ev4
            ctx.log("variant (d): %d behaviours replayed" % len(bfs))
            ctx.cov["body_fault_traces"] = {"traces": len(bfs), "by_fault": {
                f: sum(1 for b in bfs if b["bodyFault"] == f) for f in BODY_FAULTS}}

    verdicts, by_t = ctx.validate("QueueTrace", None, events, keep=KEEP,
                                  cfg_text=TRACE_CFG % dict(devs=""))

    ctx.log("%d traces validated by TLC" % len(verdicts))
    ok = drift = 0
    preds = {}
    for t, recs in sorted(verdicts.items()):
        if t in selftest:
            accepted = any(not r["drift"] for r in recs) and not recs[0]["viol"]
            if accepted:
                raise vlib.Infra("binding self-test failed: %s trace was accepted" % selftest[t])
            continue
        viol = sorted(set(v for r in recs for v in r["viol"] if mine(v)))
        conform = any(not r["drift"] for r in recs)
        if viol and opts.get("known"):
            k = opts["known"](viol, by_id[t], by_t[t])
            if k:
                ctx.known(*k)
                viol = []
                conform = True
        if viol:
            for v in viol:
                preds[v] = preds.get(v, 0) + 1
            what = "queue behaviour violates " + ",".join(viol)
            ctx.violation(what, {"property": pid, "behaviour": by_id[t], "trace": by_t[t],
                                 "violated": viol, "how": "bin/check %s --replay <this file>" % pid})
        elif conform:
            ok += 1
        else:
            drift += 1
            print("DRIFT property=" + pid + " trace=%d first-unexplained-seq=%s events=%s" % (
                t, recs[0]["driftAt"], ",".join("%s:%s" % (e["seq"], e["e"] + ("=" + e["res"] if "res" in e else ""))
                                                for e in by_t.get(t, [])[:40])))
    if selftest:
        ctx.cov["binding_selftest"] = "corrupted-field and dropped-event traces rejected"
    ctx.cov["traces_validated_against_impl"] = ok
    ctx.cov["drift_traces"] = drift
    ctx.cov["evaluations"] = len(behs)
    ctx.cov["distinct_nontrivial"] = sum(1 for b in behs if nontrivial(b))
    ctx.cov["rule"] = ("fault plans = complete behaviours of Queue.tla printed by TLC (exhaustive for "
                       "<=2 rcpts/max_tries<=2 in thorough, -simulate otherwise), de-duplicated; "
                       "non-trivial = at least one scripted failure")
    ctx.cov["violated_predicates"] = preds
    for b in behs[:3]:
        ctx.cov["samples"].append({"behaviour": b, "trace": by_t.get(b["id"], [])[:40]})
    ctx.cov["exhaustive"] = False
    ctx.assumptions += [
        "scripted target/bounce target stand in for the downstream modules (variant (a))",
        "retry delays run on the fake clock of a testing/synctest bubble",
        "TLC 1.8.0, CommunityModules Json reader",
    ]

META = {
    "engine": "queuecheck",
    "level": "model_checking",
    "technique": "TLA+ spec Queue.tla model-checked by TLC; TLC-generated fault plans replayed on the real "
                 "queue; recorded traces validated against QueueTrace.tla (property predicates in QueueObs.tla)",
    "text": "TLC visits every fault plan (stage x recipient x {ok,temp,perm,unspec}, up to max_tries attempts, "
            "atomic and per-recipient targets, bounce on/off, null sender) of Queue.tla inside the bound and checks "
            "the C01 predicates in every state; the same predicates are evaluated by TLC over traces recorded from "
            "the real queue driven with TLC-generated plans (sampled in quick, exhaustive for <=2 recipients / "
            "max_tries<=2 plus 6000 simulated plans in thorough); plans are also replayed over the real SMTP/LMTP/remote-MX "
            "clients against a scripted next hop, and as series of messages through one queue whose downstream (connection "
            "pool of the remote-MX target) keeps state between them.",
    "note": "Downstream and bounce targets are scripted (variant (a) of DESIGN 5/C01); time is the fake clock of a "
            "synctest bubble; trusted: TLC, the harness, Go toolchain.",
    "design_ref": "DESIGN.md section 5 C01",
}
