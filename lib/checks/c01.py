"""C01 - one terminal outcome per queued recipient.

(T) TLC checks Queue.tla exhaustively (every fault plan inside the bound).
(B) TLC-generated behaviours (fault plans) are replayed on the real queue over a
    scripted target + scripted bounce target; the recorded traces are validated
    against QueueTrace.tla; the property predicates (QueueObs.tla) are evaluated
    after every recorded event.
"""
import json
import os

import vlib

KEEP = {"Cfg", "QAccept", "TStart", "TAddRcpt", "TBody", "TBodyNA", "TCommit", "TAbort",
        "Dsn", "Dsn2", "Quiesced"}

REPORT_PREDS = {"ReportNotWellFormed", "ReportReturnPathNotNull", "ReportNotToSender",
                "ReportLacksOriginalHeader", "ReportUsesRewrittenAddress", "ReportStatusMismatch",
                "ReportOmitsFailedRcpt", "ReportListsRcptTwice", "ReportAlthoughSuppressed",
                "ReportAboutReport"}

MC_CFG = """SPECIFICATION Spec
CONSTANTS
  Rcpts = {%(rcpts)s}
  MaxTriesSet = {%(mts)s}
  MaxList = %(maxlist)d
  Devs = {%(devs)s}
  RwSets = %(rwsets)s
  Utf8Set = %(utf8set)s
  BounceStages = %(stages)s
  Gen = %(gen)s
%(tail)s
"""

TRACE_CFG = """SPECIFICATION TSpec
CONSTANTS
  Rcpts = {"r1", "r2", "r3"}
  MaxTriesSet = {1, 2, 3}
  MaxList = 3
  Devs = {%(devs)s}
  RwSets = {{}, {"r1"}, {"r1", "r2"}}
  Utf8Set = {TRUE, FALSE}
  BounceStages = {"ok", "start", "rcpt", "body", "commit"}
  Gen = FALSE
CHECK_DEADLOCK FALSE
POSTCONDITION Post
"""


DIMS_C01 = dict(rwsets="{{}}", utf8set="{FALSE}", stages='{"ok", "start"}')


def cfg(rcpts, mts, maxlist, devs=(), gen=False, tail="", dims=None):
    return MC_CFG % dict(dims or DIMS_C01, rcpts=", ".join('"%s"' % r for r in rcpts),
                         mts=", ".join(str(m) for m in mts), maxlist=maxlist,
                         devs=", ".join('"%s"' % d for d in devs),
                         gen="TRUE" if gen else "FALSE", tail=tail)


MC_TAIL = "VIEW View\nINVARIANTS NoViolation TypeOK Bounded\nPROPERTY Terminates\n"
GEN_TAIL = "CHECK_DEADLOCK FALSE\n"


def behaviours_from(r, start_id):
    out = []
    for tag, val in r["printed"]:
        if tag == "BEH":
            out.append({"id": start_id + len(out), "cfg": val["cfg"], "hist": val["hist"]})
    return out


def dedup(behs):
    seen, out = set(), []
    for b in behs:
        k = json.dumps([b["cfg"], b["hist"]], sort_keys=True)
        if k not in seen:
            seen.add(k)
            out.append(b)
    for i, b in enumerate(out):
        b["id"] = i + 1
    return out


def nontrivial(b):
    return any(s.get("res", "ok") != "ok" or any(v != "ok" for v in (s.get("st") or {}).values())
               for s in b["hist"])


HOOK_CFG = """SPECIFICATION TSpec
CONSTANTS
  Rcpts = {"r1", "r2", "r3", "r4", "r5"}
  MaxTriesSet = {1, 2, 3, 4, 5, 6, 7, 8, 9, 10}
  MaxList = 5
  Devs = {}
  RwSets = {{}}
  Utf8Set = {FALSE}
  BounceStages = {"ok", "start", "rcpt", "body", "commit"}
  Gen = FALSE
CHECK_DEADLOCK FALSE
POSTCONDITION Post
"""


def repo_test_traces(ctx, pid, mine):
    """The other direction of the binding: run the REPOSITORY'S OWN tests of internal/target/queue, unchanged,
    with the trace hooks compiled in (build tag verif; verif_trace.go / verif_trace_test.go) and validate every
    message's recorded life against Queue.tla (QueueHookTrace.tla): the tests' own assertions are whatever they
    are, the specification's predicates are evaluated at every step of what the tests made the queue do."""
    import subprocess
    d = ctx.sub("repotests")
    raw = os.path.join(d, "raw.ndjson")
    tmp = os.path.join(d, "tmp")
    os.makedirs(tmp, exist_ok=True)
    env = vlib.goenv()
    env.update(VERIF_TRACE_OUT=raw, TMPDIR=tmp)
    p = subprocess.run(["timeout", "600", "go", "test", "-tags", "verif", "-count=1", "./internal/target/queue/"],
                       cwd=ctx.repo, env=env, stdout=subprocess.PIPE, stderr=subprocess.STDOUT, text=True)
    if not os.path.exists(raw) or os.path.getsize(raw) == 0:
        raise vlib.Infra("the repository's queue tests recorded nothing with the hooks on (rc=%d): %s" % (
            p.returncode, p.stdout[-1500:]))
    ctx.cov["repo_tests_rc"] = p.returncode     # a failing test is not our verdict; its traces still count
    by_key = {}
    for line in open(raw):
        e = json.loads(line)
        by_key.setdefault(e["key"], []).append(e)
    events, info, skipped = [], {}, 0
    for k, key in enumerate(sorted(by_key)):
        evs = sorted(by_key[key], key=lambda e: e["seq"])
        acc = [e for e in evs if e["e"] == "QAccept"]
        if len(acc) != 1 or evs[0]["e"] != "QAccept":
            skipped += 1          # spool entries the test wrote by hand / re-used IDs: no defined start
            continue
        names = {}
        def rid(a):
            if a not in names:
                names[a] = "r%d" % (len(names) + 1)
            return names[a]
        t = 2000000 + k
        a0 = acc[0]
        out = [{"t": t, "seq": 0, "e": "Cfg", "partial": any(e["e"] == "TBodyNA" for e in evs),
                "bounce": a0["bounce"], "nullSender": a0["nullSender"], "mt": a0["mt"],
                "list": [rid(r) for r in a0["rcpts"]], "test": key.split("/")[-3] if key.count("/") >= 3 else key}]
        for e in evs:
            n = {"t": t, "seq": e["seq"], "e": e["e"]}
            if e["e"] == "QAccept":
                n["rcpts"] = [rid(r) for r in e["rcpts"]]
            elif e["e"] == "TAddRcpt":
                n["r"], n["res"] = rid(e["r"]), e["res"]
            elif e["e"] == "TBodyNA":
                st = {rid(r): v for r, v in e["st"].items()}
                st.update({rid(r): v for r, v in (e.get("extra") or {}).items()})
                n["st"] = st
            elif e["e"] == "Dsn":
                n["stage"], n["rcpts"] = e["stage"] or "abort", [rid(r) for r in e["rcpts"]]
            elif e["e"] == "Quiesced":
                n["spoolEmpty"] = e["spoolEmpty"]
            elif "res" in e:
                n["res"] = e["res"]
            out.append(n)
        if len(names) > 5:
            skipped += 1
            continue
        if out[-1]["e"] != "Quiesced":
            out.append({"t": t, "seq": out[-1]["seq"] + 1, "e": "End"})
        events += out
        info[t] = {"spool_entry": key, "events": out}
    if not events:
        raise vlib.Infra("no usable trace from the repository's queue tests")
    # binding self-test: a trace with one corrupted field must not be accepted
    st_t = None
    for t, i in info.items():
        if any(e["e"] == "TCommit" and e["res"] == "ok" for e in i["events"]) and i["events"][-1]["e"] == "Quiesced":
            bad = [dict(e, t=2900001) for e in i["events"]]
            next(e for e in bad if e["e"] == "TCommit" and e["res"] == "ok")["res"] = "temp"
            events += bad
            st_t = 2900001
            break
    verdicts, by_t = ctx.validate("QueueHookTrace", None, events, name="repotests-trace", cfg_text=HOOK_CFG)
    ok = drift = 0
    for t, recs in sorted(verdicts.items()):
        if t == st_t:
            if any(not r["drift"] for r in recs) and not recs[0]["viol"]:
                raise vlib.Infra("binding self-test failed: a corrupted repo-test trace was accepted")
            continue
        viol = sorted(set(v for r in recs for v in r["viol"] if mine(v)))
        if viol:
            ctx.violation("the repository's own queue test %s makes the queue violate %s" % (
                info[t]["events"][0]["test"], ",".join(viol)),
                {"property": pid, "repotest": info[t], "violated": viol,
                 "how": "bin/check %s --replay <this file> (re-runs the package's tests with the hooks on)" % pid})
        elif any(not r["drift"] for r in recs):
            ok += 1
        else:
            drift += 1
            print("DRIFT property=%s repo-test trace %s (%s) first-unexplained-seq=%s" % (
                pid, t, info[t]["events"][0]["test"], recs[0]["driftAt"]))
    ctx.cov["repo_test_traces"] = {"messages": len(by_key), "validated": ok, "drift": drift, "skipped_no_start": skipped,
                                   "events": sum(len(v) for v in by_key.values())}
    return ok


def run(ctx, replay):
    if replay and "repotest" in json.load(open(replay)):
        repo_test_traces(ctx, "C01", lambda v: v not in REPORT_PREDS)
        return
    run_queue(ctx, replay, "C01", lambda v: v not in REPORT_PREDS, DIMS_C01, {"real": True})
    if not replay:
        n = repo_test_traces(ctx, "C01", lambda v: v not in REPORT_PREDS)
        ctx.cov["traces_validated_against_impl"] += n
    if ctx.tier == "thorough" and not replay:
        # the end-to-end composition (endpoint -> pipeline -> queue -> forwarder -> next hop), MsgPath.tla
        import subprocess
        import sys
        p = subprocess.run([sys.executable, os.path.join(vlib.VERIF, "bin", "check"), "PATH", "--tier", "thorough"],
                           stdout=subprocess.PIPE, stderr=subprocess.STDOUT, text=True, env=dict(os.environ))
        lines = p.stdout.splitlines()
        if p.returncode == 2:
            raise vlib.Infra("end-to-end composition run failed: " + " ".join(l for l in lines if "INFRA" in l)[:300])
        n = 0
        for l in lines:
            if l.startswith("VIOLATION property=PATH"):
                n += 1
                ctx.violations.append(("end-to-end path: " + l.split("#", 1)[-1].strip(),
                                       l.split("replay=", 1)[1].split()[0]))
        ctx.cov["end_to_end_path_run"] = {"exit": p.returncode, "violations": n,
                                          "summary": [l for l in lines if "behaviours" in l or "done:" in l]}


def run_queue(ctx, replay, pid, mine, dims, opts):
    """Shared by C01 and C18: `mine` selects the predicate names that decide this property,
    `dims` the report dimensions of the model, opts: {"known": fn(viol, behaviour, trace) -> (fid, what) | None,
    "post": fn(behaviours) (e.g. switch some to chain mode)}."""
    thorough = ctx.tier == "thorough"
    # ---- (T) exhaustive model checking of the design ----------------------
    if not replay:
        if thorough:
            r = ctx.tlc_expect_ok("Queue", None, name="mc", workers=16, timeout=2400,
                                  cfg_text=cfg(["r1", "r2", "r3"], [1, 2, 3], opts.get("maxlist_thorough", 3), tail=MC_TAIL, dims=dims))
        else:
            r = ctx.tlc_expect_ok("Queue", None, name="mc", workers=8, timeout=600,
                                  cfg_text=cfg(["r1", "r2"], [1, 2, 3], 2, tail=MC_TAIL, dims=dims))
        ctx.cov["states"] = r["distinct"]
        ctx.cov["transitions"] = r["generated"]
        ctx.cov["model_depth"] = r["depth"]
        ctx.log("TLC exhaustive: %d distinct states, %d transitions, depth %d, %.1fs" % (
            r["distinct"], r["generated"], r["depth"], r["wall"]))
        # the as-is deviation must be found by the same invariants (non-vacuity)
        ra = ctx.tlc("Queue", None, name="asis", workers=4, timeout=300,
                     cfg_text=cfg(["r1", "r2"], [2], 2, devs=["DupRcpt"],
                                  tail="VIEW View\nINVARIANTS NoViolation\n"))
        if ra["invariant"] != "NoViolation":
            raise vlib.Infra("as-is model (DupRcpt) no longer violates NoViolation: the invariant is vacuous")
        ctx.cov["asis_counterexample_found"] = True

    # ---- (B) behaviours out of TLC ------------------------------------------
    if replay:
        obj = json.load(open(replay))
        behs = [obj["behaviour"]]
        behs[0]["_stored_id"] = behs[0].get("id", 0)
        behs[0]["id"] = 1
    else:
        behs = []
        g = ctx.tlc("Queue", None, name="gen", workers=8, timeout=1800,
                    cfg_text=cfg(["r1", "r2"], [1, 2] if thorough else [2], 2, gen=True, tail=GEN_TAIL,
                                 dims=opts.get("gen_dims", dims)))
        if not g["ok"]:
            raise vlib.Infra("behaviour generation failed: %s %s" % (g["invariant"], g["error"]))
        allb = behaviours_from(g, 1)
        ctx.cov["exhaustive_plans"] = len(allb)
        cap = opts.get("thorough_cap", 60000)
        if thorough and len(allb) <= cap:
            behs += allb
            ctx.cov["exhaustive_plans_replayed"] = True
            n_sim = 6000
        else:
            # stratified sample: one plan per shape (sequence of call results, recipient names dropped)
            groups = {}
            for b in allb:
                sig = (json.dumps(b["cfg"], sort_keys=True).replace("r2", "r1"),
                       tuple((h["a"], h.get("res", ""), tuple(sorted((h.get("st") or {}).values())), h.get("stage", ""))
                             for h in b["hist"]))
                groups.setdefault(sig, []).append(b)
            sigs = sorted(groups, key=repr)
            ctx.rng.shuffle(sigs)
            take = cap if thorough else opts.get("quick_plans", 450)
            for sg in sigs[:take]:
                behs.append(ctx.rng.choice(groups[sg]))
            if thorough:   # fill up to the cap with further members of the shapes
                rest = [b for sg in sigs for b in groups[sg]]
                ctx.rng.shuffle(rest)
                behs += rest[:max(0, cap - len(behs))]
            ctx.cov["plan_shapes_total"] = len(sigs)
            n_sim = 6000 if thorough else 150
        g2 = ctx.tlc("Queue", None, name="sim", workers=1, timeout=900, simulate=n_sim, depth=80,
                     cfg_text=cfg(["r1", "r2", "r3"], [1, 2, 3], 3, gen=True, tail=GEN_TAIL, dims=dims))
        if not g2["ok"]:
            raise vlib.Infra("behaviour simulation failed: %s %s" % (g2["invariant"], g2["error"]))
        behs += behaviours_from(g2, len(behs) + 1)
        behs = dedup(behs)
        opts["_allb"] = allb
        if not behs:
            raise vlib.Infra("TLC produced no behaviours")
    if not replay:
        for k, b in enumerate(behs):       # harness-only dimension: every fourth message waits for a restart
            if k % 4 == 3:
                b["cfg"]["restartFirst"] = True
            # harness-only dimension: how the scripted failures are built (421 instead of 451; nested annotated errors)
            b["cfg"]["errshape"] = ["", "421", "nested"][k % 3]
            # harness-only dimension: the recipients differ only by the letter case of the local part
            if k % 5 == 2 and len(set(b["cfg"]["list"])) >= 2:
                b["cfg"]["caseVar"] = True
            # harness-only dimension: SMTPUTF8 message whose recipients have non-ASCII local parts
            elif k % 5 == 4:
                b["cfg"]["utf8"] = True
                b["cfg"]["uniLocal"] = True
    if opts.get("post") and not replay:
        opts["post"](ctx, behs)
    ctx.log("%d behaviours to replay" % len(behs))

    # ---- replay on the real queue --------------------------------------------
    binary = ctx.build_harness("queuecheck")
    # a stored artefact of variant (b) is replayed by variant (b) exactly as stored (its cfg holds the dimensions)
    replay_real = bool(replay) and any(b.get("_stored_id", 0) >= 1000000 for b in behs)
    events = [] if replay_real else ctx.run_shards(binary, behs)
    by_id = {b["id"]: b for b in behs}

    # binding self-test: a corrupted and a truncated copy of an accepted trace
    selftest = {}
    if not replay:
        base = None
        for b in behs:
            evs = [e for e in events if e["t"] == b["id"]]
            if b["cfg"]["bounce"] and not b["cfg"]["nullSender"] and \
                    any(e["e"] == "TCommit" and e["res"] == "ok" for e in evs) and \
                    all(e.get("stage", "ok") == "ok" for e in evs if e["e"] == "Dsn") and \
                    sum(1 for e in evs if e["e"] == "TAddRcpt") >= 2:
                base = evs
                break
        if base:
            c1 = [dict(e, t=900001) for e in base]
            for e in c1:
                if e["e"] == "TCommit" and e["res"] == "ok":
                    e["res"] = "perm"      # corrupt one logged field
                    break
            c2 = [dict(e, t=900002) for e in base]
            k = next(i for i, e in enumerate(c2) if e["e"] == "TAddRcpt")
            del c2[k]                      # drop one event
            events = events + c1 + c2
            selftest = {900001: "corrupt-field", 900002: "drop-event"}

    # ---- variant (b): the real target.smtp / target.lmtp forwarder against a misbehaving next hop ----
    real_ids = set()
    if opts.get("real", False):
        pool = behs if (replay or thorough) else behs + opts.get("_allb", [])
        cand = [b for b in pool if not b["cfg"].get("chain") and not b["cfg"].get("rw")]
        nreal = len(cand) if replay else (1500 if thorough else 140)
        def score(b):   # plans that only a real client/server pair can get wrong come first
            sc = 0
            for h in b["hist"]:
                st = list((h.get("st") or {}).values())
                if st and "ok" in st and any(v != "ok" for v in st):
                    sc += 2
                if "unspec" in st or h.get("res") == "unspec":
                    sc += 1
            return sc + (1 if sum(1 for h in b["hist"] if h["a"] == "TStart") >= 2 else 0)
        cand.sort(key=lambda b: (-score(b), json.dumps(b["hist"], sort_keys=True)))
        top = cand[:nreal // 2]
        pick = top + vlib.sample(ctx.rng, cand[len(top):], nreal - len(top))
        rb = []
        if replay_real:
            pick = []
            for b in behs:
                nb = json.loads(json.dumps(b))
                nb["id"] = 1000001
                rb.append(nb)
                by_id[nb["id"]] = nb
                real_ids.add(nb["id"])
        elif replay:
            pick = []
        for k, b in enumerate(pick):
            nb = json.loads(json.dumps(b))
            nb["id"] = 1000000 + k + 1
            nb["cfg"]["utf8"] = bool(nb["cfg"].get("utf8", False)) or (k % 4 == 3)
            nb["cfg"]["errshape"] = "421" if k % 3 == 1 else ""
            nb["cfg"]["uniLocal"] = (k % 8 == 3)
            # a dropped connection at the body stage happens in the middle of the transfer (8 MiB message)
            nb["cfg"]["midData"] = (k % 2 == 0) and any(h.get("a") == "TBody" and h.get("res") == "unspec" or
                                                       "unspec" in (h.get("st") or {}).values() for h in nb["hist"])      # (only effective together with utf8)
            nb["cfg"]["idn"] = k % 2 == 1      # internationalized recipients (U-label domain) on every second run
            # the real remote-MX target (a PartialDelivery over SMTP) for per-recipient plans whose MAIL always succeeds
            if nb["cfg"]["partial"] and all(h.get("res", "ok") == "ok" for h in nb["hist"] if h["a"] == "TStart") \
                    and k % 3 != 2:
                nb["cfg"]["fwd"] = "remote"
                # every fourth of those: the domains publish a wildcard MTA-STS policy and the MX is an A-label host
                nb["cfg"]["sts"] = ["wild", "", "nil", ""][k % 4]
            rb.append(nb)
            by_id[nb["id"]] = nb
            real_ids.add(nb["id"])
        ev2 = ctx.run_shards(binary, rb, test="TestReplayReal", shards=8, name="real") if rb else []
        stuck = [e for e in ev2 if e["e"] == "Stuck"]
        if stuck:
            raise vlib.Infra("variant (b): the spool of trace %s did not drain within the harness time-out "
                             "(not decided: files %s)" % (stuck[0]["t"], stuck[0]["files"]))
        events = events + ev2
        ctx.cov["real_forwarder_traces"] = len(rb)

    verdicts, by_t = ctx.validate("QueueTrace", None, events, keep=KEEP,
                                  cfg_text=TRACE_CFG % dict(devs=""))

    ok = drift = 0
    preds = {}
    for t, recs in sorted(verdicts.items()):
        if t in selftest:
            accepted = any(not r["drift"] for r in recs) and not recs[0]["viol"]
            if accepted:
                raise vlib.Infra("binding self-test failed: %s trace was accepted" % selftest[t])
            continue
        viol = sorted(set(v for r in recs for v in r["viol"] if mine(v)))
        conform = any(not r["drift"] for r in recs)
        if viol and opts.get("known"):
            k = opts["known"](viol, by_id[t], by_t[t])
            if k:
                ctx.known(*k)
                viol = []
                conform = True
        if viol:
            for v in viol:
                preds[v] = preds.get(v, 0) + 1
            what = "queue behaviour violates " + ",".join(viol)
            ctx.violation(what, {"property": pid, "behaviour": by_id[t], "trace": by_t[t],
                                 "violated": viol, "how": "bin/check %s --replay <this file>" % pid})
        elif conform:
            ok += 1
        else:
            drift += 1
            print("DRIFT property=" + pid + " trace=%d first-unexplained-seq=%s" % (t, recs[0]["driftAt"]))
    if selftest:
        ctx.cov["binding_selftest"] = "corrupted-field and dropped-event traces rejected"
    ctx.cov["traces_validated_against_impl"] = ok
    ctx.cov["drift_traces"] = drift
    ctx.cov["evaluations"] = len(behs)
    ctx.cov["distinct_nontrivial"] = sum(1 for b in behs if nontrivial(b))
    ctx.cov["rule"] = ("fault plans = complete behaviours of Queue.tla printed by TLC (exhaustive for "
                       "<=2 rcpts/max_tries<=2 in thorough, -simulate otherwise), de-duplicated; "
                       "non-trivial = at least one scripted failure")
    ctx.cov["violated_predicates"] = preds
    for b in behs[:3]:
        ctx.cov["samples"].append({"behaviour": b, "trace": by_t.get(b["id"], [])[:40]})
    ctx.cov["exhaustive"] = False
    ctx.assumptions += [
        "scripted target/bounce target stand in for the downstream modules (variant (a))",
        "retry delays run on the fake clock of a testing/synctest bubble",
        "TLC 1.8.0, CommunityModules Json reader",
    ]

META = {
    "engine": "queuecheck",
    "level": "model_checking",
    "technique": "TLA+ spec Queue.tla model-checked by TLC; TLC-generated fault plans replayed on the real "
                 "queue; recorded traces validated against QueueTrace.tla (property predicates in QueueObs.tla)",
    "text": "TLC visits every fault plan (stage x recipient x {ok,temp,perm,unspec}, up to max_tries attempts, "
            "atomic and per-recipient targets, bounce on/off, null sender) of Queue.tla inside the bound and checks "
            "the C01 predicates in every state; the same predicates are evaluated by TLC over traces recorded from "
            "the real queue driven with TLC-generated plans (sampled in quick, exhaustive for <=2 recipients / "
            "max_tries<=2 plus 6000 simulated plans in thorough).",
    "note": "Downstream and bounce targets are scripted (variant (a) of DESIGN 5/C01); time is the fake clock of a "
            "synctest bubble; trusted: TLC, the harness, Go toolchain.",
    "design_ref": "DESIGN.md section 5 C01",
}
