"""C04 - routing follows the documented precedence for every configuration and envelope.

Pattern B (decision procedure) with a configuration generator.

(T) TLC builds pipeline configurations from the directive grammar of spec/Routing.tla
    (exhaustively inside a small bound, seeded -simulate walks for the full alphabet) and
    checks the model theorems on every one of them: the selected block is unique, a
    loadable configuration has a decision for every envelope, the operational rule
    satisfies the declarative property.  Each finished configuration is printed as a row
    together with the envelope sweep (every sender class x every recipient class, two
    spellings each) and the expected routing.
(B) harness/routingcheck loads every row with the real msgpipeline.New (text parsed by the
    real cfgparser; recording targets, table.static, modify.replace_rcpt) and pushes every
    envelope through Start/AddRcpt/Body/Commit.  spec/RoutingTrace.tla evaluates, with TLC,
    the clauses of C04 on what the code did (-> VIOLATION), equality with the operational
    rule (-> DRIFT) and equality with the rule under the open known deviations
    (-> KNOWN-FINDING when the deviation is needed to explain a violating row).
"""
import json
import os
import threading
from concurrent.futures import ThreadPoolExecutor

import vlib

PID = "C04"
ALL_VARS = ["lower", "upper", "nfc", "nfd", "alabel", "ALABEL"]


def tla_set(xs, quote=True):
    return "{" + ", ".join(('"%s"' % x) if quote else str(x) for x in xs) + "}"


def gen_cfg(locals_, doms, envlocals=(), rulevars=("lower",), envvars=ALL_VARS, targets=("T1",),
            codes=(550,), maxsrc=1, maxdst=1, maxdepth=0, maxmod=0, maxblocks=4, maxrules=1,
            maxkeys=1, maxentries=1, maxvals=1, maxdefects=0, defectodds=0, salts=(0,),
            defaultlast=True, expected=False, baremaps=True, maxscopemods=1, tablekinds=("static",),
            sendercap=99, nullkeys=False, duprules=False, flatonly=False, tail=""):
    return """SPECIFICATION GSpec
CONSTANTS
  Locals = %s
  Doms = %s
  EnvLocals = %s
  RuleVars = %s
  EnvVars = %s
  Targets = %s
  Codes = %s
  MaxSrc = %d
  MaxDst = %d
  MaxDepth = %d
  MaxMod = %d
  MaxBlocks = %d
  MaxRules = %d
  MaxKeys = %d
  MaxEntries = %d
  MaxVals = %d
  MaxDefects = %d
  DefectOdds = %d
  Salts = %s
  DefaultLast = %s
  BareMaps = %s
  NullKeys = %s
  DupRules = %s
  FlatOnly = %s
  MaxScopeMods = %d
  TableKinds = %s
  SenderCap = %d
  PrintExpected = %s
CHECK_DEADLOCK FALSE
%s""" % (tla_set(locals_), tla_set(doms), tla_set(envlocals), tla_set(rulevars), tla_set(envvars),
         tla_set(targets), tla_set(codes, False), maxsrc, maxdst, maxdepth, maxmod, maxblocks,
         maxrules, maxkeys, maxentries, maxvals, maxdefects, defectodds, tla_set(salts, False),
         "TRUE" if defaultlast else "FALSE", "TRUE" if baremaps else "FALSE",
         "TRUE" if nullkeys else "FALSE", "TRUE" if duprules else "FALSE", "TRUE" if flatonly else "FALSE",
         maxscopemods,
         tla_set(tablekinds), sendercap, "TRUE" if expected else "FALSE", tail)


# bounds ---------------------------------------------------------------------
# exhaustive, quick: one source-family block + default, one destination-family block + default
NO_UPPER_ACE = ["lower", "upper", "nfc", "nfd", "alabel"]
ALL_TABLES = ["static", "file", "regexp", "regexp_repl", "scripted"]
# catch-all tables (no key list, answer for every key incl. the empty key of the null sender)
CATCH_ALL = ["identity", "regexp_all"]
# concrete alphabets of harness/routingcheck/alphabet.go (harness-only data dimension: the model speaks about
# l1, d1, ... and is independent of the letters behind them); rows are spread over them
N_ALPHABETS = 4
# exhaustive: precedence - one source-family + one destination-family block per level; the domain (d3) has an
# ordinary ASCII label in front of the internationalised one; tables are static or regexp match checks
MC_QUICK = dict(locals_=["l1"], doms=["d3"], envlocals=["l2"], maxsrc=1, maxdst=1, maxblocks=4,
                tablekinds=["static", "regexp"], envvars=NO_UPPER_ACE)
# exhaustive: every table module (static, file, regexp with/without replacement, a scripted table whose
# lookup of one listed key fails) with 1-2 keys, as the one source_in or the one destination_in block
# a source_in table may list the null reverse-path; catch-all tables (identity, regexp ".*")
MC_TABLES = dict(locals_=["l1", "l2"], doms=["d1"], maxsrc=1, maxdst=1, maxblocks=1, maxkeys=2,
                 tablekinds=ALL_TABLES + CATCH_ALL, nullkeys=True, envvars=NO_UPPER_ACE)
# exhaustive: incomplete configurations - two destination-family blocks (destination + destination_in),
# one defect: default block missing / block without decision / handling directive next to blocks /
# reject + deliver_to
MC_DEFECT = dict(locals_=["l1"], doms=["d1"], envlocals=["l2"], maxsrc=0, maxdst=2, maxblocks=3,
                 maxdefects=1, sendercap=2, envvars=NO_UPPER_ACE)
# exhaustive: one rewrite map (full-address or local-part key, 1 value with or without domain) in every
# scope, two domains routed by one destination-family block + default
MC_REWRITE = dict(locals_=["l1"], doms=["d1", "d2"], maxsrc=0, maxdst=1, maxmod=1, maxblocks=2,
                  sendercap=2, envvars=NO_UPPER_ACE)
# exhaustive: two nested rewrite scopes, each 1-to-1 or 1-to-2 (pipeline-wide, source block, destination block)
# over three addresses, so that an address lost or duplicated between two scopes is visible in the target sets
MC_NESTED_RW = dict(locals_=["l1", "l2", "l3"], doms=["d1"], codes=[], maxsrc=0, maxdst=0, maxmod=2, maxvals=2,
                    maxblocks=0, baremaps=False, sendercap=2, envvars=NO_UPPER_ACE)
# exhaustive: up to two `modify` directives in the SAME scope (pipeline-wide / source block / destination block),
# 1-to-1 maps over two addresses
MC_SCOPE_MODS = dict(locals_=["l1", "l2"], doms=["d1"], codes=[], maxsrc=0, maxdst=0, maxmod=2, maxvals=1,
                     maxblocks=0, baremaps=False, maxscopemods=2, sendercap=2, envvars=NO_UPPER_ACE)
# exhaustive: rule LISTS - two source-family blocks + default, directives with 1-2 rules (full address / domain),
# a rule may repeat a rule of the same or of an earlier directive in any position; source_in tables (also with
# the null reverse-path as key) compete with them; the blocks decide directly (flat bodies)
MC_RULES_S = dict(locals_=["l1"], doms=["d1"], envlocals=["l2"], maxsrc=2, maxdst=0, maxrules=2, maxblocks=2,
                  duprules=True, flatonly=True, nullkeys=True, envvars=NO_UPPER_ACE)
# ... and the same for two destination-family blocks + default of one (implied) source block
MC_RULES_D = dict(locals_=["l1"], doms=["d1"], envlocals=["l2"], maxsrc=0, maxdst=2, maxrules=2, maxblocks=2,
                  duprules=True, flatonly=True, sendercap=2, envvars=NO_UPPER_ACE)
MC_QUICK_ALL = [MC_QUICK, MC_DEFECT, MC_REWRITE, MC_NESTED_RW, MC_TABLES, MC_SCOPE_MODS, MC_RULES_S, MC_RULES_D]
# exhaustive, thorough: additionally two local parts and two spellings in the rules; two domains; the
# quick bound with one defect; incomplete configurations inside a reroute
MC_THOROUGH = MC_QUICK_ALL + [
    dict(locals_=["l1", "l2"], doms=["d1"], rulevars=["lower", "nfd"], maxsrc=1, maxdst=1, maxblocks=4,
         envvars=NO_UPPER_ACE),
    dict(locals_=["l1"], doms=["d1", "d2"], envlocals=["l2"], maxsrc=1, maxdst=1, maxblocks=4,
         envvars=NO_UPPER_ACE),
    dict(MC_QUICK, maxdefects=1),
    dict(locals_=["l1"], doms=["d1"], maxsrc=0, maxdst=2, maxblocks=3, maxdepth=1, maxdefects=1,
         sendercap=2, envvars=NO_UPPER_ACE),
    # rule lists written in two spellings
    dict(MC_RULES_S, rulevars=["lower", "upper"]),
    dict(MC_RULES_D, rulevars=["lower", "upper"]),
    # the default block declared before / between the rule blocks
    dict(MC_RULES_S, defaultlast=False),
    dict(MC_RULES_D, defaultlast=False),
]
# as-is (deviations must be visible to the model)
MC_ASIS = dict(locals_=["l1"], doms=["d1"], envlocals=["l2"], rulevars=["lower", "ALABEL"],
               maxsrc=0, maxdst=1, maxblocks=2, maxdefects=1, tablekinds=["static", "regexp"])
# the full grammar and alphabet, walked by -simulate
SIM = dict(locals_=["l1", "l2"], doms=["d1", "d2"], rulevars=ALL_VARS, targets=["T1", "T2", "T3"],
           codes=[0, 550, 451], maxsrc=2, maxdst=2, maxdepth=2, maxmod=3, maxblocks=8, maxrules=2,
           maxkeys=2, maxentries=2, maxvals=2, maxdefects=1, defectodds=3, salts=[0, 1, 2, 3, 4, 5],
           defaultlast=False, expected=True, maxscopemods=2, tablekinds=ALL_TABLES + CATCH_ALL,
           nullkeys=True, duprules=True)
SIM_DOMS = [["d1", "d2"], ["d2", "d3"], ["d1", "d3"]]

TRACE_CFG = """SPECIFICATION TSpec
CONSTANTS
  Locals = {"l1", "l2", "l3"}
  Doms = {"d1", "d2", "d3"}
  EnvLocals = {}
  RuleVars = {"lower"}
  EnvVars = {"lower"}
  Targets = {"T1", "T2", "T3"}
  Codes = {0}
  MaxSrc = 0
  MaxDst = 0
  MaxDepth = 0
  MaxMod = 0
  MaxBlocks = 0
  MaxRules = 0
  MaxKeys = 0
  MaxEntries = 0
  MaxVals = 0
  MaxDefects = 0
  DefectOdds = 0
  Salts = {0}
  DefaultLast = TRUE
  BareMaps = TRUE
  NullKeys = FALSE
  DupRules = FALSE
  FlatOnly = FALSE
  MaxScopeMods = 1
  TableKinds = {"static"}
  SenderCap = 99
  PrintExpected = FALSE
  OpenDevs = %s
CHECK_DEADLOCK FALSE
POSTCONDITION Post
"""


def known_entries():
    """Entries of known_findings.d/C04.json (falls back to the merged file)."""
    p = os.path.join(vlib.VERIF, "known_findings.d", PID + ".json")
    if os.path.exists(p):
        return [f for f in json.load(open(p)).get("findings", []) if f.get("property") == PID]
    return vlib.load_known(PID)


def rows_from(r):
    return [val for tag, val in r["printed"] if tag == "ROW"]


def cfg_key(row):
    return json.dumps(row["cfg"], sort_keys=True)


def size(ns):
    return sum(1 + size(n.get("c", [])) for n in ns)


def directives(ns, acc=None):
    acc = acc if acc is not None else []
    for n in ns:
        acc.append(n["d"])
        directives(n.get("c", []), acc)
    return acc


def nontrivial(row):
    """at least two blocks compete somewhere, or a rewrite / reroute is present"""
    ds = directives(row["cfg"])
    return any(d in ("source", "source_in", "destination", "destination_in", "modify", "reroute")
               for d in ds)


def run(ctx, replay):
    thorough = ctx.tier == "thorough"
    # up to 12 TLC JVMs run side by side; cap the heap of each (the default is 1/4 of the RAM)
    os.environ.setdefault("_JAVA_OPTIONS", "-Xmx4g")
    known = known_entries()
    open_known = [f for f in known if f.get("status", "open") == "open"]
    open_devs = sorted(set(f["match"]["deviation"] for f in open_known if f.get("match", {}).get("deviation")))

    binary_box = {}

    def build():
        try:
            binary_box["bin"] = ctx.build_harness("routingcheck")
        except Exception as e:      # noqa: BLE001
            binary_box["err"] = e
    bt = threading.Thread(target=build)
    bt.start()

    rows = []
    if replay:
        obj = json.load(open(replay))
        rows = [obj["row"]]
        rows[0].setdefault("ab", 0)
    else:
        # ---- (T) exhaustive enumeration inside the small bound + model theorems ----
        n_sim, par = (6000, 10) if thorough else (260, 4)
        bounds = MC_THOROUGH if thorough else MC_QUICK_ALL

        def view(seed):
            c = vlib.Ctx.__new__(vlib.Ctx)       # a view of ctx with its own seed
            c.__dict__.update(ctx.__dict__)
            c.seed = seed
            return c

        def mc(k):
            return view(ctx.seed).tlc("Routing", None, name="mc%d" % k, workers=4 if thorough else 3,
                                      timeout=2400 if thorough else 900,
                                      cfg_text=gen_cfg(tail="INVARIANT TheoremsHold\n", **bounds[k]))

        def asis(dev):
            return view(ctx.seed).tlc("Routing", None, name="asis-" + dev, workers=2, timeout=300,
                                      cfg_text=gen_cfg(tail="INVARIANT %sInvisible\n" % dev, **MC_ASIS))

        def sim(k):
            return view(ctx.seed * 1000 + k).tlc(
                "Routing", None, name="sim%d" % k, workers=1, timeout=1500,
                simulate=(n_sim + par - 1) // par, depth=400,
                cfg_text=gen_cfg(tail="INVARIANT TheoremsHold\n",
                                 **dict(SIM, doms=SIM_DOMS[k % 3],
                                        envvars=ALL_VARS if k % 2 == 0 else NO_UPPER_ACE)))
        # at most 12 TLC JVMs side by side (the thorough tier has more bounds + walks than that)
        with ThreadPoolExecutor(min(12, len(bounds) + len(open_devs) + par)) as ex:
            f_mc = [ex.submit(mc, k) for k in range(len(bounds))]
            f_as = [(d, ex.submit(asis, d)) for d in open_devs]
            f_sim = [ex.submit(sim, k) for k in range(par)]
            r_mc = [f.result() for f in f_mc]
            r_as = [(d, f.result()) for d, f in f_as]
            sims = [f.result() for f in f_sim]

        # ---- (T) exhaustive enumeration inside the small bounds + model theorems ----
        ex_rows = []
        ctx.cov["states"] = ctx.cov["transitions"] = ctx.cov["model_depth"] = 0
        for k, r in enumerate(r_mc):
            if not r["ok"]:
                raise vlib.Infra("TLC did not accept Routing bound %d: invariant=%s error=%s (see %s/tlc.out)" % (
                    k, r["invariant"], r["error"], r["dir"]))
            ctx.cov["states"] += r["distinct"]
            ctx.cov["transitions"] += r["generated"]
            ctx.cov["model_depth"] = max(ctx.cov["model_depth"], r["depth"])
            ex_rows += rows_from(r)
            ctx.log("TLC exhaustive bound %d: %d distinct states, %d transitions, %d rows, theorems hold, %.1fs" % (
                k, r["distinct"], r["generated"], len(rows_from(r)), r["wall"]))
        ctx.cov["exhaustive_configurations"] = len(set(cfg_key(x) for x in ex_rows))

        # ---- as-is: every open deviation must be visible to the model (non-vacuity) ----
        for dev, ra in r_as:
            if ra["invariant"] != dev + "Invisible":
                raise vlib.Infra("as-is model: deviation %s has no visible effect (%s / %s)" % (
                    dev, ra["invariant"], ra["error"]))
        ctx.cov["asis_counterexamples_found"] = open_devs

        # ---- seeded walks over the full grammar and alphabet --------------------
        sim_rows = []
        for g in sims:
            if not g["ok"]:
                raise vlib.Infra("configuration walk failed: %s %s (see %s/tlc.out)" % (
                    g["invariant"], g["error"], g["dir"]))
            sim_rows += rows_from(g)
        ctx.cov["simulated_configurations"] = len(sim_rows)
        ctx.log("TLC walks: %d configurations (full alphabet, theorems hold)" % len(sim_rows))

        seen = set()
        for x in ex_rows + sim_rows:
            k = cfg_key(x) + json.dumps(x["envs"], sort_keys=True)
            if k in seen:
                continue
            seen.add(k)
            rows.append(x)
    for i, x in enumerate(rows):
        x["id"] = i + 1
        # alphabet of the row: consecutive rows (neighbouring configurations) use different alphabets
        x.setdefault("ab", (i + ctx.seed) % N_ALPHABETS)
    if not rows:
        raise vlib.Infra("TLC produced no rows")
    ctx.log("%d rows to replay" % len(rows))

    # ---- replay on the real pipeline --------------------------------------------
    bt.join()
    if "err" in binary_box:
        raise binary_box["err"]
    events = ctx.run_shards(binary_box["bin"], [{"id": x["id"], "ab": x["ab"], "cfg": x["cfg"], "envs": x["envs"]}
                                                for x in rows])
    by_id = {x["id"]: x for x in rows}
    ev_by_t = {e["t"]: e for e in events}
    for e in events:
        if e["out"]["load"] == "broken" and e.get("loaderr", "").startswith("PARSE"):
            raise vlib.Infra("generated configuration text does not parse: %s\n%s" % (e["loaderr"], e["text"]))

    # binding self-test: two corrupted copies of a conforming row must be rejected
    selftest = {}
    if not replay:
        for e in events:
            res = e["out"]["res"]
            hit = [(k, i) for k, o in enumerate(res) for i, rc in enumerate(o["rc"]) if rc["dl"]]
            rej = [(k, i) for k, o in enumerate(res) for i, rc in enumerate(o["rc"]) if rc["code"] != 0 and not rc["dl"]]
            if hit and rej and e["out"]["load"] == "ok":
                c1 = json.loads(json.dumps(e))
                c1["t"] = 900001
                k, i = hit[0]
                t0 = c1["out"]["res"][k]["rc"][i]["dl"][0]["t"]
                c1["out"]["res"][k]["rc"][i]["dl"][0]["t"] = "T3" if t0 != "T3" else "T2"   # another target saw it
                c2 = json.loads(json.dumps(e))
                c2["t"] = 900002
                k, i = rej[0]
                c2["out"]["res"][k]["rc"][i]["code"] = 0                                      # refusal dropped
                events = events + [c1, c2]
                selftest = {900001: "foreign-target", 900002: "refusal-dropped"}
                break

    # ---- TLC evaluates the property on what the code did ---------------------------
    slim = [{"t": e["t"], "seq": e["seq"], "e": "Row", "in": e["in"], "out": e["out"]} for e in events]
    slim.sort(key=lambda e: e["t"])
    cfg_text = TRACE_CFG % tla_set(open_devs)
    nb = 1 if len(slim) <= 500 else min(10, (len(slim) + 399) // 400)
    chunks = [slim[k::nb] for k in range(nb)]

    def val(k):
        return ctx.validate("RoutingTrace", None, chunks[k], name="RoutingTrace-p%d" % k,
                            cfg_text=cfg_text, timeout=2400, batch=100000)
    with ThreadPoolExecutor(nb) as ex:
        parts = list(ex.map(val, range(nb)))
    verdicts = {}
    for v, _ in parts:
        verdicts.update(v)

    fid_of = {f["match"]["deviation"]: f for f in open_known if f.get("match", {}).get("deviation")}
    ok = asis_only = drift = 0
    preds, obs, known_rows = {}, {}, {}
    for t, recs in sorted(verdicts.items()):
        rec = recs[0]
        viol = sorted(rec["viol"])
        if t in selftest:
            if not viol:
                raise vlib.Infra("binding self-test failed: %s row was accepted" % selftest[t])
            continue
        for o in rec["obs"]:
            obs[o] = obs.get(o, 0) + 1
        e = ev_by_t[t]
        if viol:
            devs = sorted(rec["devs"])
            allowed = set()
            for d in devs:
                allowed |= set(fid_of[d]["match"].get("predicates", [])) if d in fid_of else set()
            if rec["asis"] and devs and all(d in fid_of for d in devs) and set(viol) <= allowed:
                for d in devs:
                    f = fid_of[d]
                    ctx.known(f["id"], f["what"])
                    known_rows[f["id"]] = known_rows.get(f["id"], 0) + 1
                continue
            for v in viol:
                preds[v] = preds.get(v, 0) + 1
            what = "routing violates " + ",".join(viol) + (" (load reasons %s)" % sorted(rec["why"]) if rec["why"] else "")
            ctx.violation(what, {"property": PID, "row": {"cfg": by_id[t]["cfg"], "envs": by_id[t]["envs"], "ab": by_id[t]["ab"]},
                                 "config_text": e["text"], "observed": e["out"], "violated": viol,
                                 "asis": rec["asis"], "devs": devs,
                                 "how": "bin/check C04 --replay <this file>"})
        elif rec["doc"]:
            ok += 1
        elif rec["asis"]:
            asis_only += 1
        else:
            drift += 1
            print("DRIFT property=C04 row=%d load=%s model-load-reasons=%s  # differs from the operational rule, no clause of C04 is false" % (
                t, e["out"]["load"], sorted(rec["why"])))
    for o, n in sorted(obs.items()):
        print("OBSERVATION property=C04 %s rows=%d" % (o, n))
    if selftest:
        ctx.cov["binding_selftest"] = "foreign-target and dropped-refusal copies of a conforming row rejected"
    ctx.cov["traces_validated_against_impl"] = ok
    ctx.cov["rows_explained_only_by_open_deviations_without_violation"] = asis_only
    ctx.cov["drift_traces"] = drift
    ctx.cov["known_finding_rows"] = known_rows
    ctx.cov["observations"] = obs
    ctx.cov["evaluations"] = len(rows)
    ctx.cov["envelope_recipients_checked"] = sum(len(en["r"]) for x in rows for en in x["envs"]
                                                 if ev_by_t[x["id"]]["out"]["load"] == "ok")
    ctx.cov["distinct_nontrivial"] = len(set(cfg_key(x) for x in rows if nontrivial(x)))
    ctx.cov["loadable_rows"] = sum(1 for e in ev_by_t.values() if e["out"]["load"] == "ok")
    ctx.cov["refused_rows"] = sum(1 for e in ev_by_t.values() if e["out"]["load"] == "error")
    ctx.cov["rule"] = ("rows = configurations built by the grammar actions of Routing.tla (exhaustive BFS inside the "
                       "small bound, seeded -simulate walks over the full alphabet), each with the envelope sweep "
                       "(every sender class incl. null sender x every recipient class, two spellings each); distinct by "
                       "configuration tree; non-trivial = has a source/destination-family rule block, a rewrite map or a reroute")
    ctx.cov["violated_predicates"] = preds
    ctx.cov["exhaustive"] = False
    ctx.cov.pop("trace_states", None)
    for x in rows[:1] + rows[-2:]:
        e = ev_by_t[x["id"]]
        ctx.cov["samples"].append({"config_text": e["text"], "load": e["out"]["load"],
                                   "model_load": x.get("load"), "envelope": x["envs"][0] if x["envs"] else None,
                                   "expected": (x.get("exp") or [None])[0],
                                   "observed": (e["out"]["res"] or [None])[0]})
    ctx.assumptions += [
        "recording targets, table.static and modify.replace_rcpt (real modules) stand in for the deployment's modules",
        "table keys and rewrite-map keys are written in canonical spelling (the documentation does not promise normalisation of table contents)",
        "sender rewriting and checks are outside the grammar of C04",
        "TLC 1.8.0, CommunityModules Json reader",
    ]


META = {
    "engine": "routingcheck",
    "level": "model_checking",
    "technique": "TLA+ spec Routing.tla (configurations as data, documented precedence as declarative property and "
                 "operational rule) enumerated/model-checked by TLC; generated configurations x envelopes replayed on "
                 "the real msgpipeline; recorded rows evaluated by TLC against RoutingTrace.tla",
    "text": "TLC builds every pipeline configuration of the directive grammar inside a small bound (and seeded walks "
            "over the full grammar: source/source_in/default_source, destination/destination_in/default_destination, "
            "reject, deliver_to 1-2 targets, several modify 1-to-N per scope, reroute depth 2; 2x2 addresses x 6 spellings, domains incl. an IDN label behind an ASCII label) and checks "
            "on each: selected block unique, loadable => decision for every envelope, operational rule satisfies the "
            "declarative property. Every row is loaded with the real msgpipeline.New and every envelope of the sweep is "
            "pushed through Start/AddRcpt/Body/Commit; TLC evaluates the C04 clauses on the recorded outcome.",
    "note": "Exhaustive only inside small bounds (quick: eight bounds - precedence with 1 source-family + 1 destination-family "
            "block per level over a multi-label IDN, static and regexp tables; incomplete configurations with destination + "
            "destination_in and one defect; one rewrite map incl. local-part keys / domain-less values over two domains; two "
            "nested 1-to-2 rewrites over three addresses; every table module (static, file, regexp with/without replacement, "
            "scripted table with a failing lookup, catch-all tables identity / regexp \".*\", source_in tables listing the null "
            "reverse-path); two modify directives in one scope; rule lists: two source-family resp. destination-family blocks "
            "with 1-2 rules each, a rule repeated inside or across directives in any position, competing with tables; "
            "thorough: eight more incl. two spellings, two domains, defects inside a reroute, rule lists in two spellings, "
            "default block not last); rows are spread over four concrete alphabets of the same shape (Latin-1, letters whose "
            "capital has no precomposed form, Cyrillic with an IDN TLD, two combining marks in non-canonical order) and the "
            "envelopes of a row alternate between Body and BodyNonAtomic (harness-only data dimensions); all envelopes of a row go through the same loaded pipeline in sequence "
            "(history independence of the routing is part of the rule); "
            "the full grammar is sampled by seeded TLC simulation (260 configurations quick, 6000 thorough). "
            "Trusted: TLC, harness, Go toolchain.",
    "design_ref": "DESIGN.md section 5 C04",
}
