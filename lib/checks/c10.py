"""C10 - the spool preserves message bytes and envelope, never stores credentials.

(T) TLC checks Spool.tla exhaustively: every message shape (header/body/sender feature classes,
    flags, original-recipient map, authentication) x every history of attempts and clean restarts
    in the bound; every named deviation must be caught by the same invariant.
(B) TLC-generated behaviours are concretised to bytes and replayed on the real queue (recording
    per-recipient target, spool scanned for the seeded credential strings after every step);
    SpoolTrace.tla validates the traces and evaluates the predicates.
"""
import json
from concurrent.futures import ThreadPoolExecutor

import vlib
from checks import c02

CFG = """SPECIFICATION Spec
CONSTANTS
  Rcpts = {"r1", "r2"}
  HdrShapes = {"plain", "folded", "dup", "8bit", "long", "huge", "emptyval", "envlike"}
  BodyShapes = {"small", "empty", "binary", "large", "faulty"}
  Senders = {"null", "ascii", "idn", "idndom", "quoted"}
  Auths = {"none", "auth-trace", "auth-notrace"}
  MaxSteps = %(steps)d
  MaxRestarts = %(restarts)d
  Devs = {%(devs)s}
  Gen = %(gen)s
%(tail)s
"""
DEVS = ["DropOverrideAtStart", "DropFlagOnReload", "SerializeConn", "TruncateHugeHeader", "AllRcptsOnRetry",
        "BounceRewritesEnvelope", "SwallowCopyError", "BodyFromSource", "EnvelopeFromHeader"]


def cfg(steps, restarts, devs=(), gen=False, tail="VIEW View\nINVARIANT NoViolation\n"):
    return CFG % dict(steps=steps, restarts=restarts, devs=", ".join('"%s"' % d for d in devs),
                      gen="TRUE" if gen else "FALSE", tail=tail)


def run(ctx, replay):
    thorough = ctx.tier == "thorough"
    if not replay:
        # the behaviour generation, the harness build and the deviation runs go on beside the exhaustive run
        pool = ThreadPoolExecutor(max_workers=2)
        build_future = pool.submit(ctx.build_harness, "queuecheck")
        gen_future = pool.submit(ctx.tlc, "Spool", None, name="sim", workers=1, timeout=900, heap="2g",
                                 simulate=2500 if thorough else 260, depth=12,
                                 cfg_text=cfg(5, 2, gen=True, tail="CHECK_DEADLOCK FALSE\n"))
        dev_futures = [(dev, pool.submit(ctx.tlc, "Spool", None, name="asis-" + dev, workers=1, timeout=300,
                                         heap="2g",
                                         cfg_text=cfg(3, 1, devs=[dev]))) for dev in DEVS]
        r = ctx.tlc_expect_ok("Spool", None, name="mc", workers=6 if thorough else 4, timeout=1800,
                              heap="8g" if thorough else "4g",
                              cfg_text=cfg(5 if thorough else 4, 2))
        ctx.cov["states"], ctx.cov["transitions"], ctx.cov["model_depth"] = r["distinct"], r["generated"], r["depth"]
        ctx.log("TLC exhaustive: %d distinct states, %d transitions, %.1fs" % (r["distinct"], r["generated"], r["wall"]))
        caught = []
        for dev, fut in dev_futures:
            ra = fut.result()
            if ra["invariant"] != "NoViolation":
                raise vlib.Infra("deviation %s is no longer caught by the model invariant" % dev)
            caught.append(dev)
        ctx.cov["deviations_caught_by_model"] = caught
        g = gen_future.result()
        pool.shutdown()
        if not g["ok"]:
            raise vlib.Infra("behaviour generation failed: %s %s" % (g["invariant"], g["error"]))
        behs, seen = [], set()
        for tag, val in g["printed"]:
            if tag == "BEH":
                k = json.dumps(val, sort_keys=True)
                if k not in seen:
                    seen.add(k)
                    behs.append({"id": len(behs) + 1, "msg": val["msg"], "hist": val["hist"]})
        # make sure every shape value occurs at least once with a retry and a restart
        if not behs:
            raise vlib.Infra("no behaviours")
        for k, b in enumerate(behs):    # harness-only dimension: recipients that differ only by letter case
            if k % 3 == 1:
                b["caseVar"] = True
            # harness-only as well: recipients in an internationalized domain / with non-ASCII local parts
            # (SMTPUTF8 messages), and a message whose sender was rewritten before it reached the queue
            elif k % 6 == 2:
                b["rcptAlpha"] = "uni" if b["msg"]["utf8"] else "idn"
            if k % 2 == 1:
                b["origFrom"] = True
        # CrashRestart (an abrupt stop before the first attempt) is enabled right after every Accept and
        # changes nothing the later steps depend on, so inserting it into a generated behaviour gives another
        # behaviour of the model; the simulation picks it rarely (one successor among ten), a quarter get it
        for k, b in enumerate(behs):
            h = b["hist"]
            if k % 4 == 2 and len(h) > 1 and h[0]["a"] == "Accept" and h[1]["a"] != "Crash":
                b["hist"] = [h[0], {"a": "Crash"}] + h[1:]
    else:
        obj = json.load(open(replay))
        if "behaviour" not in obj:      # a crash run (DamagedMessageHanded)
            c02.run_crash(ctx, replay, "C10", lambda v: v == "DamagedMessageHanded", sub="crash")
            return
        behs = [obj["behaviour"]]
        behs[0]["id"] = 1
    ctx.log("%d behaviours" % len(behs))
    binary = build_future.result() if not replay else ctx.build_harness("queuecheck")
    events = ctx.run_shards(binary, behs, test="TestPreserve", name="preserve")
    by_id = {b["id"]: b for b in behs}
    tcfg = cfg(40, 40, tail="CHECK_DEADLOCK FALSE\nPOSTCONDITION Post\n").replace("SPECIFICATION Spec", "SPECIFICATION TSpec")
    verdicts, by_t = ctx.validate("SpoolTrace", None, events, cfg_text=tcfg, batch=400)
    ok = drift = 0
    preds = {}
    for t, recs in sorted(verdicts.items()):
        viol = sorted(set(v for r in recs for v in r["viol"]))
        if viol:
            for v in viol:
                preds[v] = preds.get(v, 0) + 1
            ctx.violation("spool hand-over violates " + ",".join(viol),
                          {"property": "C10", "behaviour": by_id[t], "trace": by_t[t], "violated": viol,
                           "how": "bin/check C10 --replay <this file>"})
        elif any(not r["drift"] for r in recs):
            ok += 1
        else:
            drift += 1
            print("DRIFT property=C10 trace=%d first-unexplained-seq=%s" % (t, recs[0]["driftAt"]))
    ctx.cov["traces_validated_against_impl"] = ok
    ctx.cov["drift_traces"] = drift
    ctx.cov["evaluations"] = len(behs)
    ctx.cov["distinct_nontrivial"] = sum(1 for b in behs if sum(1 for s in b["hist"] if s["a"] in ("Attempt", "Restart")) >= 2)
    ctx.cov["shapes_covered"] = {k: sorted(set(str(b["msg"][k]) for b in behs)) for k in ("hdr", "body", "sender", "auth")}
    ctx.cov["rule"] = ("behaviour = message shape x history of attempts/restarts simulated by TLC from Spool.tla, "
                       "de-duplicated; non-trivial = at least two attempt/restart steps")
    ctx.cov["violated_predicates"] = preds
    for b in behs[:3]:
        ctx.cov["samples"].append({"behaviour": b, "trace": [e for e in by_t.get(b["id"], [])][:30]})
    if not replay:
        # a stop while the message is being stored must not make the queue hand over a damaged message
        # (QueueDisk.tla; crash machinery of C02, reporting only DamagedMessageHanded)
        c02.run_crash(ctx, None, "C10", lambda v: v == "DamagedMessageHanded", nscen=60 if thorough else 8,
                      sub="crash", devs=("MetaBeforeSync", "MetaBeforeBody"))
    ctx.assumptions += [
        "header/body concretisations of the shape classes are fixed per class (random tag per behaviour); "
        "byte equality is computed by the harness target and logged as the shape name or 'changed(...)'",
        "restarts in the shape histories are clean stops; stops at every file operation of the store/update/remove "
        "chains are replayed with the C02 crash machinery for the clause 'a damaged message is never handed over'",
    ]


META = {
    "engine": "queuecheck",
    "level": "model_checking",
    "technique": "TLA+ spec Spool.tla (message shapes x attempt/restart histories, store/reload steps with named "
                 "deviations) model-checked by TLC; behaviours replayed on the real queue; traces validated against SpoolTrace.tla",
    "text": "TLC explores all message shapes x histories of attempts and restarts in the bound and checks that the "
            "hand-over equals what was accepted (header, body, sender, recipients still pending, SMTPUTF8, REQUIRETLS, "
            "TLS-Required override set by the endpoint after Start, original-recipient map) and that no credential "
            "reaches the disk; TLC-simulated behaviours are concretised to bytes (folding, duplicates, 8-bit, >1 MiB "
            "header, binary and file-buffered bodies) and run on the real queue, the spool is scanned after every step, "
            "and TLC evaluates the same predicates on the traces.",
    "note": "Bounded, model-generated shape space (not all byte strings); byte comparison and spool scan are harness "
            "code; scripted per-recipient target; trusted: TLC, harness, Go toolchain.",
    "design_ref": "DESIGN.md section 5 C10",
}
