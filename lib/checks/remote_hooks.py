"""The other direction of the binding for C05/C09: the REPOSITORY'S OWN tests of
internal/target/remote (and internal/target/smtp) run, unchanged, with the trace hooks compiled in
(build tag verif: verif_trace.go / verif_trace_test.go in those packages); what the hooks logged is
mapped onto the vocabulary of Remote.tla / RcptStatus.tla and validated by TLC
(RemoteHookTrace.tla, RcptHookTrace.tla).  A failing repository test is not a verdict; a
configuration outside the model's alphabet is SKIPPED with its reason, never silently.
"""
import json
import os
import subprocess

import vlib

HOOK_TAIL = "CHECK_DEADLOCK FALSE\nPOSTCONDITION Post\n"
RCPT_CFG = "SPECIFICATION TSpec\nCHECK_DEADLOCK FALSE\nPOSTCONDITION Post\n"
PKGS = {"remote": "./internal/target/remote/", "smtp": "./internal/target/smtp/"}


def record(ctx, which):
    """go test -tags verif <pkg> in ctx.repo with the sink on; returns (events, rc, tests_run)."""
    if not os.path.exists(os.path.join(ctx.repo, PKGS[which], "verif_trace.go")):
        return None, 0, 0           # a tree without the hooks (e.g. a scratch worktree of an older commit)
    d = ctx.sub("repotests-" + which)
    raw = os.path.join(d, "raw.ndjson")
    if os.path.exists(raw):
        os.remove(raw)
    tmp = os.path.join(d, "tmp")
    os.makedirs(tmp, exist_ok=True)
    env = vlib.goenv()
    env.update(VERIF_TRACE_OUT=raw, TMPDIR=tmp)
    out = ""
    for attempt in range(3):       # the packages' tests bind fixed TCP ports
        if os.path.exists(raw):
            os.remove(raw)
        p = subprocess.run(["timeout", "600", "go", "test", "-tags", "verif", "-count=1", "-v", PKGS[which]],
                           cwd=ctx.repo, env=env, stdout=subprocess.PIPE, stderr=subprocess.STDOUT, text=True)
        out = p.stdout
        if "address already in use" not in out:
            break
    if not os.path.exists(raw) or os.path.getsize(raw) == 0:
        raise vlib.Infra("the repository's %s tests recorded nothing with the hooks on (rc=%d): %s" % (
            which, p.returncode, out[-1500:]))
    evs = [json.loads(l) for l in open(raw)]
    tests = out.count("\n--- PASS") + out.count("\n--- FAIL") + out.count("\n    --- PASS") + out.count("\n    --- FAIL")
    return evs, p.returncode, tests


def dom_of(addr):
    return addr.rsplit("@", 1)[1] if "@" in addr else ""


POLNAME = {"*remote.mtastsPolicy": "mtasts", "*remote.danePolicy": "dane", "*remote.dnssecPolicy": "dnssec",
           "*remote.localPolicy": "local"}


class Skip(Exception):
    pass


def map_history(t, tgt, dom, msgs):
    """msgs: list of event lists (one per delivery of this target that touched dom, in Start order).
    Returns the events of one RemoteHookTrace trace, or raises Skip(reason)."""
    starts = [next(e for e in m if e["e"] == "HStart") for m in msgs]
    if len(msgs) > 6:
        raise Skip("more than 6 messages in one history")
    pols = set()
    mins = None
    for s in starts:
        for c in s["configured"]:
            if c not in POLNAME:
                raise Skip("policy outside the alphabet: %s" % c)
        names = [n for n in s["pols"] if n != "dane-off"]
        if any(n not in ("mtasts", "dane", "dnssec", "local") for n in names):
            raise Skip("policy outside the alphabet: %s" % ",".join(names))
        conf = {POLNAME[c] for c in s["configured"]}
        if "dane" in conf and not s["extResolver"]:
            conf.discard("dane")
        if not (s["tlsno"] and s["override"]):
            conf = set(names)
            m = (s["minTLS"], s["minMX"])
            if mins is not None and mins != m:
                raise Skip("policy configuration changed between messages")
            mins = m
        if pols and conf != pols:
            raise Skip("policy configuration changed between messages")
        pols = conf
        if s["override"] != starts[0]["override"]:
            raise Skip("policy configuration changed between messages")
        if s["reqtls"] and not s["relaxed"]:
            pass
    mins = mins or (0, 0)
    if "local" in pols and mins is None:
        mins = (0, 0)

    facts = {}          # host -> dict
    order = []
    sts, ad, dns = "none", None, "ok"

    def fact(h):
        if h not in facts:
            facts[h] = {"stls": None, "cert": "valid", "stsMatch": None, "tlsa": None}
        return facts[h]

    def setf(h, k, v):
        f = fact(h)
        if f[k] is not None and f[k] != v:
            raise Skip("environment facts changed between messages (%s of %s)" % (k, h))
        f[k] = v

    for m in msgs:
        for e in m:
            if e.get("dom") != dom:
                continue
            if e["e"] == "HLookup":
                if e["res"] == "perm":
                    raise Skip("MX lookup failed permanently")
                if e["res"] == "temp":
                    dns = "servfail"
                    continue
                if order and order != e["mx"]:
                    raise Skip("environment facts changed between messages (MX set)")
                order = list(e["mx"])
                if "." in order:
                    raise Skip("null MX")
                if ad is not None and ad != e["ad"]:
                    raise Skip("environment facts changed between messages (AD bit)")
                ad = e["ad"]
            elif e["e"] == "HPolMX" and e["pol"] == "mtasts":
                mode = e["mode"] if e["mode"] in ("testing", "enforce") else "none"
                if sts not in ("none", mode) and mode != "none":
                    raise Skip("environment facts changed between messages (MTA-STS mode)")
                if mode != "none":
                    sts = mode
                setf(e["host"], "stsMatch", bool(e["match"]) and mode != "none")
            elif e["e"] == "HPolConn" and e["pol"] == "dane":
                if e["tlsa"] == "ta":
                    raise Skip("DANE-TA records (chain facts are not logged)")
                setf(e["host"], "tlsa", e["tlsa"])
            elif e["e"] == "HConn":
                if e["res"] == "perm":
                    raise Skip("connection attempt failed permanently (e.g. no address for the host)")
                if e["res"] == "temp":
                    setf(e["host"], "stls", "cmdfail")
                elif e["tls"] == "enc-auth":
                    setf(e["host"], "stls", "offered")
                    fact(e["host"])["cert"] = "valid"
                elif e["tls"] == "enc-unauth":
                    setf(e["host"], "stls", "offered")
                    fact(e["host"])["cert"] = "selfsigned"
                elif e["tls"] == "none" and not e["starttls"]:
                    setf(e["host"], "stls", "stripped")
                elif e["tls"] == "none" and e["tlsErr"]:
                    setf(e["host"], "stls", "hsfail")
                elif e["tls"] == "none" and not starts[0]["tlsConfig"]:
                    setf(e["host"], "stls", "stripped")     # no TLS client configuration: STARTTLS is never attempted
                else:
                    raise Skip("plaintext although STARTTLS was offered and no TLS error was seen")
    if dns == "ok" and not order:
        raise Skip("no MX lookup recorded for the domain")
    if dns == "servfail":
        order = order or ["mx"]
    for h in order:
        fact(h)
    mx = []
    for h in order:
        f = facts[h]
        mx.append({"stls": f["stls"] or "offered", "cert": f["cert"], "stsMatch": bool(f["stsMatch"]),
                   "tlsa": (f["tlsa"] or "none") if "dane" in pols else "insecure"})
    idx = {h: i + 1 for i, h in enumerate(order)}
    out = [{"t": t, "seq": 0, "e": "Cfg", "pols": sorted(pols), "minTLS": mins[0], "minMX": mins[1],
            "override": bool(starts[0]["override"]), "sts": sts if "mtasts" in pols else "none",
            "adMX": bool(ad) if "dnssec" in pols else False, "dns": dns, "mx": mx,
            "tgt": tgt, "dom": dom, "msgs": [s["msgid"] for s in starts]}]

    def emit(e, seq, **f):
        out.append(dict({"t": t, "seq": seq, "e": e}, **f))

    for m, s in zip(msgs, starts):
        rc = [e for e in m if e["e"] == "HRcpt" and (dom_of(e["to"]) == dom or e["stage"] == "quarantine")]
        first = rc[0] if rc else None
        mail = [e for e in m if e["e"] == "HMail" and e["dom"] == dom]
        body = [e for e in m if e["e"] == "HBody"]
        qlate = bool(body) and body[0]["quar"] and not s["quar"]
        mailfail = bool(mail) and first is not None and first["stage"] == "conn"
        emit("Msg", s["seq"], reqtls=bool(s["reqtls"]), tlsno=bool(s["tlsno"]), quar=bool(s["quar"]),
             mailfail=mailfail, qlate=qlate)
        if first is None:
            emit("End", s["seq"] + 1)
            return out
        for e in m:
            if e["e"] == "HConn" and e["dom"] == dom and e["seq"] < first["seq"]:
                if e["host"] not in idx:
                    raise Skip("connection to a host that is not an MX of the recorded lookup")
                emit("Conn", e["seq"], mx=idx[e["host"]], tls=e["tls"] if e["res"] == "ok" else "error")
        if first["stage"] == "rcpt":
            emit("End", first["seq"])          # RCPT TO refused: outside the alphabet, judge the prefix
            return out
        emit("Ret", first["seq"], op="addrcpt", res=first["res"])
        if first["res"] != "ok":
            continue
        if not body:
            emit("End", first["seq"] + 1)      # aborted / committed without a body: the test stopped here
            return out
        if qlate:
            emit("Quar", body[0]["seq"])
        data = [e for e in m if e["e"] == "HData" and e["dom"] == dom]
        for e in data:
            if e["host"] not in idx:
                raise Skip("DATA on a host that is not an MX of the recorded lookup")
            emit("Data", e["seq"], mx=idx[e["host"]], tls=e["tls"])
        done = [e for e in m if e["e"] == "HBodyDone"]
        stat = [e for e in m if e["e"] == "HStatus" and dom_of(e["to"]) == dom]
        if not done:
            emit("End", (data or body)[-1]["seq"] + 1)
            return out
        res = "ok" if stat and all(e["res"] == "ok" for e in stat) else ("perm" if qlate and stat else None)
        if res is None:
            emit("End", done[0]["seq"])        # DATA / final dot refused: outside the alphabet, judge the prefix
            return out
        emit("Ret", done[0]["seq"], op="body", res=res)
    emit("End", out[-1]["seq"] + 1)
    return out


def remote_policy_traces(ctx, pid, cfg_text):
    """C05: validate the remote tests' traces against Remote.tla. cfg_text: RemoteHookTrace configuration."""
    evs, rc, tests = record(ctx, "remote")
    if evs is None:
        print("SKIPPED property=%s repo-test traces: the trace hooks are not present in %s" % (pid, ctx.repo))
        ctx.cov["repo_test_traces"] = {"skipped": "hooks not present in the tree"}
        return 0
    by_key = {}
    for e in evs:
        by_key.setdefault(e["key"], []).append(e)
    hist = {}                 # (tgt, dom) -> [events of a delivery]
    skipped = {}
    for key in sorted(by_key, key=lambda k: min(e["seq"] for e in by_key[k])):
        m = sorted(by_key[key], key=lambda e: e["seq"])
        if m[0]["e"] != "HStart":
            skipped["delivery without a recorded start"] = skipped.get("delivery without a recorded start", 0) + 1
            continue
        doms = []
        for e in m:
            d = e.get("dom")
            if d and d not in doms:
                doms.append(d)
        if not doms:
            if any(e["e"] == "HRcpt" and e["stage"] == "quarantine" for e in m):
                doms = ["(quarantined before any lookup)"]
            else:
                r = "no MX delivery attempted (recipient refused before the lookup, or no recipient)"
                skipped[r] = skipped.get(r, 0) + 1
                continue
        for d in doms:
            hist.setdefault((m[0]["tgt"], d), []).append(m)
    events, info = [], {}
    for n, ((tgt, dom), msgs) in enumerate(sorted(hist.items())):
        t = 3000000 + n
        try:
            if dom.startswith("("):
                raise Skip("message quarantined before the first recipient: no domain to attribute it to")
            out = map_history(t, tgt, dom, msgs)
        except Skip as s:
            skipped[str(s)] = skipped.get(str(s), 0) + 1
            print("SKIPPED property=%s repo-test history %s -> %s: %s" % (pid, msgs[0][0]["msgid"][:10], dom, s))
            continue
        events += out
        info[t] = {"target": tgt, "domain": dom, "events": out}
    if not events:
        raise vlib.Infra("no usable trace from the repository's remote tests")
    # binding self-test: an accepted delivery whose DATA is moved onto a plaintext connection must be rejected
    st_t = None
    for t, i in info.items():
        c = i["events"][0]
        if "local" in c["pols"] and c["minTLS"] >= 1 and any(e["e"] == "Data" and e["tls"] != "none" for e in i["events"]):
            bad = [dict(e, t=3900001) for e in i["events"]]
            next(e for e in bad if e["e"] == "Data")["tls"] = "none"
            events += bad
            st_t = 3900001
            break
    verdicts, _ = ctx.validate("RemoteHookTrace", None, events, name="repotests-remote-trace", cfg_text=cfg_text)
    ok = drift = 0
    for t, recs in sorted(verdicts.items()):
        r0 = recs[0]
        if t == st_t:
            if not r0["drift"] and not r0["viol"]:
                raise vlib.Infra("binding self-test failed: a corrupted repo-test trace was accepted")
            continue
        viol = sorted({v["p"] for r in recs for v in r["viol"]})
        if viol:
            ctx.violation("the repository's own remote test (message %s, domain %s) makes the target violate %s" % (
                info[t]["events"][0]["msgs"][0][:10], info[t]["domain"], ",".join(viol)),
                {"property": pid, "repotest": info[t], "violated": viol,
                 "how": "bin/check %s (re-runs the package's tests with the hooks on)" % pid})
        elif not r0["drift"]:
            ok += 1
        else:
            drift += 1
            print("DRIFT property=%s repo-test history %s -> %s first-unexplained-seq=%s" % (
                pid, info[t]["events"][0]["msgs"][0][:10], info[t]["domain"], r0["driftAt"]))
    ctx.cov["repo_tests_rc"] = rc
    ctx.cov["repo_test_traces"] = {
        "package": "internal/target/remote", "tests_run": tests, "deliveries": len(by_key), "events": len(evs),
        "histories": len(hist), "validated": ok, "drift": drift, "skipped": sum(skipped.values()),
        "skipped_reasons": skipped, "data_events_judged": sum(1 for e in events if e["e"] == "Data" and e["t"] < 3900000),
        "binding_selftest": "corrupted trace rejected" if st_t else "no suitable trace"}
    ctx.log("repo tests (remote): %d tests, %d deliveries, %d events -> %d histories: %d validated, %d drift, %d skipped" % (
        tests, len(by_key), len(evs), len(hist), ok, drift, sum(skipped.values())))
    return ok


def rcpt_status_traces(ctx, pid):
    """C09: per-recipient results in the remote and smtp/lmtp tests' traces (RcptHookTrace.tla)."""
    total = {"tests_run": 0, "deliveries": 0, "events": 0, "validated": 0, "drift": 0, "skipped": 0,
             "skipped_reasons": {}, "statuses_judged": 0, "packages": []}
    events, info = [], {}
    n = 0
    for which in ("remote", "smtp"):
        evs, rc, tests = record(ctx, which)
        if evs is None:
            print("SKIPPED property=%s repo-test traces (%s): the trace hooks are not present in %s" % (pid, which, ctx.repo))
            continue
        total["tests_run"] += tests
        total["events"] += len(evs)
        total["packages"].append("internal/target/" + which)
        ctx.cov["repo_tests_rc_" + which] = rc
        by_key = {}
        for e in evs:
            by_key.setdefault(e["key"], []).append(e)
        total["deliveries"] += len(by_key)
        for key in sorted(by_key):
            m = sorted(by_key[key], key=lambda e: e["seq"])
            body = [e for e in m if e["e"] == "HBody"]
            done = [e for e in m if e["e"] == "HBodyDone"]
            if not body or not done:
                r = "no per-recipient body step (aborted, or the atomic Body of a target without BodyNonAtomic)"
                total["skipped"] += 1
                total["skipped_reasons"][r] = total["skipped_reasons"].get(r, 0) + 1
                continue
            names = {}

            def rid(a):
                if a not in names:
                    names[a] = "x%d" % (len(names) + 1)
                return names[a]
            n += 1
            t = 3100000 + n
            out = [{"t": t, "seq": 0, "e": "Cfg", "pkg": which, "key": key}, {"t": t, "seq": 1, "e": "Txn"}]
            for e in m:
                if e["e"] == "HRcpt" and e["seq"] < body[0]["seq"]:
                    out.append({"t": t, "seq": e["seq"], "e": "AddRcpt", "r": rid(e["to"]), "res": e["res"]})
            sts = [{"k": rid(e["to"]), "v": e["res"]} for e in m
                   if e["e"] == "HStatus" and body[0]["seq"] < e["seq"] < done[0]["seq"]]
            out.append({"t": t, "seq": done[0]["seq"], "e": "Statuses", "sts": sts})
            out.append({"t": t, "seq": done[0]["seq"] + 1, "e": "End"})
            total["statuses_judged"] += len(sts)
            events += out
            info[t] = {"package": which, "key": key, "addresses": names, "events": out}
    if not events and not total["packages"]:
        ctx.cov["repo_test_traces"] = {"skipped": "hooks not present in the tree"}
        return 0
    if not events:
        raise vlib.Infra("no per-recipient trace from the repository's tests")
    # binding self-test: one status re-keyed to an address that was never given
    st_t = None
    for t, i in info.items():
        sts = next(e for e in i["events"] if e["e"] == "Statuses")["sts"]
        if sts:
            bad = json.loads(json.dumps([dict(e, t=3190001) for e in i["events"]]))
            next(e for e in bad if e["e"] == "Statuses")["sts"][0]["k"] = "x99"
            events += bad
            st_t = 3190001
            break
    verdicts, _ = ctx.validate("RcptHookTrace", None, events, name="repotests-rcpt-trace", cfg_text=RCPT_CFG)
    for t, recs in sorted(verdicts.items()):
        r0 = recs[0]
        if t == st_t:
            if not r0["viol"]:
                raise vlib.Infra("binding self-test failed: a corrupted repo-test trace was accepted")
            continue
        viol = sorted({v["p"] for r in recs for v in r["viol"]})
        if viol:
            ctx.violation("the repository's own %s test (delivery %s) reports per-recipient results violating %s" % (
                info[t]["package"], info[t]["key"], ",".join(viol)),
                {"property": pid, "repotest": info[t], "violated": viol,
                 "how": "bin/check %s (re-runs the packages' tests with the hooks on)" % pid})
        elif not r0["drift"]:
            total["validated"] += 1
        else:
            total["drift"] += 1
            print("DRIFT property=%s repo-test delivery %s (%s) first-unexplained-seq=%s" % (
                pid, info[t]["key"], info[t]["package"], r0["driftAt"]))
    ctx.cov["repo_test_traces"] = total
    ctx.log("repo tests (remote, smtp): %d tests, %d deliveries, %d events: %d validated, %d drift, %d skipped" % (
        total["tests_run"], total["deliveries"], total["events"], total["validated"], total["drift"], total["skipped"]))
    return total["validated"]
