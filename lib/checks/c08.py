"""C08 - DKIM signatures made by maddy verify at the next hop after spooling and SMTP.

(T) MsgShape.tla: messages as sequences of header/body feature classes, DKIM canonicalisation
    written over the classes, the stages of a message's life as functions on the abstract
    message; TLC checks for every shape in the bound that the signature survives the stages
    (and that each named stage deviation is caught for some shape).
(B) TLC draws seeded random shapes; the harness concretises them to bytes, signs with the real
    modify.dkim, stores in the real queue, restarts the queue, delivers through the real
    target.smtp client to a next hop, and verifies what arrived with an independent verifier
    (harness/dkimcheck/indep.go) and with go-msgauth; tampered copies must fail. TLC evaluates
    the property over the recorded rows (MsgShapeTrace.tla).
"""
import json

import vlib

CFG = """SPECIFICATION %(spec)s
CONSTANTS
  MaxFields = %(f)d
  MaxLines = %(l)d
  Devs = {%(devs)s}
  GenN = %(n)d
  Vias = {%(vias)s}
%(tail)s
"""
DEVS = ["RefoldOnSpool", "StripTrailingWS", "LoseDotStuffing", "LowercaseNames", "FieldAfterSigning"]
# deviations of the h= layer (which fields are listed how often): caught by HRowOK over HRows
HDEVS = ["CountByConfigSpelling", "LastListWins"]
ALL_VIAS = ("direct", "pipe_body", "pipe_na")


def cfg(spec, f, l, n=0, devs=(), tail="", vias=ALL_VIAS):
    return CFG % dict(spec=spec, f=f, l=l, n=n, devs=", ".join('"%s"' % d for d in devs), tail=tail,
                      vias=", ".join('"%s"' % v for v in vias))


KCFG = """SPECIFICATION %(spec)s
CONSTANTS
  Algos = {%(algos)s}
  MaxOps = %(ops)d
  Devs = {%(devs)s}
  Gen = %(gen)s
  Wide = %(wide)s
%(tail)s
"""
KDEVS = ["StaleRecordTail", "SubdomainD", "KeepOldRecord", "SharedRecordFile"]

# Harness-only data dimensions of a key history (DkimKeys.tla does not depend on them: in the design every key
# has a record file of its own whatever the files are called): the spelling of the key_path template inside the
# model's naming class cfg.tpl, the spelling of the domain names (0: unrelated names, 1: names that differ only
# in the last label, 2: one name is a prefix of the other) and a second modify.dkim instance with another
# selector that keeps its keys in the same directory (only with templates that name the selector).
SPELL = {"key": ["{domain}.key", "{domain}_{selector}.key", "{selector}/{domain}.key", "{selector}.{domain}.key"],
         "bare": ["{domain}", "{domain}.{selector}", "{domain}.pem", "{selector}.{domain}", "{domain}/{selector}",
                  "{domain}.{selector}.private"]}


def key_data_dims(rows, thorough):
    """walk the combinations per (naming class, number of domains) so that every spelling meets every name set"""
    nth = {}
    for b in rows:
        c = b["cfg"]
        k = (c["tpl"], len(c["doms"]))
        i = nth[k] = nth.get(k, -1) + 1
        sp = SPELL[c["tpl"]]
        nsets = 3 if thorough else 2
        c["spell"] = sp[i % len(sp)]
        c["names"] = (i + i // len(sp)) % nsets      # diagonal walk: the next pass pairs a spelling with the next name set
        c["sel2"] = "{selector}" in c["spell"]


def kcfg(spec, ops, algos=("rsa2048", "ed25519"), devs=(), gen=False, tail="", wide=True):
    return KCFG % dict(wide="TRUE" if wide else "FALSE", spec=spec, ops=ops, algos=", ".join('"%s"' % a for a in algos),
                       devs=", ".join('"%s"' % d for d in devs), gen="TRUE" if gen else "FALSE", tail=tail)


def key_shape(b, fine):
    """stratum of a key history (features computed by the model, see Log in DkimKeys.tla)"""
    rots, signs = set(), set()
    for st in b["hist"]:
        if st["e"] == "Start":
            rots.update(st["rot"])
        elif st["e"] == "Sign":
            signs.add((st["sender"] if fine else "", st["signed"], st["g"] > 1))
    return (tuple(b["cfg"]["doms"]), b["cfg"]["sub"], b["cfg"]["tpl"], tuple(sorted(rots)), tuple(sorted(signs)))


def run_keys(ctx, replay_row=None):
    """key side of C08: DkimKeys.tla (key/record files over starts, rotation, signing domains)"""
    thorough = ctx.tier == "thorough"
    if replay_row is None:
        algos = ("rsa2048", "ed25519", "rsa4096") if thorough else ("rsa2048", "ed25519")
        r = ctx.tlc_expect_ok("DkimKeys", None, name="keys-mc", workers=8, timeout=1800,
                              cfg_text=kcfg("Spec", 6 if thorough else 5, algos=algos,
                                            tail="INVARIANTS SignedVerifies LoadedIsPublished TypeOK\n"))
        ctx.cov["states"] = ctx.cov.get("states", 0) + r["distinct"]
        ctx.cov["transitions"] = ctx.cov.get("transitions", 0) + r["generated"]
        ctx.log("TLC exhaustive (keys): %d states, %.1fs" % (r["distinct"], r["wall"]))
        from concurrent.futures import ThreadPoolExecutor
        with ThreadPoolExecutor(max_workers=2) as ex:
            futs = [(dev, ex.submit(ctx.tlc, "DkimKeys", None, name="keys-asis-" + dev, workers=2, timeout=300,
                                    cfg_text=kcfg("Spec", 4, devs=[dev],
                                                  tail="INVARIANTS SignedVerifies LoadedIsPublished\n")))
                    for dev in KDEVS]
            for dev, fut in futs:
                if fut.result()["invariant"] not in ("SignedVerifies", "LoadedIsPublished"):
                    raise vlib.Infra("key deviation %s is not caught by the model" % dev)
        ctx.cov["deviations_caught_by_model"] = ctx.cov.get("deviations_caught_by_model", []) + KDEVS
        g = ctx.tlc("DkimKeys", None, name="keys-gen", workers=1, timeout=900,
                    cfg_text=kcfg("GenSpec", 5, gen=True, wide=thorough))
        behs = [val for tag, val in g["printed"] if tag == "BEH"]
        if not g["ok"] or not behs:
            raise vlib.Infra("key history generation failed: %s %s" % (g["invariant"], g["error"]))
        import random
        rng = random.Random(ctx.seed * 7919 + 8)
        strata = {}
        for b in behs:
            strata.setdefault(key_shape(b, thorough), []).append(b)
        per = 1
        rows = []
        for k in sorted(strata, key=repr):
            for b in vlib.sample(rng, strata[k], per):
                rows.append(b)
        cap = 1500 if thorough else 64
        if len(rows) > cap:      # keep every stratum with a rotation, fill up with the rest
            rot = [b for b in rows if any(st["e"] == "Start" and st["rot"] for st in b["hist"])]
            rest = [b for b in rows if b not in rot]
            rows = vlib.sample(rng, rot, cap * 3 // 4)
            rows += vlib.sample(rng, rest, cap - len(rows))
        rows = [dict(b, id=900000 + i + 1) for i, b in enumerate(rows)]
        if not thorough:
            # the quick generation ran with Wide = FALSE (naming class "key" only, see DkimKeys.tla): the design
            # is the same for both classes, every second sampled history is replayed under a "bare" template;
            # DkimKeysTrace.tla validates it against the model with the class the harness logged
            for i, b in enumerate(rows):
                b["cfg"] = dict(b["cfg"], tpl="bare" if i % 2 else "key")
        key_data_dims(rows, thorough)
        comb = {}
        for b in rows:
            k = "%s names=%d domains=%d%s" % (b["cfg"]["spell"], b["cfg"]["names"], len(b["cfg"]["doms"]),
                                             " +second selector" if b["cfg"]["sel2"] else "")
            comb[k] = comb.get(k, 0) + 1
        ctx.cov["key_naming_combinations"] = comb
        ctx.cov["key_histories_generated"] = len(behs)
        ctx.cov["key_history_strata"] = len(strata)
    else:
        rows = [dict(replay_row, id=900001)]
    ctx.log("%d key histories" % len(rows))
    binary = ctx.build_harness("dkimcheck")
    events = ctx.run_shards(binary, rows, test="TestKeys", name="keys", shards=8)
    if any(e["e"] == "Timeout" for e in events):
        raise vlib.Infra("harness time-out waiting for the next hop (not a statement about maddy)")
    verdicts, by_t = ctx.validate("DkimKeysTrace", None, events, name="keys-trace",
                                  cfg_text=kcfg("TSpec", 1000, algos=("rsa2048", "ed25519", "rsa4096"),
                                                tail="POSTCONDITION Post\nCHECK_DEADLOCK FALSE\n"))
    by_id = {x["id"]: x for x in rows}
    ok = drift = 0
    for t in sorted(verdicts):
        v = verdicts[t][0]
        if v["viol"]:
            notes = [e.get("note", "") for e in by_t[t] if e["e"] == "Sign" and e["signed"] and not e["verified"]]
            for pn in v["viol"]:
                ctx.cov.setdefault("violated_predicates", {}).setdefault(pn, 0)
                ctx.cov["violated_predicates"][pn] += 1
            ctx.violation("DKIM keys " + ",".join(sorted(v["viol"])) + ": " + (notes[0] if notes else ""),
                          {"property": "C08", "keys": {k: by_id[t][k] for k in ("cfg", "hist")}, "observed": by_t[t],
                           "how": "bin/check C08 --replay <this file>"})
        elif v["drift"]:
            drift += 1
            print("DRIFT property=C08 key-history=%d first-unexplained-seq=%d" % (t, v["driftAt"]))
        else:
            ok += 1
    ctx.cov["key_histories_validated"] = ok
    ctx.cov["key_histories_drift"] = drift
    return len(rows), ok


def inductive(ctx):
    """Unbounded complement (thorough): DkimKeysInd.tla's inductive invariant discharged by Apalache.
    A failure of the tool is recorded, it never decides the property."""
    res = {}
    for nm, args in (("init_implies_inv", ["--cinit=CInit", "--init=Init", "--inv=IndInv", "--length=0"]),
                     ("inv_is_inductive", ["--cinit=CInit", "--init=IndInit", "--inv=IndInv", "--length=1"])):
        try:
            ok, tail = ctx.apalache("DkimKeysInd", args, name="apalache-" + nm, timeout=600)
        except Exception as e:
            ok, tail = False, str(e)
        res[nm] = "discharged" if ok else "NOT discharged: " + tail[-200:]
    ctx.cov["apalache_inductive_invariant"] = res
    ctx.log("Apalache inductive invariant (DkimKeysInd.tla): %s" % res)


def run(ctx, replay):
    thorough = ctx.tier == "thorough"
    if thorough and not replay:
        inductive(ctx)
    if replay and "keys" in json.load(open(replay)):
        run_keys(ctx, json.load(open(replay))["keys"])
        return
    if not replay:
        r = ctx.tlc_expect_ok("MsgShape", None, name="mc", workers=8, timeout=1800,
                              cfg_text=cfg("Spec", 3 if thorough else 2, 2, tail="INVARIANT RowOK\n",
                                           vias=ALL_VIAS if thorough else ("direct",)))
        if not thorough:      # the pipeline entries x a smaller shape space
            r2 = ctx.tlc_expect_ok("MsgShape", None, name="mc-via", workers=8, timeout=900,
                                   cfg_text=cfg("Spec", 1, 1, tail="INVARIANT RowOK\n"))
            r["distinct"] += r2["distinct"]
            r["generated"] += r2["generated"]
        # the h= layer: every field configuration (defaults / own lists x spelling x duplicate x expiry) x every
        # naming of up to 2 (thorough 3) fields over 9 names: each required tampering is detected
        rh = ctx.tlc_expect_ok("MsgShape", None, name="mc-h", workers=2, timeout=900,
                               cfg_text=cfg("HSpec", 3 if thorough else 2, 1, tail="INVARIANT HRowOK\n"))
        r["distinct"] += rh["distinct"]
        r["generated"] += rh["generated"]
        ctx.cov["states"], ctx.cov["transitions"] = r["distinct"], r["generated"]
        ctx.cov["field_configuration_states"] = rh["distinct"]
        ctx.log("TLC exhaustive: %d shapes, %.1fs" % (r["distinct"], r["wall"]))
        caught = []
        from concurrent.futures import ThreadPoolExecutor
        with ThreadPoolExecutor(max_workers=3) as ex:
            futs = [(dev, "RowOK", ex.submit(ctx.tlc, "MsgShape", None, name="asis-" + dev, workers=2, timeout=300,
                                             cfg_text=cfg("Spec", 1, 1, devs=[dev], tail="INVARIANT RowOK\n")))
                    for dev in DEVS]
            futs += [(dev, "HRowOK", ex.submit(ctx.tlc, "MsgShape", None, name="asis-" + dev, workers=2, timeout=300,
                                               cfg_text=cfg("HSpec", 2, 1, devs=[dev], tail="INVARIANT HRowOK\n")))
                     for dev in HDEVS]
            for dev, inv, fut in futs:
                if fut.result()["invariant"] != inv:
                    raise vlib.Infra("deviation %s is not caught by the model" % dev)
                caught.append(dev)
        ctx.cov["deviations_caught_by_model"] = caught
        n = 1500 if thorough else 160
        g = ctx.tlc("MsgShape", None, name="gen", workers=1, timeout=600, simulate=None,
                    cfg_text=cfg("GenSpec", 3, 3, n=n, tail="INVARIANT GenOK\n"),
                    )
        rows, seen = [], set()
        for tag, val in g["printed"]:
            if tag == "ROW":
                k = json.dumps(val, sort_keys=True)
                if k not in seen:
                    seen.add(k)
                    rows.append({"id": len(rows) + 1, "in": val})
        if not g["ok"] or not rows:
            raise vlib.Infra("row generation failed: %s %s" % (g["invariant"], g["error"]))
    else:
        rows = [json.load(open(replay))["row"]]
        rows[0]["id"] = 1
    ctx.log("%d rows" % len(rows))
    binary = ctx.build_harness("dkimcheck")
    events = ctx.run_shards(binary, rows, name="dkim", shards=8)
    if any(e["e"] == "Timeout" for e in events):
        raise vlib.Infra("harness time-out waiting for the next hop (not a statement about maddy)")
    evs = [e for e in events if e["e"] == "Row"]
    d = ctx.sub("trace")
    tf = d + "/trace.ndjson"
    with open(tf, "w") as f:
        for e in evs:
            f.write(json.dumps(e) + "\n")
    r = ctx.tlc("MsgShapeTrace", None, name="trace", workers=1, timeout=900,
                cfg_text=cfg("TSpec", 3, 3, tail="CHECK_DEADLOCK FALSE\n"))
    if not r["ok"]:
        raise vlib.Infra("row evaluation failed: %s %s (see %s)" % (r["invariant"], r["error"], r["dir"]))
    verdicts = None
    for tag, val in r["printed"]:
        if tag == "VERDICTS":
            verdicts = val
    if verdicts is None or len(verdicts) != len(evs):
        raise vlib.Infra("VERDICTS missing or incomplete")
    by_id = {x["id"]: x for x in rows}
    by_t = {e["t"]: e for e in evs}
    ok = drift = 0
    preds = {}
    for v in sorted(verdicts, key=lambda x: x["t"]):
        if v["viol"]:
            for p in v["viol"]:
                preds[p] = preds.get(p, 0) + 1
            ctx.violation("DKIM " + ",".join(sorted(v["viol"])) + ": " + by_t[v["t"]]["out"].get("note", ""),
                          {"property": "C08", "row": by_id[v["t"]], "observed": by_t[v["t"]],
                           "how": "bin/check C08 --replay <this file>"})
        elif v["drift"]:
            drift += 1
            print("DRIFT property=C08 row=%d bytes changed on the way although the signature verifies" % v["t"])
        else:
            ok += 1
    nk = kok = 0
    if not replay:
        nk, kok = run_keys(ctx)
    ctx.cov["traces_validated_against_impl"] = ok + kok
    ctx.cov["drift_traces"] = drift
    ctx.cov["evaluations"] = len(rows) + nk
    ctx.cov["distinct_nontrivial"] = sum(1 for x in rows if len(x["in"]["hdr"]) + len(x["in"]["body"]) >= 2)
    ctx.cov["rows_with_own_field_lists"] = sum(1 for x in rows if x["in"].get("fc", {}).get("custom"))
    ctx.cov["tamperings_judged"] = sum(len(e["out"].get("tampers", [])) for e in evs)
    ctx.cov["rule"] = ("row = message shape drawn by TLC (RandomElement, -seed) from the shape space of MsgShape.tla, "
                       "de-duplicated; non-trivial = at least two header/body atoms")
    for k, v in preds.items():
        ctx.cov.setdefault("violated_predicates", {})[k] = ctx.cov.get("violated_predicates", {}).get(k, 0) + v
    ctx.cov.setdefault("violated_predicates", {})
    ctx.cov["samples"] = [by_t[t] for t in sorted(by_t)[:3]]
    ctx.assumptions += [
        "bounded shape space of feature classes, not all RFC 5322 messages; concretisation table in the harness",
        "independent verifier implements RFC 6376 for rsa-sha256/ed25519-sha256 without l=; go-msgauth as second opinion",
        "next hop = go-smtp server on loopback (transparency decoding is its); harness time-outs are exit 2",
    ]


META = {
    "engine": "dkimcheck",
    "level": "model_checking",
    "technique": "TLA+ spec MsgShape.tla (message shapes, DKIM canonicalisation over feature classes, stage functions) "
                 "model-checked by TLC; TLC-drawn shapes signed/spooled/restarted/transmitted by the real code; rows "
                 "evaluated by TLC (MsgShapeTrace.tla)",
    "text": "TLC decides for every shape in the bound whether a signature survives the modelled stages and that stage "
            "deviations are caught; seeded TLC-drawn shapes are run through the real signer, queue (store, restart, "
            "reload) and SMTP client, verified at the next hop by an independent verifier and go-msgauth, and tampered "
            "copies (removed, altered, added over-signed field) must fail; TLC evaluates the property on the rows.",
    "note": "Encode/decode fidelity is the technique's weak spot: TLA+ supplies the shape space and stage contracts, the "
            "byte-level canonicalisation and cryptography are harness code / standard library. Bounded, not all messages.",
    "design_ref": "DESIGN.md section 5 C08",
}
