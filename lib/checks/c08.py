"""C08 - DKIM signatures made by maddy verify at the next hop after spooling and SMTP.

(T) MsgShape.tla: messages as sequences of header/body feature classes, DKIM canonicalisation
    written over the classes, the stages of a message's life as functions on the abstract
    message; TLC checks for every shape in the bound that the signature survives the stages
    (and that each named stage deviation is caught for some shape).
(B) TLC draws seeded random shapes; the harness concretises them to bytes, signs with the real
    modify.dkim, stores in the real queue, restarts the queue, delivers through the real
    target.smtp client to a next hop, and verifies what arrived with an independent verifier
    (harness/dkimcheck/indep.go) and with go-msgauth; tampered copies must fail. TLC evaluates
    the property over the recorded rows (MsgShapeTrace.tla).
"""
import json

import vlib

CFG = """SPECIFICATION %(spec)s
CONSTANTS
  MaxFields = %(f)d
  MaxLines = %(l)d
  Devs = {%(devs)s}
  GenN = %(n)d
%(tail)s
"""
DEVS = ["RefoldOnSpool", "StripTrailingWS", "LoseDotStuffing", "LowercaseNames"]


def cfg(spec, f, l, n=0, devs=(), tail=""):
    return CFG % dict(spec=spec, f=f, l=l, n=n, devs=", ".join('"%s"' % d for d in devs), tail=tail)


def run(ctx, replay):
    thorough = ctx.tier == "thorough"
    if not replay:
        r = ctx.tlc_expect_ok("MsgShape", None, name="mc", workers=8, timeout=1800,
                              cfg_text=cfg("Spec", 3 if thorough else 2, 2, tail="INVARIANT RowOK\n"))
        ctx.cov["states"], ctx.cov["transitions"] = r["distinct"], r["generated"]
        ctx.log("TLC exhaustive: %d shapes, %.1fs" % (r["distinct"], r["wall"]))
        caught = []
        for dev in DEVS:
            ra = ctx.tlc("MsgShape", None, name="asis-" + dev, workers=2, timeout=300,
                         cfg_text=cfg("Spec", 1, 1, devs=[dev], tail="INVARIANT RowOK\n"))
            if ra["invariant"] != "RowOK":
                raise vlib.Infra("stage deviation %s is not caught by the model" % dev)
            caught.append(dev)
        ctx.cov["deviations_caught_by_model"] = caught
        n = 1500 if thorough else 160
        g = ctx.tlc("MsgShape", None, name="gen", workers=1, timeout=600, simulate=None,
                    cfg_text=cfg("GenSpec", 3, 3, n=n, tail="INVARIANT GenOK\n"),
                    )
        rows, seen = [], set()
        for tag, val in g["printed"]:
            if tag == "ROW":
                k = json.dumps(val, sort_keys=True)
                if k not in seen:
                    seen.add(k)
                    rows.append({"id": len(rows) + 1, "in": val})
        if not g["ok"] or not rows:
            raise vlib.Infra("row generation failed: %s %s" % (g["invariant"], g["error"]))
    else:
        rows = [json.load(open(replay))["row"]]
        rows[0]["id"] = 1
    ctx.log("%d rows" % len(rows))
    binary = ctx.build_harness("dkimcheck")
    events = ctx.run_shards(binary, rows, name="dkim", shards=8)
    if any(e["e"] == "Timeout" for e in events):
        raise vlib.Infra("harness time-out waiting for the next hop (not a statement about maddy)")
    evs = [e for e in events if e["e"] == "Row"]
    d = ctx.sub("trace")
    tf = d + "/trace.ndjson"
    with open(tf, "w") as f:
        for e in evs:
            f.write(json.dumps(e) + "\n")
    r = ctx.tlc("MsgShapeTrace", None, name="trace", workers=1, timeout=900,
                cfg_text=cfg("TSpec", 3, 3, tail="CHECK_DEADLOCK FALSE\n"))
    if not r["ok"]:
        raise vlib.Infra("row evaluation failed: %s %s (see %s)" % (r["invariant"], r["error"], r["dir"]))
    verdicts = None
    for tag, val in r["printed"]:
        if tag == "VERDICTS":
            verdicts = val
    if verdicts is None or len(verdicts) != len(evs):
        raise vlib.Infra("VERDICTS missing or incomplete")
    by_id = {x["id"]: x for x in rows}
    by_t = {e["t"]: e for e in evs}
    ok = drift = 0
    preds = {}
    for v in sorted(verdicts, key=lambda x: x["t"]):
        if v["viol"]:
            for p in v["viol"]:
                preds[p] = preds.get(p, 0) + 1
            ctx.violation("DKIM " + ",".join(sorted(v["viol"])) + ": " + by_t[v["t"]]["out"].get("note", ""),
                          {"property": "C08", "row": by_id[v["t"]], "observed": by_t[v["t"]],
                           "how": "bin/check C08 --replay <this file>"})
        elif v["drift"]:
            drift += 1
            print("DRIFT property=C08 row=%d bytes changed on the way although the signature verifies" % v["t"])
        else:
            ok += 1
    ctx.cov["traces_validated_against_impl"] = ok
    ctx.cov["drift_traces"] = drift
    ctx.cov["evaluations"] = len(rows)
    ctx.cov["distinct_nontrivial"] = sum(1 for x in rows if len(x["in"]["hdr"]) + len(x["in"]["body"]) >= 2)
    ctx.cov["rule"] = ("row = message shape drawn by TLC (RandomElement, -seed) from the shape space of MsgShape.tla, "
                       "de-duplicated; non-trivial = at least two header/body atoms")
    ctx.cov["violated_predicates"] = preds
    ctx.cov["samples"] = [by_t[t] for t in sorted(by_t)[:3]]
    ctx.assumptions += [
        "bounded shape space of feature classes, not all RFC 5322 messages; concretisation table in the harness",
        "independent verifier implements RFC 6376 for rsa-sha256/ed25519-sha256 without l=; go-msgauth as second opinion",
        "next hop = go-smtp server on loopback (transparency decoding is its); harness time-outs are exit 2",
    ]


META = {
    "engine": "dkimcheck",
    "level": "model_checking",
    "technique": "TLA+ spec MsgShape.tla (message shapes, DKIM canonicalisation over feature classes, stage functions) "
                 "model-checked by TLC; TLC-drawn shapes signed/spooled/restarted/transmitted by the real code; rows "
                 "evaluated by TLC (MsgShapeTrace.tla)",
    "text": "TLC decides for every shape in the bound whether a signature survives the modelled stages and that stage "
            "deviations are caught; seeded TLC-drawn shapes are run through the real signer, queue (store, restart, "
            "reload) and SMTP client, verified at the next hop by an independent verifier and go-msgauth, and tampered "
            "copies (removed, altered, added over-signed field) must fail; TLC evaluates the property on the rows.",
    "note": "Encode/decode fidelity is the technique's weak spot: TLA+ supplies the shape space and stage contracts, the "
            "byte-level canonicalisation and cryptography are harness code / standard library. Bounded, not all messages.",
    "design_ref": "DESIGN.md section 5 C08",
}
