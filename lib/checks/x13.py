"""X13 - message preparation on the Submission endpoint and the header fields every SMTP / LMTP endpoint adds.

(S) spec/MsgPrepare.tla: decision table (pattern B) - session kind (endpoint module, STARTTLS, AUTH, SMTPUTF8,
    EHLO spelling, reverse lookup, hostname, reverse-path, max_received, what happened to the previous message
    of the session) x header shape (Message-ID, From, Sender, To/Cc/Bcc/Reply-To, Date, Received count, sizes);
    the property as nine named predicates (Prop), the procedure of the code step by step (RuleD) with the
    code's deviations as named switches (Devs).
(T) TLC enumerates every row, checks Prop(in, Rule(in)) and the round trip of the projection, prints the rows
    with the concrete message each stands for; one as-is run per deviation must violate Prop.
(B) harness/prepcheck sends every row through the real endpoint (go-smtp server, Session.Data / LMTPData,
    submissionPrepare, the msgpipeline that adds Received) over loopback TCP and records the reply and the
    message as the delivery target received it; spec/MsgPrepareTrace.tla evaluates the predicates on it.
"""
import json
import os

import vlib
import vtable

PID = "X13"
ALL_DEVS = ["Utf8Keyword", "MsgSizeInternalError"]

MC_CFG = """SPECIFICATION Spec
CONSTANTS
  Full = %(full)s
  Devs = {%(devs)s}
  Gen = %(gen)s
INVARIANTS %(inv)s
%(emit)s
CHECK_DEADLOCK FALSE
"""

TRACE_CFG = """SPECIFICATION TSpec
CONSTANTS
  Full = TRUE
  Devs = {}
  Gen = FALSE
  OpenDevs = {%(open)s}
CHECK_DEADLOCK FALSE
POSTCONDITION Post
"""


def q(names):
    return ", ".join('"%s"' % n for n in sorted(names))


def ext_entries():
    p = os.environ.get("VERIF_EXT_FINDINGS") or os.path.join(vlib.VERIF, "extensions", "findings.json")
    if not os.path.exists(p):
        return []
    return [f for f in json.load(open(p)).get("findings", []) if f.get("ext") == PID]


def short(i):
    s, h = i["s"], i["h"]
    return "%s%s%s%s helo=%s rdns=%s host=%s sender=%s max_received=%s prev=%s | msgid=%s from=%s sender=%s %s=%s date=%s nrecv=%d size=%s" % (
        s["ep"], "+tls" if s["tls"] else "", "+auth" if s["auth"] else "", "+utf8" if s["utf8"] else "", s["helo"], s["rdns"],
        s["host"], s["sender"], s["maxrecv"] or "default", s["prev"], h["msgid"], h["from"], h["sender"], h["addr"]["f"],
        h["addr"]["k"], h["date"], h["nrecv"], h["size"])


def brief_out(o):
    return {"stage": o["stage"], "code": o["code"], "ench": o["ench"], "delivered": o["delivered"],
            "fields": [[f["k"], f["v"][:60], f["q"]] for f in o["fields"][:6]], "rc": o["rc"], "bodyOk": o["bodyOk"],
            "metaId": o["metaId"], "prevId": o["prevId"]}


def nontrivial(row):
    return row["must"] != "accept" or row["in"]["s"]["ep"] == "submission"


def run(ctx, replay):
    thorough = ctx.tier == "thorough"
    entries = ext_entries()
    open_by_dev = {e["match"]["deviation"]: e for e in entries
                   if e.get("status", "open") == "open" and "deviation" in e.get("match", {})}

    # ---- (T) + rows ---------------------------------------------------------
    if replay:
        obj = json.load(open(replay))
        if "row" not in obj or "in" not in obj["row"]:
            raise vlib.Infra("replay file is not a row of MsgPrepare.tla")
        rows = [obj["row"]]
        rows[0]["id"] = 1
    else:
        full = "TRUE" if thorough else "FALSE"
        r = ctx.tlc_expect_ok("MsgPrepare", None, name="mc", workers=4, timeout=900, coverage=thorough,
                              cfg_text=MC_CFG % dict(full=full, devs="", gen="TRUE",
                                                     inv="RuleSatisfiesProp RuleRoundTrip", emit="CONSTRAINT Emit"))
        rows = vtable.rows_from(r)
        if len(rows) != r["distinct"]:
            raise vlib.Infra("TLC printed %d distinct rows for %d states" % (len(rows), r["distinct"]))
        ctx.cov["states"] = r["distinct"]
        ctx.cov["transitions"] = r["generated"]
        ctx.cov["model_depth"] = r["depth"]
        ctx.log("TLC: %d input rows; Prop(in, Rule(in)) holds on all, %.1fs" % (r["distinct"], r["wall"]))
        for dev in ALL_DEVS:
            ra = ctx.tlc("MsgPrepare", None, name="asis-" + dev, workers=2, timeout=600,
                         cfg_text=MC_CFG % dict(full="FALSE", devs=q([dev]), gen="FALSE", inv="AsIsSatisfiesProp", emit=""))
            if ra["invariant"] != "AsIsSatisfiesProp":
                raise vlib.Infra("as-is model (%s) does not violate the property: predicates vacuous? (%s)" % (dev, ra["error"]))
        ctx.cov["asis_counterexamples_found"] = ALL_DEVS
    sel = rows          # every row goes through the real code in both tiers (a few ms each)
    by_id = {row["id"]: row for row in sel}

    # ---- (B) the real code ------------------------------------------------------
    binary = ctx.build_harness("prepcheck")
    items = [{"id": row["id"], "in": row["in"]} for row in sel]
    if not replay:
        ctx.rng.shuffle(items)      # endpoints serve many rows: every seed is another history for them
    events = ctx.run_shards(binary, items, shards=4, timeout=900,
                            env_extra={"VERIF_SHOW": "1"} if replay else None)
    events = [e for e in events if e["e"] == "Row"]
    ctx.log("real code answered %d rows" % len(events))
    if len(events) != len(sel):
        raise vlib.Infra("harness answered %d of %d rows" % (len(events), len(sel)))
    ev_by_t = {e["t"]: e for e in events}

    # binding self-test: forged outputs must be rejected and not explained by a deviation
    selftest = {}
    if not replay:
        def forge(t, pred, chg):
            for e in events:
                if pred(by_id[e["t"]], e):
                    f = json.loads(json.dumps(e))
                    f["t"] = t
                    chg(f["out"])
                    return f
            return None

        def acc(row, e):
            return e["out"]["delivered"] == 1 and row["in"]["tab"] == "sess" and not row["in"]["s"]["utf8"]

        def set_rc(**kw):
            return lambda o: o["rc"].update(kw)

        def drop_last(o):
            o["fields"] = o["fields"][:-1]

        def swap_top(o):
            o["fields"] = o["fields"][1:2] + o["fields"][0:1] + o["fields"][2:]

        forged = [
            (900001, "with keyword of a plaintext session turned into ESMTPS",
             forge(900001, lambda row, e: acc(row, e) and e["out"]["rc"]["with"] == "ESMTP", set_rc(**{"with": "ESMTPS"}))),
            (900002, "client address shown on Submission",
             forge(900002, lambda row, e: acc(row, e) and row["in"]["s"]["ep"] == "submission", set_rc(ip="127.0.0.1"))),
            (900003, "last original field lost", forge(900003, acc, drop_last)),
            (900004, "Received below a generated field",
             forge(900004, lambda row, e: acc(row, e) and row["in"]["s"]["ep"] == "submission" and row["in"]["h"]["msgid"] == "absent", swap_top)),
            (900005, "refused message delivered",
             forge(900005, lambda row, e: e["out"]["stage"] == "data", lambda o: o.update(delivered=1))),
            (900006, "id of the trace field differs from the message id",
             forge(900006, acc, set_rc(id="00000000"))),
            (900007, "loop refusal answered 451",
             forge(900007, lambda row, e: e["out"]["ench"] == "5.4.6", lambda o: o.update(code=451, ench="4.4.6"))),
        ]
        for t, what, f in forged:
            if f is None:
                continue        # the code under test produced no row of that kind: that is for the predicates to say
            selftest[t] = what
            events = events + [f]
        if len(selftest) < 3:
            raise vlib.Infra("binding self-test: only %d base rows for forged outputs" % len(selftest))
        # a row that is not a row of the specification (one string of the message changed) is not judged
        f = json.loads(json.dumps(events[0]))
        f["t"] = 900008
        f["in"]["msg"] = f["in"]["msg"] + [{"k": "X-Extra", "v": "1"}]
        selftest[900008] = "row that is not a row of the specification"
        events = events + [f]

    verdicts, accepted = vtable.validate_rows(ctx, "MsgPrepareTrace", TRACE_CFG % dict(open=q(open_by_dev)),
                                              events, batch=700, par=4, timeout=900)
    ctx.log("TLC evaluated %d recorded rows: %d accepted as conforming" % (len(events), accepted))
    for t, what in selftest.items():
        v = verdicts.get(t)
        if not v or not v["viol"] or v["devs"]:
            raise vlib.Infra("binding self-test failed: forged row (%s) was accepted or explained by a deviation" % what)
        del verdicts[t]
    if selftest:
        ctx.cov["binding_selftest"] = "forged rows rejected: " + "; ".join(selftest.values())

    # ---- verdicts ------------------------------------------------------------------
    drift, finding_rows, preds = 0, {}, {}
    for t, v in sorted(verdicts.items()):
        row, ev = by_id[t], ev_by_t[t]
        o = ev["out"]
        if "UnknownRow" in v["viol"]:
            raise vlib.Infra("row %d came back changed from the harness (not a row of MsgPrepare.tla)" % t)
        devsets = sorted((sorted(d) for d in v["devs"]), key=lambda d: (len(d), d))
        minimal = devsets[0] if devsets else None
        explained = minimal is not None and all(d in open_by_dev for d in minimal)
        if explained and v["viol"]:
            allowed = set()
            for d in minimal:
                allowed |= set(open_by_dev[d]["match"].get("predicates", []))
            explained = set(v["viol"]) <= allowed
        if v["viol"] and not explained:
            for p in v["viol"]:
                preds[p] = preds.get(p, 0) + 1
            what = "message preparation violates %s: %s -> %s" % (
                ",".join(sorted(v["viol"])), short(row["in"]), json.dumps(brief_out(o))[:700])
            ctx.violation(what, {"property": PID, "row": row, "out": o, "violated": sorted(v["viol"]),
                                 "how": "bin/check X13 --replay <this file>"})
        elif explained:
            for d in minimal:
                e = open_by_dev[d]
                k = finding_rows.setdefault(e["id"], {"rows": 0, "violating_rows": 0, "predicates": {},
                                                      "example": None, "what": e["what"]})
                k["rows"] += 1
                if v["viol"]:
                    k["violating_rows"] += 1
                    for p in v["viol"]:
                        k["predicates"][p] = k["predicates"].get(p, 0) + 1
                    if k["example"] is None:
                        k["example"] = {"in": short(row["in"]), "out": brief_out(o), "expected": row["exp"],
                                        "violated": sorted(v["viol"])}
        else:
            drift += 1
            if drift <= 10:
                print("DRIFT property=X13 row=%d %s out=%s expected=%s" % (
                    t, short(row["in"]), json.dumps(brief_out(o))[:500], json.dumps(row.get("exp"))))
    if replay:
        o = events[0]["out"]
        v = verdicts.get(events[0]["t"])
        print("REPLAY ext=X13 row: %s" % short(rows[0]["in"]))
        print("REPLAY ext=X13 real code: %s" % json.dumps(o))
        print("REPLAY ext=X13 procedure: %s" % json.dumps(rows[0].get("exp")))
        print("REPLAY ext=X13 verdict of TLC: %s" % (
            "conforms" if v is None else "violated=%s differs-from-procedure=%s explained-by-deviations=%s" % (
                sorted(v["viol"]), v["drift"], sorted(sorted(d) for d in v["devs"]))))
    for fid, k in sorted(finding_rows.items()):
        print("EXT-FINDING: ext=%s %s %s (%d rows, %d violating)" % (PID, fid, k["what"], k["rows"], k["violating_rows"]))
    ctx.cov["traces_validated_against_impl"] = accepted
    ctx.cov["drift_traces"] = drift
    ctx.cov["ext_finding_rows"] = finding_rows
    ctx.cov["evaluations"] = len(sel)
    ctx.cov["distinct_nontrivial"] = sum(1 for row in sel if nontrivial(row))
    tabs = {}
    for row in sel:
        tabs[row["in"]["tab"]] = tabs.get(row["in"]["tab"], 0) + 1
    ctx.cov["rows_by_table"] = tabs
    ctx.cov["violated_predicates"] = preds
    ctx.cov["exhaustive"] = True
    ctx.cov["rule"] = ("rows = states of MsgPrepare.tla (one per input): sess (every session kind x a complete and a bare "
                       "header), hdr (Submission x Message-ID x From x Sender x Date shapes), addr (To/Cc/Bcc/Reply-To x "
                       "absent/ok/list/bad), plain (the same shapes on smtp / lmtp), loop (Received count around "
                       "max_received, configured 3 and default 50), size (header / message around max_header_size / "
                       "max_message_size), prev (a delivered or refused message earlier in the session); every row runs "
                       "through the real endpoint in both tiers; non-trivial = Submission, or a row that must be refused "
                       "or is left open")
    for tab in ("sess", "hdr", "loop", "size", "prev"):
        c = [row for row in sel if row["in"]["tab"] == tab]
        if c:
            row = c[len(c) // 3]
            ctx.cov["samples"].append({"in": short(row["in"]), "expected": row["exp"],
                                       "out": brief_out(ev_by_t[row["id"]]["out"])})
    ctx.assumptions += [
        "the client is a raw line client on loopback TCP (127.0.0.1); STARTTLS with a certificate injected through "
        "verif_export_prepare.go; AUTH PLAIN against a one-user provider; the reverse lookup is answered by a scripted "
        "resolver (name / NXDOMAIN / temporary failure)",
        "the header at the target is written with go-message's textproto.WriteHeader and split into fields by the "
        "harness; the top Received field is cut into its clauses with one regular expression; U-labels come back as "
        "A-labels plus a mark",
        "'now' = inside the interval of the row's run +-2 s on the harness's own clock",
        "TLC 1.8.0, CommunityModules Json",
    ]


META = {
    "engine": "prepcheck",
    "level": "model_checking",
    "technique": "TLA+ spec MsgPrepare.tla (property predicates, procedure, named deviations) enumerated by TLC; every row "
                 "sent through the real smtp / submission / lmtp endpoint over loopback TCP into a recording delivery "
                 "target; recorded reply and message evaluated by TLC (MsgPrepareTrace.tla)",
    "statement": "For every session on an smtp, submission or lmtp endpoint - with or without STARTTLS, authenticated or "
                 "not, with or without SMTPUTF8, any spelling of the EHLO name (plain, A-labels, address literal), any "
                 "answer of the reverse lookup (a name, an internationalized name, NXDOMAIN, a temporary failure), a plain "
                 "or internationalized hostname and reverse-path or the null reverse-path, max_received configured or "
                 "default, a delivered or refused message earlier in the same session - and every message header "
                 "(Message-ID present, absent, lower-case key; From absent, empty, one or several mailboxes, display "
                 "names, group, A-label or U-label domain, unparsable; Sender absent, valid, unparsable; To / Cc / Bcc / "
                 "Reply-To absent, one, a list, unparsable; Date absent, in any RFC 5322 form, with a comment, "
                 "unparsable; 0 to max_received+4 Received fields; header and message sizes on both sides of "
                 "max_header_size / max_message_size): (1) the client gets one final reply and the message is handed to "
                 "the delivery target exactly once iff that reply is 2xx; (2) a message is refused with a permanent error "
                 "exactly when the header exceeds max_header_size, the message exceeds max_message_size, it carries more "
                 "than max_received Received fields (554 5.4.6), or - on Submission only - From is missing, an address in "
                 "From / Sender / To / Cc / Bcc / Reply-To is incorrect, From has several mailboxes without Sender, or "
                 "Date is malformed (554, 5.6.0 for the address cases); smtp and lmtp do no such preprocessing; (3) "
                 "Submission adds Message-ID (<unique@hostname>) and Date (the current time) exactly when missing and "
                 "never replaces one; (4) every accepted message gets exactly one new Received field, above everything "
                 "else, whose by is the endpoint's hostname, whose with is the IANA keyword of the protocol actually used "
                 "(ESMTP / ESMTPS / LMTP, the SMTPUTF8 names UTF8SMTP[S] / UTF8LMTP with SMTPUTF8; S iff TLS; the A of an "
                 "authenticated session optional), whose id is the message id maddy logs and whose date is current; it "
                 "names the EHLO name, the PTR name iff there is one and the client address - except on Submission, "
                 "where none of them appears; no U-label is written unless SMTPUTF8 was requested; (5) everything the "
                 "client sent - fields, order, bytes, body - is below the added fields unchanged, and nothing of an "
                 "earlier message of the session (fields, id) appears in a later one.",
    "text": "TLC enumerates the rows of MsgPrepare.tla (1.9k quick, 3k+ thorough), checks the nine predicates on the "
            "procedure for every row and evaluates the same predicates on the reply and on the message the delivery target "
            "received from the real endpoint for every row.",
    "note": "Checks / modifiers of the pipeline, DKIM signing, BDAT, several recipients, the queue and the Received "
            "field of locally generated messages are outside; the clock of generated dates is the harness's wall clock.",
    "design_ref": "extensions/X13.md",
}
