"""C05 - outbound mail is only sent over connections that satisfy the security policy.

(T) TLC checks Remote.tla exhaustively: every combination of enabled policies
    (mtasts, dane, dnssec, local_policy x min levels), override switch, message
    flags and per-MX facts inside the bound, histories of up to 3 messages to
    the same domain sharing the connection cache; invariant NoViolation is the
    statement itself (RemoteObs.PolicyOK evaluated whenever content reaches an
    MX, DiscoveryFailure => not a permanent failure).
(B) TLC-generated behaviours (configuration + facts + message history) are
    replayed on the real remote.Target against scripted SMTP servers (loopback
    TCP, certificates of each class), a go-mockdns server with AD-bit control
    and an injected MTA-STS fetch; the recorded traces are validated against
    RemoteTrace.tla, which evaluates the same predicates on what the servers saw.
"""
import concurrent.futures
import json
import os

import vlib

ALL_CN = ("no", "sec", "half", "insec")
KEEP = {"Cfg", "Msg", "Quar", "Lookup", "StsLookup", "SrvConn", "SrvData", "Ret", "End"}

CFG = """SPECIFICATION %(spec)s
CONSTANTS
  PolSets <- %(polsets)s
  MinTLSSet = {%(mintls)s}
  MinMXSet = {%(minmx)s}
  OverrideSet = {%(override)s}
  StsSet = {%(sts)s}
  StlsCert <- %(stlscert)s
  TlsaSet <- %(tlsa)s
  NMXSet = {%(nmx)s}
  MsgKinds <- %(kinds)s
  MaxMsgs = %(maxmsgs)d
  WithDNSFail = %(dnsfail)s
  SlowSet = {%(slow)s}
  CnSet = {%(cn)s}
  QuitSet = {%(quit)s}
  ResSet <- %(res)s
  Devs = {%(devs)s}
  Gen = %(gen)s
%(tail)s
"""

MC_TAIL = "VIEW View\nINVARIANTS NoViolation TypeOK LevelsAgree\n"
GEN_TAIL = "CHECK_DEADLOCK FALSE\n"
TRACE_TAIL = "CHECK_DEADLOCK FALSE\nPOSTCONDITION Post\n"


def q(xs):
    return ", ".join('"%s"' % x for x in xs)


def cfg(spec="Spec", polsets="AllPolSets", mintls=(0, 1, 2), minmx=(0, 1, 2), override=("TRUE", "FALSE"),
        sts=("none", "testing", "enforce"), stlscert="AllStlsCert", tlsa="AllTlsa", nmx=(1,), kinds="Kinds4",
        maxmsgs=3, dnsfail=True, slow=("FALSE",), cn=("no",), quit=("bye",), res="LocalRes", devs=(), gen=False,
        tail=MC_TAIL):
    return CFG % dict(spec=spec, polsets=polsets, mintls=", ".join(map(str, mintls)),
                      minmx=", ".join(map(str, minmx)), override=", ".join(override), sts=q(sts),
                      stlscert=stlscert, tlsa=tlsa, nmx=", ".join(map(str, nmx)), kinds=kinds,
                      maxmsgs=maxmsgs, dnsfail="TRUE" if dnsfail else "FALSE", slow=", ".join(slow), cn=q(cn), quit=q(quit), res=res, devs=q(devs),
                      gen="TRUE" if gen else "FALSE", tail=tail)


def open_findings():
    """Open known findings of C05 (known_findings.d/C05.json is the source; the merged
    known_findings.json is generated from it)."""
    p = os.path.join(os.environ.get("VERIF_KNOWN_DIR") or os.path.join(vlib.VERIF, "known_findings.d"), "C05.json")
    if os.path.exists(p):
        fs = json.load(open(p)).get("findings", [])
    else:
        fs = vlib.load_known("C05")
    return [f for f in fs if f.get("property") == "C05" and f.get("status", "open") == "open"]


def behaviours_from(r):
    return [{"cfg": v["cfg"], "msgs": v["msgs"]} for tag, v in r["printed"] if tag == "BEH"]


def dedup(behs):
    seen, out = set(), []
    for b in behs:
        b["cfg"]["pols"] = sorted(b["cfg"]["pols"])
        for r in b["cfg"].get("res", []):
            r["fail"] = sorted(r["fail"])
        key = json.dumps([b["cfg"], b["msgs"]], sort_keys=True)
        if key not in seen:
            seen.add(key)
            out.append(b)
    for i, b in enumerate(out):
        b["id"] = i + 1
    return out


def cfg_key(b):
    """The configuration without the per-MX facts that do not enter the policies' own decisions."""
    c = b["cfg"]
    return json.dumps([c["pols"], c["minTLS"], c["minMX"], c["sts"], c["adMX"], c.get("res"),
                       [f["stsMatch"] for f in c["mx"]]], sort_keys=True)


def per_group(rng, behs, key, n):
    """Quick tier: n behaviours of every group (complete in thorough)."""
    groups = {}
    for b in behs:
        groups.setdefault(key(b), []).append(b)
    out = []
    for _, v in sorted(groups.items()):
        out += vlib.sample(rng, v, n) if len(v) > n else v
    return out


PER_GROUP = {"gen-res": (cfg_key, 2), "gen-late": (cfg_key, 5)}


def nontrivial(b):
    c = b["cfg"]
    return bool(c["pols"]) and (any(m["reqtls"] or m["tlsno"] or m["quar"] or m.get("mailfail") or m.get("qlate") or
                                    m.get("late", "no") != "no" for m in b["msgs"]) or
                                len(c.get("res", [])) > 1 or any(not r["loop"] for r in c.get("res", [])) or
                                any(f["stls"] != "offered" or f["cert"] != "valid" or
                                    f["tlsa"] not in ("insecure", "none") or f.get("cn", "no") != "no" for f in c["mx"]))


def run(ctx, replay):
    thorough = ctx.tier == "thorough"
    known = open_findings()
    open_devs = sorted({f["match"]["deviation"] for f in known if f.get("match", {}).get("deviation")})

    if os.environ.get("VERIF_ONLY_REPOTESTS"):             # development aid: only the hook traces of the repo's tests
        import checks.remote_hooks as rh
        ctx.cov["traces_validated_against_impl"] = rh.remote_policy_traces(
            ctx, "C05", cfg(spec="TSpec", nmx=(1, 2), kinds="Kinds5", slow=("TRUE", "FALSE"), cn=ALL_CN,
                            maxmsgs=6, devs=(), tail=TRACE_TAIL))
        return
    # ---- (T) exhaustive model checking of the design ------------------------------
    skip_mc = bool(os.environ.get("VERIF_DEV_SKIP_MC"))   # development aid only (mutation drills)
    if skip_mc:
        ctx.notes.append("VERIF_DEV_SKIP_MC set: exhaustive model checking skipped in this run")
    if not replay and not skip_mc:
        w = 8
        if thorough:
            runs = [("mc1", cfg(nmx=(1,), kinds="Kinds5", maxmsgs=3)),
                    ("mc2", cfg(nmx=(2,), stlscert="AllStlsCert", tlsa="SmallTlsa", kinds="Kinds4",
                                maxmsgs=3, dnsfail=False, slow=("TRUE", "FALSE")))]
        else:
            runs = [("mc1", cfg(nmx=(1,), kinds="Kinds4", maxmsgs=3)),
                    ("mc2", cfg(nmx=(2,), mintls=(0, 2), minmx=(0, 1), override=("TRUE",), sts=("none", "enforce"),
                                stlscert="QuickStlsCert", tlsa="QuickTlsa", maxmsgs=3, dnsfail=False,
                                slow=("TRUE", "FALSE")))]
        # per-message facts: MAIL refused with the session healthy, quarantined after RCPT x body path
        runs.append(("mc-msg", cfg(nmx=(1,), stlscert="QuickStlsCert", tlsa="AllTlsa" if thorough else "QuickTlsa",
                                   kinds="KindsAll", maxmsgs=3, dnsfail=False)))
        # TLSA discovery through a CNAME (RFC 7672 2.2.2): canonical name x original name outcomes
        runs.append(("mc-cname", cfg(polsets="DaneOnly", mintls=(0, 1, 2), minmx=(0,), override=("TRUE",),
                                     stlscert="QuickStlsCert", tlsa="AllTlsa" if thorough else "CnameTlsa", nmx=(1,),
                                     kinds="Kinds3", maxmsgs=2, dnsfail=False, cn=ALL_CN)))
        # the resolver list of the DNSSEC-aware stub resolver (loopback / not, a fault per resolver and query
        # class) x the policies whose verdict rests on AD flags
        runs.append(("mc-res", cfg(polsets="AdPolSets", mintls=(0, 2), minmx=(0, 2), override=("TRUE",),
                                   stlscert="AdStlsCert", tlsa="AllTlsa" if thorough else "AdTlsa", nmx=(1,),
                                   kinds="KindsRes", maxmsgs=2, dnsfail=False, res="AllRes")))
        states = trans = depth = 0
        for name, text in runs:
            r = ctx.tlc_expect_ok("Remote", None, name=name, workers=w, timeout=3000, cfg_text=text, heap="5g")
            states += r["distinct"]
            trans += r["generated"]
            depth = max(depth, r["depth"])
            ctx.log("TLC exhaustive %s: %d distinct states, %d transitions, depth %d, %.1fs" % (
                name, r["distinct"], r["generated"], r["depth"], r["wall"]))
            ctx.cov["states_" + name] = r["distinct"]
        ctx.cov["states"] = states
        ctx.cov["transitions"] = trans
        ctx.cov["model_depth"] = depth
        # non-vacuity: the as-is model (deviation on) must violate the same invariant
        ra = ctx.tlc("Remote", None, name="asis", workers=4, timeout=600, heap="2g",
                     cfg_text=cfg(polsets="LocalOnly", nmx=(1,), kinds="Kinds3", devs=("PoolUnchecked",),
                                  dnsfail=False, tail="VIEW View\nINVARIANTS NoViolation\n"))
        if ra["invariant"] != "NoViolation":
            raise vlib.Infra("as-is model (PoolUnchecked) no longer violates NoViolation: the invariant is vacuous "
                             "(%s %s)" % (ra["invariant"], ra["error"]))
        rb = ctx.tlc("Remote", None, name="asis2", workers=4, timeout=600, heap="2g",
                     cfg_text=cfg(polsets="DaneStsLocal", mintls=(0,), minmx=(1,), override=("TRUE",), sts=("testing",),
                                  stlscert="QuickStlsCert", tlsa="SmallTlsa", nmx=(2,), kinds="Kinds3", maxmsgs=1,
                                  dnsfail=False, slow=("TRUE", "FALSE"), devs=("TlsaFutureShared",),
                                  tail="VIEW View\nINVARIANTS NoViolation\n"))
        if rb["invariant"] != "NoViolation":
            raise vlib.Infra("as-is model (TlsaFutureShared) no longer violates NoViolation: the invariant is vacuous "
                             "(%s %s)" % (rb["invariant"], rb["error"]))
        rc = ctx.tlc("Remote", None, name="asis3", workers=2, timeout=600, heap="2g",
                     cfg_text=cfg(polsets="AdPolSets", mintls=(0,), minmx=(2,), override=("TRUE",),
                                  stlscert="TwoStlsCert", tlsa="QuickTlsa", nmx=(1,), kinds="Kinds1", maxmsgs=1,
                                  dnsfail=False, res="FallbackRes", devs=("AdAnyResolver",),
                                  tail="VIEW View\nINVARIANTS NoViolation\n"))
        if rc["invariant"] != "NoViolation":
            raise vlib.Infra("as-is model (AdAnyResolver) no longer violates NoViolation: the resolver dimension is "
                             "vacuous (%s %s)" % (rc["invariant"], rc["error"]))
        ctx.cov["asis_counterexample_found"] = True

    # ---- the other direction: the repository's own tests of the package, hooks on -------------------
    hook_ok = 0
    if not replay:
        import checks.remote_hooks as rh
        hook_ok = rh.remote_policy_traces(
            ctx, "C05", cfg(spec="TSpec", nmx=(1, 2), kinds="Kinds5", slow=("TRUE", "FALSE"), cn=ALL_CN,
                            maxmsgs=6, devs=(), tail=TRACE_TAIL))

    # ---- (B) behaviours out of TLC ---------------------------------------------------
    if replay:
        obj = json.load(open(replay))
        behs = [obj["behaviour"]]
        behs[0]["id"] = 1
    else:
        behs = []
        # exhaustive: every history of 3 messages over the sub-space where the cache matters most
        focus = [("gen-local", cfg(polsets="LocalOnly", mintls=(1, 2), minmx=(0,), override=("TRUE",),
                                   stlscert="QuickStlsCert", nmx=(1,), kinds="KindsFocus", dnsfail=False,
                                   gen=True, tail=GEN_TAIL)),
                 # every certificate class x TLSA outcome under dane (DANE-EE ignores names, DANE-TA must not)
                 ("gen-dane", cfg(polsets="DaneOnly", mintls=(0, 2), minmx=(0,), override=("TRUE",),
                                  stlscert="AllStlsCert", tlsa="AllTlsa", nmx=(1,), kinds="Kinds1", maxmsgs=1,
                                  dnsfail=False, gen=True, tail=GEN_TAIL)),
                 # a REQUIRETLS message whose first recipient domain has an MX without the REQUIRETLS extension
                 ("gen-pre", cfg(polsets="StsDnssecSets", mintls=(0,), minmx=(0, 1), override=("TRUE",),
                                 sts=("none", "testing"), stlscert="QuickStlsCert", nmx=(1,), kinds="KindsPreFocus",
                                 maxmsgs=2, dnsfail=False, gen=True, tail=GEN_TAIL)),
                 # how the MX answers the QUIT that follows a refusal by the policies
                 ("gen-quit", cfg(polsets="LocalOnly", mintls=(1, 2), minmx=(0,), override=("TRUE",),
                                  stlscert="QuickStlsCert", nmx=(1,), kinds="Kinds3", maxmsgs=2, dnsfail=False,
                                  quit=("bye", "busy", "drop", "silent") if thorough else ("busy", "drop"),
                                  gen=True, tail=GEN_TAIL)),
                 # quarantined after RCPT x {Body, BodyNonAtomic}
                 ("gen-lateq", cfg(polsets="LocalOnly", mintls=(0,), minmx=(0,), override=("TRUE",),
                                   stlscert="TwoStlsCert", nmx=(1,), kinds="KindsQ", maxmsgs=2, dnsfail=False,
                                   gen=True, tail=GEN_TAIL)),
                 # every 1-message history over the sub-space where a late TLSA answer matters
                 ("gen-slow", cfg(polsets="DaneStsLocal", mintls=(0,), minmx=(1,), override=("TRUE",), sts=("testing",),
                                  stlscert="TwoStlsCert", tlsa="QuickTlsa", nmx=(2,), kinds="Kinds1", maxmsgs=1,
                                  dnsfail=False, slow=("TRUE",), gen=True, tail=GEN_TAIL))]
        # resolver lists (the answering server loopback or not, a fault per resolver and query class) x the
        # policies that go by AD flags; quick: every (resolver list, policy set, minimum levels, AD) with a
        # sample of the MX facts and message kinds
        focus += [("gen-res", cfg(polsets="AdPolSets", mintls=(0, 2), minmx=(0, 2), override=("TRUE",),
                                  stlscert="AdStlsCert", tlsa="AdTlsa", nmx=(1,), kinds="KindsRes", maxmsgs=1,
                                  dnsfail=False, res="AllRes" if thorough else "QuickRes", gen=True, tail=GEN_TAIL)),
                  # an earlier recipient domain of the same message answers its MTA-STS lookup late
                  ("gen-late", cfg(polsets="StsSets", mintls=(0,), minmx=(0, 1), override=("TRUE",),
                                   stlscert="TwoStlsCert", nmx=(1,), kinds="KindsLateFocus", maxmsgs=2, dnsfail=False,
                                   gen=True, tail=GEN_TAIL))]
        # every CNAME situation x TLSA outcome at the canonical and at the original name
        focus += [("gen-cname", cfg(polsets="DaneOnly", mintls=(0,), minmx=(0,), override=("TRUE",),
                                    stlscert="TwoStlsCert", tlsa="AllTlsa" if thorough else "CnameTlsa", nmx=(1,),
                                    kinds="Kinds1", maxmsgs=1, dnsfail=False, cn=ALL_CN, gen=True, tail=GEN_TAIL))]
        if thorough:
            focus += [("gen-slow3", cfg(polsets="DaneStsLocal", mintls=(0,), minmx=(1,), override=("TRUE",),
                                        sts=("testing",), stlscert="QuickStlsCert", tlsa="SmallTlsa", nmx=(2,),
                                        kinds="Kinds3", maxmsgs=1, dnsfail=False, slow=("TRUE",), gen=True,
                                        tail=GEN_TAIL)),
                      # every configuration of the 1-MX space with every history of 2 messages
                      ("gen-all1", cfg(nmx=(1,), kinds="Kinds3", maxmsgs=2, gen=True, tail=GEN_TAIL))]
        n1, n2 = (6000, 6000) if thorough else (450, 450)
        jobs = [(name, dict(workers=2, timeout=1800, cfg_text=text, heap="4g")) for name, text in focus]
        jobs += [("sim1", dict(workers=1, timeout=1800, simulate=n1, depth=60, heap="4g",
                               cfg_text=cfg(nmx=(1,), kinds="KindsAll", tlsa="SmallTlsa", cn=ALL_CN, gen=True,
                                            tail=GEN_TAIL))),
                 ("sim1b", dict(workers=1, timeout=1800, simulate=n1 // 2, depth=60, heap="4g",
                                cfg_text=cfg(nmx=(1,), kinds="KindsSim", res="QuickRes", gen=True, tail=GEN_TAIL))),
                 ("sim2", dict(workers=1, timeout=1800, simulate=n2, depth=60, heap="4g",
                               cfg_text=cfg(nmx=(2,), stlscert="SmallStlsCert", tlsa="SmallTlsa", kinds="Kinds4",
                                            dnsfail=False, slow=("TRUE", "FALSE"), gen=True, tail=GEN_TAIL)))]
        # independent TLC runs: side by side (at most 4 JVMs at a time)
        with concurrent.futures.ThreadPoolExecutor(max_workers=4) as ex:
            futs = {name: ex.submit(ctx.tlc, "Remote", None, name=name, **kw) for name, kw in jobs}
            res = {name: f.result() for name, f in futs.items()}
        for name, _ in jobs:
            g = res[name]
            if not g["ok"]:
                raise vlib.Infra("behaviour generation %s failed: %s %s" % (name, g["invariant"], g["error"]))
            got = behaviours_from(g)
            if not name.startswith("sim"):
                ctx.cov["exhaustive_" + name] = len(got)
            if name == "gen-all1" and len(got) > 15000:
                got = vlib.sample(ctx.rng, got, 15000)     # replayed sample of the complete enumeration
            if name in PER_GROUP and not thorough:
                got = per_group(ctx.rng, got, *PER_GROUP[name])
            behs += got
        behs = dedup(behs)
        if not behs:
            raise vlib.Infra("TLC produced no behaviours")
    ctx.log("%d behaviours to replay" % len(behs))

    # ---- replay on the real remote.Target ------------------------------------------------
    binary = ctx.build_harness("remotecheck")
    events = ctx.run_shards(binary, behs, shards=min(vlib.NCPU, 8))
    events = [e for e in events if e.get("mx") != 0]      # the other recipient domain of "pre" messages
    by_id = {b["id"]: b for b in behs}

    # binding self-test: a corrupted and a truncated copy of an accepted trace
    selftest = {}
    if not replay:
        base = None
        for b in behs:
            evs = [e for e in events if e["t"] == b["id"] and e["e"] in KEEP]
            if any(e["e"] == "SrvData" and e["tls"] == "enc-auth" for e in evs) and \
                    "local" in b["cfg"]["pols"] and b["cfg"]["minTLS"] >= 1 and \
                    not any(m["tlsno"] for m in b["msgs"]):
                base = evs
                break
        if base:
            c1 = [dict(e, t=900001) for e in base]
            for e in c1:
                if e["e"] == "SrvData":
                    e["tls"] = "none"          # corrupt one logged field
                    break
            c2 = [dict(e, t=900002) for e in base]
            k = next(i for i, e in enumerate(c2) if e["e"] == "SrvConn")
            del c2[k]                          # drop one event
            events = events + c1 + c2
            selftest = {900001: "corrupt-field", 900002: "drop-event"}

    verdicts, by_t = ctx.validate("RemoteTrace", None, events, keep=KEEP,
                                  cfg_text=cfg(spec="TSpec", nmx=(1, 2), kinds="Kinds5", slow=("TRUE", "FALSE"), cn=ALL_CN,
                                               devs=open_devs, tail=TRACE_TAIL))

    ok = drift = 0
    preds = {}
    for t, recs in sorted(verdicts.items()):
        if t in selftest:
            r0 = recs[0]
            if not r0["drift"] and not r0["viol"]:
                raise vlib.Infra("binding self-test failed: %s trace was accepted" % selftest[t])
            continue
        r0 = recs[0]
        viol = {(v["p"], v["m"]) for r in recs for v in r["viol"]}
        kviol = {(v["p"], v["m"]) for r in recs for v in r["kviol"]}
        conform = any(not r["drift"] for r in recs)
        # a violation is a known finding only if the as-is design followed the whole trace and
        # attributes it to a connection cached by an open deviation
        explained = set()
        if conform and r0["devs"] and set(r0["devs"]) <= set(open_devs):
            explained = viol & kviol
        for f in known:
            if explained and f["match"].get("deviation") in r0["devs"]:
                ctx.known(f["id"], f["what"])
        rest = viol - explained
        if rest:
            names = sorted({p for p, _ in rest})
            for p in names:
                preds[p] = preds.get(p, 0) + 1
            what = "outbound security clause(s) %s violated (message(s) %s of the history)" % (
                ",".join(names), ",".join(str(m) for m in sorted({m for _, m in rest})))
            ctx.violation(what, {"property": "C05", "behaviour": by_id[t], "trace": by_t[t],
                                 "violated": sorted(list(x) for x in rest),
                                 "how": "bin/check C05 --replay <this file>"})
        elif viol:
            ok += 1 if conform else 0
        elif conform:
            ok += 1
        else:
            drift += 1
            print("DRIFT property=C05 trace=%d first-unexplained-seq=%s" % (t, r0["driftAt"]))
    if selftest:
        ctx.cov["binding_selftest"] = "corrupted-field and dropped-event traces rejected"
    ctx.cov["traces_validated_against_impl"] = ok
    ctx.cov["drift_traces"] = drift
    ctx.cov["evaluations"] = len(behs)
    ctx.cov["distinct_nontrivial"] = sum(1 for b in behs if nontrivial(b))
    ctx.cov["data_events_checked"] = sum(1 for e in events if e["e"] == "SrvData" and e["t"] < 900000)
    ctx.cov["traces_validated_against_impl"] += hook_ok
    ctx.cov["rule"] = ("behaviours = (configuration, per-MX facts, message history) of Remote.tla printed by TLC: "
                       "exhaustive over the local_policy/override/cache sub-space, -simulate over the full space "
                       "(1 MX) and the reduced 2-MX space, de-duplicated; resolver lists x AD-dependent policies and "
                       "late MTA-STS answers: every configuration with a sample of MX facts / histories in quick, "
                       "complete in thorough; non-trivial = at least one policy enabled and a non-default message "
                       "flag, MX fact or resolver list")
    ctx.cov["violated_predicates"] = preds
    for b in behs[:3]:
        ctx.cov["samples"].append({"behaviour": b, "trace": [e for e in by_t.get(b["id"], [])][:30]})
    ctx.cov["exhaustive"] = False
    ctx.assumptions += [
        "MX servers are scripted raw SMTP servers on loopback TCP; what 'the connection' was is what the server saw",
        "DNS (MX, A, TLSA, AD bit, SERVFAIL) is a go-mockdns server on loopback UDP; MTA-STS fetch is injected",
        "'enc-auth' = handshake completed on a certificate valid for the MX name under the CA the client trusts",
        "one recipient domain per message is judged (the statement's quantifier); 'pre' and 'late' messages have an "
        "earlier recipient in another domain (delivered / refused); MAIL/RCPT/DATA replies are positive",
        "resolver lists: one scripted DNS server per entry on 127.0.0.x / the machine's first non-loopback IPv4 "
        "address (0.0.0.0 when it has none), same port, same zone data",
        "a harness-side time-out is exit 2, never a violation",
        "TLC 1.8.0, CommunityModules Json reader",
    ]


META = {
    "engine": "remotecheck",
    "level": "model_checking",
    "technique": "TLA+ spec Remote.tla model-checked by TLC; TLC-generated behaviours replayed on the real "
                 "remote.Target against scripted SMTP servers + mock DNS; recorded traces validated against "
                 "RemoteTrace.tla (property predicates in RemoteObs.tla)",
    "text": "TLC visits every combination of enabled policies (mtasts, dane, dnssec, local_policy x min levels), "
            "override switch, message flags (REQUIRETLS, TLS-Required: No, quarantine) and per-MX facts (STARTTLS "
            "offered/stripped/refused/failing, certificate class, MTA-STS mode x match, TLSA outcome, AD bit) for 1 MX "
            "and a reduced fact space for 2 MX, with histories of up to 3 messages sharing the connection cache, and "
            "checks DataSent => PolicyOK and DiscoveryFailure => deferred in every state; further environment "
            "dimensions: the resolver list of the DNSSEC-aware stub resolver (loopback or not, a fault per resolver and "
            "query class: an AD flag counts only when the answering server is a loopback one) and a message whose "
            "earlier recipient domain fails its MX lookup and answers its MTA-STS lookup late; the same predicates are "
            "evaluated by TLC over traces recorded from the real remote.Target driven with TLC-generated behaviours.",
    "note": "Scripted MX servers (loopback TCP, crypto/x509 certificates), go-mockdns with AD control, injected "
            "MTA-STS fetch; the predicate is over what the servers saw; trusted: TLC, the harness, Go toolchain.",
    "design_ref": "DESIGN.md section 5 C05",
}
