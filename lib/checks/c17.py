"""C17 - address normalisation is a consistent equivalence; conversions round-trip.

(T) TLC checks the laws of Address.tla on the model: the variant algebra (every generated
    valid address, every pair, every triple inside an identity class) and the string layer
    (every symbol string up to StrLen) - with no deviation the documented algorithms
    satisfy the laws, with each deviation of the code as it is they do not.
(B) the inputs printed by TLC (addresses; pairs and triples drawn from them; symbol
    strings) are concretised by the harness table and given to the real functions of
    framework/address and framework/dns; AddressTrace.tla evaluates the same laws on the
    recorded outputs.
"""
import json
import os

import vlib
import vknown

ALL_DEVS = ["UpperACE", "LowerDenorm", "LowerFirst", "IsASCII128"]

MC_CFG = """SPECIFICATION Spec
CONSTANTS
  Devs = {%(devs)s}
  Layer = "%(layer)s"
  StrLen = %(strlen)d
  Gen = %(gen)s
INVARIANTS %(inv)s
CHECK_DEADLOCK FALSE
"""

TRACE_CFG = """SPECIFICATION TSpec
CONSTANTS
  Devs = {%(devs)s}
  Layer = "trace"
  StrLen = 0
  Gen = FALSE
CHECK_DEADLOCK FALSE
POSTCONDITION Post
"""



def wk(n):
    """TLC worker threads: n, capped by VERIF_TLC_WORKERS_MAX (for a machine shared with other runs)"""
    return max(1, min(n, int(os.environ.get("VERIF_TLC_WORKERS_MAX") or n)))


def q(names):
    return ", ".join('"%s"' % n for n in names)


def ident(a):
    return (a["lp"]["b"],) + tuple(l["b"] for l in a["dom"])


ROOT = {"b": "root", "s": "lower"}


def rooted(a):
    return a["dom"][-1] == ROOT


def unrooted_ident(a):
    """the address regardless of the root label (FQDN spelling)"""
    i = ident(a)
    return i[:-1] if rooted(a) else i


def noncanon(a):
    """number of components not spelled canonically"""
    return (a["lp"]["s"] != "lower") + sum(1 for l in a["dom"] if l["s"] != "lower")


def variant(a):
    """non-trivial = some component is not spelled canonically"""
    return a["lp"]["s"] != "lower" or any(l["s"] != "lower" for l in a["dom"])


def run(ctx, replay):
    thorough = ctx.tier == "thorough"
    open_devs = vknown.open_deviations("C17")
    unknown = [d for d in open_devs if d not in ALL_DEVS]
    if unknown:
        raise vlib.Infra("known_findings.d/C17.json names deviations Address.tla does not have: %s" % unknown)

    if replay:
        obj = json.load(open(replay))
        cases = [dict(obj["case"], id=1)]
    else:
        # ---- (T) the laws hold on the model ---------------------------------------
        ra = ctx.tlc_expect_ok("Address", None, name="mc-algebra", workers=wk(16), timeout=900,
                               cfg_text=MC_CFG % dict(devs="", layer="algebra", strlen=0, gen="TRUE",
                                                      inv="AlgebraLaws Emit"))
        addrs = [v for tag, v in ra["printed"] if tag == "ROW"]
        n_str = 5 if thorough else 3
        n_rows = 4 if thorough else 3
        # quick: the model-checking run is also the one that prints the string rows
        rs = ctx.tlc_expect_ok("Address", None, name="mc-string", workers=wk(16), timeout=2400,
                               cfg_text=MC_CFG % dict(devs="", layer="string", strlen=n_str,
                                                      gen="TRUE" if n_str == n_rows else "FALSE",
                                                      inv="StringLaws Emit"))
        # comparison of arbitrary strings (malformed operands included): all pairs, look-alike triples
        rp = ctx.tlc_expect_ok("Address", None, name="mc-string2", workers=wk(8), timeout=600,
                               cfg_text=MC_CFG % dict(devs="", layer="string2", strlen=2, gen="TRUE",
                                                      inv="CompareLaws EmitOrbit Emit"))
        strs2 = [v for tag, v in rp["printed"] if tag == "ROW"]
        orbit = next((v for tag, v in rp["printed"] if tag == "ORBIT"), None)
        if orbit is None or len(strs2) != rp["distinct"]:
            raise vlib.Infra("string2 run printed %d rows for %d states, orbit=%s" % (len(strs2), rp["distinct"], orbit))
        # degenerate domains (bare ACE prefix, "xn---", ...): crash-freedom
        rd = ctx.tlc_expect_ok("Address", None, name="mc-domain", workers=wk(8), timeout=600,
                               cfg_text=MC_CFG % dict(devs="", layer="domain", strlen=4 if thorough else 3,
                                                      gen="TRUE", inv="DomainLaws Emit"))
        doms = [v for tag, v in rd["printed"] if tag == "ROW"]
        if len(doms) != rd["distinct"]:
            raise vlib.Infra("domain run printed %d rows for %d states" % (len(doms), rd["distinct"]))
        ctx.cov["states"] = ra["distinct"] + rs["distinct"] + rp["distinct"] + rd["distinct"]
        ctx.cov["transitions"] = ra["generated"] + rs["generated"] + rp["generated"] + rd["generated"]
        ctx.cov["states_domain"] = rd["distinct"]
        ctx.cov["states_string2"] = rp["distinct"]
        ctx.cov["states_algebra"] = ra["distinct"]
        ctx.cov["states_string"] = rs["distinct"]
        ctx.cov["string_len_model_checked"] = n_str
        ctx.log("TLC exhaustive: algebra %d states (%d addresses, pairs inside each identity class and with every canonical address, triples per class) %.1fs; "
                "strings up to %d symbols %d states %.1fs" % (ra["distinct"], len(addrs), ra["wall"],
                                                              n_str, rs["distinct"], rs["wall"]))
        # non-vacuity: every deviation is caught by the model-level laws
        seen = {}
        for d in ALL_DEVS:
            layer, inv = ("string", "StringLaws") if d == "IsASCII128" else ("algebra", "AlgebraLaws")
            rd = ctx.tlc("Address", None, name="asis-" + d, workers=wk(4), timeout=300,
                         cfg_text=MC_CFG % dict(devs=q([d]), layer=layer, strlen=2, gen="FALSE", inv=inv))
            if rd["invariant"] != inv:
                raise vlib.Infra("as-is model with deviation %s violates nothing (%s %s): the laws are vacuous"
                                 % (d, rd["invariant"], rd["error"]))
            seen[d] = inv
        ctx.cov["asis_counterexamples"] = seen

        # ---- the case list ---------------------------------------------------------
        rg = rs if n_str == n_rows else ctx.tlc_expect_ok(
            "Address", None, name="gen-string", workers=wk(16), timeout=1200,
            cfg_text=MC_CFG % dict(devs="", layer="string", strlen=n_rows, gen="TRUE", inv="Emit"))
        strings = [v for tag, v in rg["printed"] if tag == "ROW"]
        if len(strings) != rg["distinct"]:
            raise vlib.Infra("TLC printed %d string rows for %d states" % (len(strings), rg["distinct"]))
        sim = ctx.tlc("Address", None, name="sim-string", workers=1, timeout=600,
                      simulate=(1500 if thorough else 300), depth=7,
                      cfg_text=MC_CFG % dict(devs="", layer="string", strlen=6, gen="TRUE", inv="Emit"))
        if not sim["ok"]:
            raise vlib.Infra("string simulation failed: %s %s" % (sim["invariant"], sim["error"]))
        seen_s = set(json.dumps(s) for s in strings)
        longer = []
        for tag, v in sim["printed"]:
            k = json.dumps(v)
            if tag == "ROW" and len(v) > n_rows and k not in seen_s:
                seen_s.add(k)
                longer.append(v)
        longer = vlib.sample(ctx.rng, longer, 8000 if thorough else 1500)
        ctx.cov["string_rows_exhaustive_len"] = n_rows
        ctx.cov["string_rows_simulated"] = len(longer)

        addrs.sort(key=lambda a: json.dumps(a, sort_keys=True))
        by_id = {}
        for a in addrs:
            by_id.setdefault(ident(a), []).append(a)
        same_pairs = [(a, b) for cl in by_id.values() for a in cl for b in cl]
        # the same address without / with the root label (FQDN spelling): one key is not demanded
        # across the two (Address.tla), comparison = key equality, symmetry, transitivity are
        by_uid = {}
        for a in addrs:
            by_uid.setdefault(unrooted_ident(a), []).append(a)
        root_pairs = [(a, b) for cl in by_uid.values() for a in cl for b in cl if rooted(a) != rooted(b)]
        # every single step, deterministically: the canonical spelling of every address next to each spelling
        # that differs from it in one component, and each of these (canonical or one step away) next to itself
        # written the other way with respect to the root label
        near = [a for a in addrs if noncanon(a) <= 1]
        canon = {ident(a): a for a in addrs if noncanon(a) == 0}
        step_pairs = [(canon[ident(a)], a) for a in near if noncanon(a) == 1]
        flip = {(json.dumps(a["lp"]), json.dumps(a["dom"])): a for a in addrs}
        step_pairs += [(a, flip[(json.dumps(a["lp"]), json.dumps(a["dom"] + [ROOT]))]) for a in near if not rooted(a)]
        rng = ctx.rng
        if thorough:
            pairs = ([p for p in same_pairs if not rooted(p[0])] + step_pairs
                     + vlib.sample(rng, [p for p in same_pairs if rooted(p[0])], 15000)
                     + vlib.sample(rng, root_pairs, 30000)
                     + [(rng.choice(addrs), rng.choice(addrs)) for _ in range(20000)])
            n_tr = 20000
        else:
            pairs = (step_pairs + vlib.sample(rng, same_pairs, 1500) + vlib.sample(rng, root_pairs, 800)
                     + [(rng.choice(addrs), rng.choice(addrs)) for _ in range(600)])
            n_tr = 1500
        ctx.cov["pairs_single_step"] = len(step_pairs)
        triples = []
        classes = sorted(by_id)
        uclasses = sorted(by_uid)
        for i in range(n_tr):
            if i % 4 == 3:
                triples.append((rng.choice(addrs), rng.choice(addrs), rng.choice(addrs)))
            elif i % 4 == 2:
                cl = by_uid[rng.choice(uclasses)]       # one address, with and without the root label
                triples.append((rng.choice(cl), rng.choice(cl), rng.choice(cl)))
            else:
                cl = by_id[rng.choice(classes)]
                triples.append((rng.choice(cl), rng.choice(cl), rng.choice(cl)))
        # arbitrary strings: every pair of look-alikes (same length, letters a case-insensitive
        # comparison could confuse), every pair of strings up to one symbol, other pairs sampled
        strs2.sort(key=lambda x: (len(x), x))
        def alike(x, y):
            return len(x) == len(y) and all(orbit[a] == orbit[b] for a, b in zip(x, y))
        short = [x for x in strs2 if len(x) <= 1]
        spairs = [(x, y) for x in strs2 for y in strs2 if alike(x, y)]
        seen_p = set(json.dumps(p) for p in spairs)
        for x in short:
            for y in short:
                if json.dumps((x, y)) not in seen_p:
                    seen_p.add(json.dumps((x, y)))
                    spairs.append((x, y))
        # a string next to itself followed by a dot (a bare domain and its FQDN spelling for dns.Equal)
        for x in strs2:
            y = x + ["dot"]
            if y in strs2 and json.dumps((x, y)) not in seen_p:
                seen_p.add(json.dumps((x, y)))
                spairs.append((x, y))
        if thorough:
            spairs += [(x, y) for x in strs2 for y in strs2 if json.dumps((x, y)) not in seen_p]
        else:
            spairs += [(rng.choice(strs2), rng.choice(strs2)) for _ in range(1500)]
        alikes = {}
        for x in strs2:
            alikes.setdefault((len(x),) + tuple(orbit[a] for a in x), []).append(x)
        striples = [(x, y, z) for cl in alikes.values() if len(cl[0]) <= 1 for x in cl for y in cl for z in cl]
        big = [cl for cl in alikes.values() if len(cl[0]) == 2]
        if thorough:
            striples += [(x, y, z) for cl in big for x in cl for y in cl for z in cl]
        else:
            for _ in range(1500):
                cl = rng.choice(big)
                striples.append((rng.choice(cl), rng.choice(cl), rng.choice(cl)))
        cases = []
        for d in doms:
            cases.append({"kind": "D", "in": {"d": d}})
        for x, y in spairs:
            cases.append({"kind": "P2", "in": {"s": x, "t": y}})
        for x, y, z in striples:
            cases.append({"kind": "P3", "in": {"s": x, "t": y, "u": z}})
        # the unary laws: every address; of those written with the root label a seeded sample in quick
        a1 = addrs if thorough else ([a for a in addrs if not rooted(a)]
                                     + vlib.sample(rng, [a for a in addrs if rooted(a)], 400))
        for a in a1:
            cases.append({"kind": "A1", "in": {"a": a}})
        for a, b in pairs:
            cases.append({"kind": "A2", "in": {"a": a, "b": b}})
        for a, b, c in triples:
            cases.append({"kind": "A3", "in": {"a": a, "b": b, "c": c}})
        for s in strings + longer:
            cases.append({"kind": "S", "in": {"s": s}})
        for i, c in enumerate(cases):
            c["id"] = i + 1
        ctx.cov["exhaustive"] = False
    ctx.log("%d rows to replay" % len(cases))

    # ---- (B) real code ------------------------------------------------------------------
    binary = ctx.build_harness("addresscheck")
    events = ctx.run_shards(binary, cases)
    by_case = {c["id"]: c for c in cases}

    selftest = {}
    if not replay:
        b1 = next((e for e in events if e["e"] == "A1" and not variant(e["in"]["a"])), None)
        b2 = next((e for e in events if e["e"] == "S" and e["in"]["s"] == ["l", "d"]), None)
        if b1 and b2:
            c1 = json.loads(json.dumps(b1))
            c1["t"] = 9000001
            c1["out"]["key2"]["lp"] = {"b": "?", "s": "corrupted"}
            c2 = json.loads(json.dumps(b2))
            c2["t"] = 9000002
            c2["out"]["isascii"] = False
            events = events + [c1, c2]
            selftest = {9000001: "IdemKey", 9000002: "IsASCII"}

    verdicts, by_t = ctx.validate("AddressTrace", None, events, batch=25000, timeout=2400,
                                  cfg_text=TRACE_CFG % dict(devs=q(sorted(open_devs))))

    ok = drift = 0
    preds = {}
    obs = {}
    kinds = {}
    for t, recs in sorted(verdicts.items()):
        rec = recs[0]
        ev = by_t[t][0]
        viol = sorted(rec["viol"])
        devs = sorted(rec.get("devs", []))
        if t in selftest:
            if selftest[t] not in viol or devs != ["UNEXPLAINED"]:
                raise vlib.Infra("binding self-test failed: corrupted row (%s) got viol=%s devs=%s"
                                 % (selftest[t], viol, devs))
            continue
        kinds[ev["e"]] = kinds.get(ev["e"], 0) + 1
        for o in rec.get("obs", []):
            obs[o] = obs.get(o, 0) + 1
        if not viol:
            if rec["drift"]:
                drift += 1
                print("DRIFT property=C17 row=%d kind=%s (output differs from the documented algorithm, no law broken)"
                      % (t, ev["e"]))
            else:
                ok += 1
            continue
        for v in viol:
            preds[v] = preds.get(v, 0) + 1
        if devs and "UNEXPLAINED" not in devs:
            for d in devs:
                ctx.known(open_devs[d]["id"], open_devs[d]["what"])
            continue
        case = by_case[t]
        ctx.violation("%s row %s violates %s" % (ev["e"], json.dumps(ev["in"]), ",".join(viol)),
                      {"property": "C17", "case": {"kind": case["kind"], "in": case["in"]}, "row": ev,
                       "violated": viol, "how": "bin/check C17 --replay <this file>"})

    for o, n in sorted(obs.items()):
        print("OBSERVATION property=C17 %s rows=%d (outside the statement: address.ToASCII lets a local part "
              "containing U+0080 through, rfc6531.go compares with > 128)" % (o, n))
        ctx.notes.append("%s: %d rows" % (o, n))
    if selftest:
        ctx.cov["binding_selftest"] = "row with corrupted second key and row with flipped IsASCII rejected as UNEXPLAINED"
    ctx.cov["traces_validated_against_impl"] = ok
    ctx.cov["drift_traces"] = drift
    ctx.cov["evaluations"] = len(cases)
    ctx.cov["rows_by_kind"] = kinds
    distinct = set()
    for c in cases:
        if c["kind"] == "S":
            if len(c["in"]["s"]) >= 2:
                distinct.add(json.dumps(c["in"]["s"]))
        elif c["kind"] == "D":
            if len(c["in"]["d"]) >= 1:
                distinct.add(json.dumps(c["in"]["d"]))
        elif c["kind"] in ("P2", "P3"):
            if len(set(json.dumps(v) for v in c["in"].values())) > 1:
                distinct.add(json.dumps(c["in"], sort_keys=True))
        elif any(variant(c["in"][k]) for k in c["in"]):
            distinct.add(json.dumps(c["in"], sort_keys=True))
    ctx.cov["distinct_nontrivial"] = len(distinct)
    ctx.cov["violated_predicates"] = preds
    ctx.cov["rule"] = ("A1 = every address of Address.tla (local part x label x tld in every spelling of the table); "
                       "addresses also written with the root label (FQDN spelling, trailing dot; A1 on a seeded sample of those in quick); "
                       "A2 = every single step (canonical spelling next to each spelling one component away; each of these next "
                       "to itself with the root label), ordered pairs inside one identity class (all unrooted in thorough, seeded "
                       "sample in quick), pairs of one address without / with the root label, random cross pairs; "
                       "A3 = seeded triples (1/2 inside one class, 1/4 one address without / with the root label); S = every symbol string up "
                       "to length 3 (quick) / 4 (thorough) printed by TLC plus TLC -simulate strings up to length 6; "
                       "D = every domain up to 3 (quick) / 4 (thorough) symbols over the degenerate-A-label alphabet, tried bare, "
                       "behind a plain and behind a quoted local part (crash-freedom); "
                       "P2/P3 = pairs/triples of arbitrary strings up to 2 symbols over the comparison alphabet "
                       "(all look-alike pairs, all pairs up to 1 symbol, the rest sampled in quick / all in thorough); "
                       "non-trivial = an address row with at least one non-canonical spelling, a string row of "
                       "length >= 2; distinct = distinct inputs")
    picks = []
    for kind in ("A1", "A2", "A3", "S", "P2", "P3", "D"):
        evs = [e for e in events if e["e"] == kind and e["t"] < 9000000]
        if evs:
            picks.append(evs[len(evs) // 3])
    for e in picks:
        ctx.cov["samples"].append({"kind": e["e"], "in": e["in"], "recorded": e["out"], "verdict": verdicts[e["t"]][0]})
    ctx.assumptions += [
        "golang.org/x/text (NFC/NFD, case mapping) and golang.org/x/net/idna (Punycode) are trusted: the harness "
        "table derives every spelling from the canonical string with them and checks that it folds back",
        "the model knows only the spellings of its table (10 label bases, 6 local-part bases, 2 last labels, root label); laws about "
        "valid addresses are evaluated on these generated addresses only, crash-freedom on every row",
        "letter-case variants are those of strings.ToLower (simple case mapping: U+0130 lower-cases to i); the root label "
        "(trailing dot) is not among the variants the statement lists: one key is demanded only between addresses written "
        "alike in this respect, Equal <=> equal keys, symmetry and transitivity also across it",
        "outputs are abstracted back to (base, spelling) through the inverse table, which is checked to be injective",
        "reading of the statement: 'comparison is an equivalence relation that coincides with equality of lookup "
        "keys' carries no restriction to valid addresses and is evaluated on arbitrary (also malformed) strings "
        "(rows P2/P3: Equal symmetric, transitive, Equal <=> the values ForLookup returns are equal; same for "
        "dns.Equal/dns.ForLookup); idempotence, one key per identity and round trips only on generated valid addresses",
        "TLC 1.8.0, CommunityModules Json",
    ]


META = {
    "engine": "addresscheck",
    "level": "model_checking",
    "technique": "TLA+ spec Address.tla (variant algebra over label spellings + string layer over a character-class "
                 "alphabet; laws stated declaratively, documented algorithms as operators) model-checked by TLC; the "
                 "inputs printed by TLC are concretised and run through the real framework/address and framework/dns "
                 "functions; recorded rows evaluated by TLC against AddressTrace.tla",
    "text": "TLC checks reflexivity, symmetry, transitivity, Equal <=> equal keys, one key per identity, idempotence of "
            "ForLookup/CleanDomain/dns.ForLookup, ASCII/Unicode round trips, split/join, quote/unquote and IsASCII <=> "
            "all code points < U+0080 on the model (2932 addresses incl. the FQDN spelling with the root dot and the dotted capital I "
            "composed / decomposed, all pairs, class triples; every symbol string up to "
            "length 3 quick / 5 thorough) and evaluates the same laws on the outputs of the real functions for every "
            "address, sampled (quick) or all same-identity (thorough) pairs, sampled triples and every symbol string up "
            "to length 3 (quick) / 4 (thorough) plus simulated longer ones; crash-freedom via recover on every row.",
    "note": "IDNA/NFC tables are golang.org/x code and trusted; the model knows only the spellings of the harness "
            "table. Known deviations are explained per row by the smallest set of open deviations reproducing the "
            "recorded output; anything else is a VIOLATION.",
    "design_ref": "DESIGN.md section 5 C17",
}
