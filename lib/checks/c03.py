"""C03 - every SMTP/LMTP mail transaction is finalized exactly once and matches its reply.

(T) TLC checks Session.tla exhaustively (go-smtp connection automaton as pinned, maddy's
    endpoint Session, the pipeline delivery fan-out; every command sequence inside the bound x
    {SMTP, LMTP} x {deferred, immediate} x 1-3 targets x a fault at every target call), with all
    deviations off (the design) and, for non-vacuity, once per named deviation (must violate).
(B) TLC-generated behaviours (client scripts + fault plans, explored with the deviations of the
    *open* findings enabled, i.e. the state space of the code as it is) are replayed as real
    SMTP/LMTP conversations against the real endpoint (harness/sessioncheck); the recorded
    traces are validated against SessionTrace.tla; the property predicates (SessionObs.tla) are
    evaluated by TLC after every recorded event.
"""
import glob
import json
import os
import subprocess
from concurrent.futures import ThreadPoolExecutor

import vlib

ALL_DEVS = ["DataFailNoAbort", "CommitStopsAtFirst", "LmtpStatusKey", "EhloNoLogout",
            "MailRawSender", "NestedMail", "LmtpCommitErrLost", "LmtpCommitAfterReject"]

KEEP = {"Cfg", "Cmd", "Reply", "Tgt", "End", "Crash", "Env"}

# annotated temporary / annotated permanent / not annotated at all
ALL_FAILS = ["temp", "perm", "unspec"]
BUFS = ["ram", "fs", "autolo", "autohi"]
CUTS = ["mid", "hdr", "zero"]

CFG = """SPECIFICATION %(spec)s
CONSTANTS
  Rcpts = {%(rcpts)s}
  NTs = {%(nts)s}
  Lmtps = {%(lmtps)s}
  Holds = {%(holds)s}
  Fails = {%(fails)s}
  MaxFaults = %(maxfaults)d
  MaxCmds = %(maxcmds)d
  MaxEnv = %(maxenv)d
  EnvPlan = "%(envplan)s"
  Allowed = {%(allowed)s}
  Devs = {%(devs)s}
  Gen = %(gen)s
%(tail)s
"""


def q(xs):
    return ", ".join('"%s"' % x for x in xs)


def cfg(rcpts=(), nts=(), fails=(), maxfaults=1, maxcmds=5, devs=(), gen=False, tail="", spec="Spec",
        allowed=("*",), lmtps=("TRUE", "FALSE"), holds=("TRUE", "FALSE"), maxenv=0, envplan="any"):
    return CFG % dict(spec=spec, allowed=q(allowed), lmtps=", ".join(lmtps), holds=", ".join(holds), rcpts=q(rcpts), nts=", ".join(str(n) for n in nts), fails=q(fails),
                      maxfaults=maxfaults, maxcmds=maxcmds, maxenv=maxenv, envplan=envplan, devs=q(devs),
                      gen="TRUE" if gen else "FALSE", tail=tail)


MC_TAIL = "VIEW View\nINVARIANTS NoViolation NoDeviation TypeOK\n"
MC_TAIL_LIVE = MC_TAIL + "PROPERTY Terminates\n"
GEN_TAIL = "CHECK_DEADLOCK FALSE\n"
TRACE_TAIL = "CHECK_DEADLOCK FALSE\nPOSTCONDITION Post\n"


def load_findings():
    """Entries for C03: known_findings.d/C03.json (authoritative for this check while it is
    being integrated), else the merged known_findings.json."""
    p = os.path.join(vlib.VERIF, "known_findings.d", "C03.json")
    if os.path.exists(p):
        fs = [f for f in json.load(open(p)).get("findings", []) if f.get("property") == "C03"]
    else:
        fs = vlib.load_known("C03")
    # drill only: treat the listed finding ids as fixed (to validate a proposed patch in a scratch worktree)
    for fid in filter(None, os.environ.get("VERIF_C03_FIXED", "").split(",")):
        for f in fs:
            if f["id"] == fid:
                f["status"] = "fixed: drill"
    return fs


def behaviours_from(r):
    out = []
    for tag, val in r["printed"]:
        if tag == "BEH":
            out.append({"cfg": val["cfg"], "hist": val["hist"], "devs": sorted(val.get("devs") or []),
                        "crash": bool(val.get("crash"))})
    return out


def dedup(behs):
    seen, out = set(), []
    for b in behs:
        k = json.dumps([b["cfg"], b["hist"]], sort_keys=True)
        if k not in seen:
            seen.add(k)
            out.append(b)
    for i, b in enumerate(out):
        b["id"] = i + 1
    return out


def stratified(rng, behs, n):
    """Round-robin over (protocol, mode, targets, routing, deviations the model goes through, where the
    faults are injected)."""
    groups = {}
    for b in behs:
        faults = tuple(sorted({(x["tgt"], x["op"], x.get("res") or "st") for x in b["hist"] if x.get("a") == "Tgt" and (
            x.get("res") not in ("ok", "") or any(v != "ok" for v in (x.get("st") or {}).values()))}))
        k = (b["cfg"]["lmtp"], b["cfg"]["defer"], b["cfg"]["nt"], b["cfg"]["shape"], tuple(b["devs"]), faults)
        groups.setdefault(k, []).append(b)
    for k in groups:
        rng.shuffle(groups[k])
    out = []
    keys = sorted(groups, key=str)
    while len(out) < n and keys:
        for k in list(keys):
            if groups[k]:
                out.append(groups[k].pop())
                if len(out) >= n:
                    break
            else:
                keys.remove(k)
    return out


def two_spellings(b):
    """A recipient accepted in one spelling, later (another transaction: the alphabet allows one spelling per
    transaction) accepted in the other one, and a DATA with a good message after that."""
    seen, last, stage = {}, None, 0
    for h in b["hist"]:
        if h.get("a") == "Cmd":
            last = h
            if stage == 1 and h["v"] == "DATA" and h["arg"] == "ok":
                return True
        elif h.get("a") == "Reply" and last is not None and last["v"] == "RCPT" and h.get("cls") == 2 \
                and last["arg"] in ("ok", "up"):
            prev = seen.get(last["r"])
            if prev is not None and prev != last["arg"]:
                stage = 1
            seen[last["r"]] = last["arg"]
    return False


def rcpt_then_body(b):
    """Two failures in ONE transaction at two different stages: a recipient refused by its target's AddRcpt (so the
    pipeline has an open delivery on that target that must not count the recipient), another recipient (or the same
    one, retried) accepted, and then a failure of the body stage: the body check refuses the message, or a target's
    Body / BodyNonAtomic reports a failure."""
    refused = accepted = False
    for h in b["hist"]:
        a = h.get("a")
        if a == "Tgt" and h["op"] == "rcpt":
            if h["res"] == "ok":
                accepted = True
            else:
                refused = True
        elif a == "Cmd" and h["v"] in ("RSET", "HELO", "MAIL"):
            refused = accepted = False
        elif a == "Cmd" and h["v"] == "DATA" and h["arg"] == "chk" and refused and accepted:
            return True
        elif a == "Tgt" and h["op"] in ("body", "bodyNA") and refused and accepted and (
                h["res"] not in ("ok", "") or any(v != "ok" for v in (h.get("st") or {}).values())):
            return True
    return False


def nontrivial(b):
    for s in b["hist"]:
        if s.get("a") == "Tgt" and (s.get("res") not in ("ok", "") or
                                    any(v != "ok" for v in (s.get("st") or {}).values())):
            return True
        if s.get("a") == "Cmd" and (s.get("arg") in ("rej", "syn", "up", "loop", "hdr", "chk", "cut", "more")
                                    or s.get("v") in ("RSET", "DROP") or s.get("p")):
            return True
    return False


def run_tolerant(ctx, binary, items, name="replay", timeout=900):
    """Like ctx.run_shards, but a behaviour that kills the harness process (a panic of the
    server outside any recover) is an observation, not an infrastructure failure: the events
    written so far are kept, a final "Crash" event is appended for that behaviour and the rest
    of the shard is run in a fresh process."""
    shards = max(1, min(vlib.NCPU, len(items)))
    d = ctx.sub(name)
    queue = [(s, 0, items[s::shards]) for s in range(shards)]
    events, crashes = [], []
    rounds = 0
    while queue:
        rounds += 1
        if rounds > 200:
            raise vlib.Infra("replay keeps dying: %d restarts" % rounds)
        procs = []
        for s, gen, part in queue:
            tag = "%d_%d" % (s, gen)
            fin = os.path.join(d, "in%s.ndjson" % tag)
            fout = os.path.join(d, "out%s.ndjson" % tag)
            with open(fin, "w") as f:
                for it in part:
                    f.write(json.dumps(it) + "\n")
            env = vlib.goenv()
            tmp = os.path.join(d, "tmp%d" % s)
            os.makedirs(tmp, exist_ok=True)
            env.update(VERIF_IN=fin, VERIF_OUT=fout, VERIF_TMP=tmp, TMPDIR=tmp,
                       VERIF_SEED=str(ctx.seed), VERIF_TIER=ctx.tier)
            log = open(os.path.join(d, "log%s.txt" % tag), "w")
            p = subprocess.Popen(["timeout", str(timeout), binary, "-test.run", "^TestReplay$",
                                  "-test.timeout", "%ds" % (timeout + 30), "-test.count", "1"],
                                 cwd=d, env=env, stdout=log, stderr=subprocess.STDOUT)
            procs.append((p, s, gen, part, fout, log, tag))
        queue = []
        for p, s, gen, part, fout, log, tag in procs:
            rc = p.wait()
            log.close()
            evs = []
            if os.path.exists(fout):
                for line in open(fout):
                    line = line.strip()
                    if line:
                        try:
                            evs.append(json.loads(line))
                        except ValueError:
                            pass          # torn last line of a dying process
            events += evs
            if rc == 0:
                continue
            tail = open(os.path.join(d, "log%s.txt" % tag)).read()
            if rc == 124 or "panic:" not in tail:
                raise vlib.Infra("replay shard %s failed rc=%d:\n%s" % (tag, rc, tail[-3000:]))
            ended = {e["t"] for e in evs if e["e"] == "End"}
            started = [e["t"] for e in evs if e["e"] == "Cfg"]
            if not started or started[-1] in ended:
                raise vlib.Infra("replay shard %s died outside a behaviour:\n%s" % (tag, tail[-3000:]))
            dead = started[-1]
            seq = max(e["seq"] for e in evs if e["t"] == dead) + 1
            first = tail[tail.find("panic:"):].splitlines()[0][:200]
            events.append({"t": dead, "seq": seq, "e": "Crash", "what": first})
            crashes.append((dead, first))
            ids = [it["id"] for it in part]
            rest = part[ids.index(dead) + 1:]
            if rest:
                queue.append((s, gen + 1, rest))
    events.sort(key=lambda e: (e["t"], e["seq"]))
    return events, crashes


def validate_parallel(ctx, module, events, keep, cfg_text, batch=500, jobs=12):
    """ctx.validate, with the batches (independent TLC runs, one worker each) run side by side."""
    events = [e for e in events if e["e"] in keep]
    by_t = {}
    for e in events:
        by_t.setdefault(e["t"], []).append(e)
    ts = sorted(by_t)
    chunks = [ts[i:i + batch] for i in range(0, len(ts), batch)]

    def one(arg):
        bi, chunk = arg
        d = ctx.sub("%s-b%d" % (module, bi))
        with open(os.path.join(d, "trace.ndjson"), "w") as f:
            for t in chunk:
                for e in by_t[t]:
                    f.write(json.dumps(e) + "\n")
        r = ctx.tlc(module, None, name=os.path.basename(d), workers=1, timeout=1800, cfg_text=cfg_text, heap="2g")
        if not r["ok"]:
            raise vlib.Infra("trace validation run failed: invariant=%s error=%s (see %s/tlc.out)" % (
                r["invariant"], r["error"], r["dir"]))
        got = None
        for tag, val in r["printed"]:
            if tag == "VERDICTS":
                got = val
        if got is None:
            raise vlib.Infra("no VERDICTS line from %s (see %s/tlc.out)" % (module, r["dir"]))
        return chunk, got, r["distinct"]

    verdicts, states = {}, 0
    with ThreadPoolExecutor(max_workers=jobs) as ex:
        for chunk, got, n in ex.map(one, enumerate(chunks)):
            states += n
            for rec in got:
                verdicts.setdefault(rec["t"], []).append(rec)
            for t in chunk:
                if t not in verdicts:
                    raise vlib.Infra("trace %s produced no verdict (incomplete trace?)" % t)
    ctx.cov["trace_states"] = ctx.cov.get("trace_states", 0) + states
    return verdicts, by_t


def normalise(events):
    """Fold each "Permits" event (logged by the connection tap immediately before the command
    is handed to the server) into the following "Cmd" event; drop free-text fields."""
    out, pend = [], None
    for e in events:
        k = e["e"]
        if k == "Permits":
            pend = e
            continue
        if k == "Cmd":
            e = dict(e)
            src = pend or {"all": -1, "ip": -1, "source": -1}
            e.update(all=src["all"], ip=src["ip"], source=src["source"])
            pend = None
        elif k == "Reply":
            e = {x: e[x] for x in ("t", "seq", "e", "code", "i")}
        elif k == "Tgt":
            e = {x: e[x] for x in ("t", "seq", "e", "tgt", "att", "op", "r", "res", "st", "ts")}
        elif k == "End":
            e = {x: e[x] for x in ("t", "seq", "e", "open", "all", "ip", "source")}
        elif k == "Crash":
            e = {x: e[x] for x in ("t", "seq", "e")}
        elif k == "Env":
            e = {x: e[x] for x in ("t", "seq", "e", "k", "res")}
        out.append(e)
    return out


def repo_test_traces(ctx, open_devs, by_dev):
    """The other direction of the binding: run the REPOSITORY'S OWN tests of internal/endpoint/smtp, unchanged,
    with the trace hooks compiled in (build tag verif; verif_trace.go / verif_trace_test.go) and validate the
    recorded life of every Session object against Session.tla (SessionHookTrace.tla): the tests' own assertions
    are whatever they are, the SessionObs predicates are evaluated at every step of what the tests made the
    sessions do. A failing repository test is not a verdict of this check; its traces still count."""
    if not os.path.exists(os.path.join(ctx.repo, "internal/endpoint/smtp/verif_trace.go")):
        ctx.cov["repo_test_traces"] = {"skipped": {"the tree under test has no trace hooks (verif_trace.go)": 1}}
        ctx.log("repository's own endpoint tests: no trace hooks in %s, part skipped" % ctx.repo)
        return 0
    d = ctx.sub("repotests")
    raw = os.path.join(d, "raw.ndjson")
    tmp = os.path.join(d, "tmp")
    os.makedirs(tmp, exist_ok=True)
    env = vlib.goenv()
    env.update(VERIF_TRACE_OUT=raw, TMPDIR=tmp)
    p = subprocess.run(["timeout", "600", "go", "test", "-tags", "verif", "-count=1", "-v", "./internal/endpoint/smtp/"],
                       cwd=ctx.repo, env=env, stdout=subprocess.PIPE, stderr=subprocess.STDOUT, text=True)
    if not os.path.exists(raw) or os.path.getsize(raw) == 0:
        raise vlib.Infra("the repository's endpoint tests recorded nothing with the hooks on (rc=%d): %s" % (
            p.returncode, p.stdout[-1500:]))
    tests_run = sum(1 for l in p.stdout.splitlines() if l.startswith("=== RUN"))
    tests_failed = sum(1 for l in p.stdout.splitlines() if l.startswith("--- FAIL"))
    by_key = {}
    n_events = 0
    for line in open(raw):
        e = json.loads(line)
        by_key.setdefault(e["key"], []).append(e)
        n_events += 1
    events, info, skipped = [], {}, {}
    opmap = {"PStart": "start", "PAddRcpt": "rcpt", "PBody": "body", "PBodyNA": "bodyNA", "PCommit": "commit",
             "PAbort": "abort"}
    no_calls = 0
    for k, key in enumerate(sorted(by_key, key=lambda x: int(x[1:]))):
        evs = sorted(by_key[key], key=lambda e: e["seq"])
        cmds = [e for e in evs if e["e"] == "Cmd"]
        reason = None
        if evs[0]["e"] != "Sess":
            reason = "no session start recorded"
        elif evs[0]["lmtp"]:
            reason = "LMTP session: per-recipient replies are not visible to the hooks"
        elif len({e["defer"] for e in cmds}) > 1:
            reason = "sender-reject mode changed during the session"
        names, too_many = {}, False

        def rid(a):
            if a not in names:
                names[a] = ["ra", "rb", "rc", "r4", "r5", "r6", "r7"][min(len(names), 6)]
            return names[a]
        t = 3000000 + k
        out = [{"t": t, "seq": 0, "e": "Cfg", "lmtp": bool(evs[0].get("lmtp")),
                "defer": cmds[0]["defer"] if cmds else True, "session": key}]
        for e in evs[1:]:
            n = {"t": t, "seq": e["seq"]}
            if e["e"] == "Cmd":
                if e["v"] == "RSET":
                    n["e"] = "Reset"
                    too_many = too_many or len(names) > 3
                    names.clear()     # recipient identities are per transaction (SMTP)
                elif e["v"] == "QUIT":
                    n["e"] = "Logout"
                else:
                    n.update(e="Cmd", v=e["v"], a=e["cls"] if e["v"] != "DATA" else "ok",
                             r=rid(e.get("clean", e["arg"])) if e["v"] == "RCPT" else "")
            elif e["e"] in opmap:
                st = {rid(r): v for r, v in (e.get("st") or {}).items()}
                n.update(e="Tgt", tgt="T1", att=e["d"], op=opmap[e["e"]], r=rid(e["r"]) if "r" in e else "",
                         res=e.get("res", ""), st=st, ts=e["ts"])
            elif e["e"] == "Reply":
                n.update(e="Reply", code=e["code"], i=1)
            elif e["e"] == "End":
                n.update(e="End", open=e["open"])
            else:
                reason = reason or "unknown hook event " + e["e"]
                continue
            out.append(n)
        if too_many or len(names) > 3:
            reason = reason or "more than 3 distinct recipients in one transaction"
        if reason:
            skipped[reason] = skipped.get(reason, 0) + 1
            continue
        if out[-1]["e"] != "End":
            out.append({"t": t, "seq": out[-1]["seq"] + 1, "e": "Cut"})
        if len(out) <= 2:
            no_calls += 1
        events += out
        info[t] = {"session": key, "events": out}
    if not events:
        raise vlib.Infra("no usable trace from the repository's endpoint tests")
    # binding self-test: a trace with one corrupted field must not be accepted
    st_t = None
    for t, i in info.items():
        if any(e["e"] == "Tgt" and e["op"] == "commit" and e["res"] == "ok" for e in i["events"]):
            bad = [dict(e, t=3900001) for e in i["events"]]
            next(e for e in bad if e["e"] == "Tgt" and e["op"] == "commit")["res"] = "perm"
            events += bad
            st_t = 3900001
            break
    hcfg = cfg(["ra", "rb", "rc"], [1], ALL_FAILS, 1000, 1000, devs=open_devs, tail=TRACE_TAIL, spec="TSpec",
               holds=["FALSE"])
    verdicts, by_t = ctx.validate("SessionHookTrace", None, events, name="repotests-trace", cfg_text=hcfg)
    ok = drift = viol_n = 0
    for t, recs in sorted(verdicts.items()):
        viol = sorted(set(v for r in recs for v in r["viol"]))
        conform = [r for r in recs if not r["drift"]]
        if t == st_t:
            if conform and not viol:
                raise vlib.Infra("binding self-test failed: a corrupted repo-test trace was accepted")
            continue
        devs = sorted(set(dv for r in conform for dv in (r.get("devs") or [])))
        if viol:
            allowed = set()
            for dv in devs:
                for f in by_dev.get(dv, []):
                    allowed |= set(f["match"].get("predicates", []))
            if conform and devs and set(viol) <= allowed:
                for dv in devs:
                    for f in by_dev.get(dv, []):
                        ctx.known(f["id"], f["what"])
                ok += 1
                continue
            viol_n += 1
            ctx.violation("the repository's own endpoint tests make session %s violate %s" % (
                info[t]["session"], ",".join(viol)),
                {"property": "C03", "repotest": info[t], "violated": viol,
                 "how": "bin/check C03 --replay <this file> (re-runs the package's tests with the hooks on)"})
        elif conform:
            ok += 1
        else:
            drift += 1
            print("DRIFT property=C03 repo-test session %s first-unexplained-seq=%s" % (
                info[t]["session"], min(r["driftAt"] for r in recs)))
    ctx.cov["repo_test_traces"] = {
        "package": "internal/endpoint/smtp", "tests_run": tests_run, "tests_failed": tests_failed,
        "go_test_rc": p.returncode, "sessions": len(by_key), "events": n_events, "validated": ok, "drift": drift,
        "violating": viol_n, "skipped": skipped, "sessions_without_calls": no_calls,
        "binding_selftest": "corrupted trace rejected" if st_t else "no committed transaction to corrupt"}
    ctx.log("repository's own endpoint tests with hooks: %d tests, %d sessions, %d events; validated %d, drift %d, "
            "skipped %d" % (tests_run, len(by_key), n_events, ok, drift, sum(skipped.values())))
    return ok


def run(ctx, replay):
    thorough = ctx.tier == "thorough"
    findings = load_findings()
    open_f = [f for f in findings if f.get("status", "open") == "open"]
    open_devs = sorted({f["match"]["deviation"] for f in open_f})
    by_dev = {}
    for f in open_f:
        by_dev.setdefault(f["match"]["deviation"], []).append(f)
    unknown = [d for d in open_devs if d not in ALL_DEVS]
    if unknown:
        raise vlib.Infra("known_findings names deviations Session.tla does not have: %s" % unknown)

    # ---- (T) exhaustive model checking + (B) behaviours out of TLC, run side by side ----
    if replay and "repotest" in json.load(open(replay)):
        repo_test_traces(ctx, open_devs, by_dev)
        return
    small = dict(rcpts=["rb"], nts=[2], fails=["perm"], maxfaults=1, maxcmds=5, holds=["FALSE"])

    def job_mc():
        if thorough:
            return ctx.tlc_expect_ok("Session", None, name="mc", workers=12, timeout=3000, heap="12g",
                                     cfg_text=cfg(["ra", "rb"], [1, 2, 3], ["temp", "perm"], 2, 8, tail=MC_TAIL))
        return ctx.tlc_expect_ok("Session", None, name="mc", workers=8, timeout=1500, heap="4g",
                                 cfg_text=cfg(["ra", "rb"], [1, 2], ["perm"], 1, 6, tail=MC_TAIL))

    def job_live():   # liveness (every session ends) on a smaller bound
        return ctx.tlc_expect_ok("Session", None, name="live", workers=2, timeout=900, heap="2g",
                                 cfg_text=cfg(["ra", "rb"], [1, 2], ["perm"], 1, 5 if thorough else 4,
                                              tail=MC_TAIL_LIVE))

    def job_asis(dv):  # every named deviation must be found by the same invariant (non-vacuity)
        return ctx.tlc("Session", None, name="asis-" + dv, workers=2, timeout=600, heap="1g",
                       cfg_text=cfg(devs=[dv], tail="VIEW View\nINVARIANTS NoViolation\n", **small))

    def job_gen():     # one shortest behaviour per distinct final state of the as-is state graph
        if thorough:
            c = cfg(["ra", "rb"], [1, 2, 3], ["temp", "perm"], 2, 6, devs=open_devs, gen=True,
                    tail="VIEW GenViewPlain\n" + GEN_TAIL)
        else:
            c = cfg(["ra", "rb"], [1, 2], ["perm"], 1, 5, devs=open_devs, gen=True,
                    tail="VIEW GenViewPlain\n" + GEN_TAIL)
        return ctx.tlc("Session", None, name="gen", workers=6, timeout=2400, cfg_text=c, heap="6g")

    CORE = ["HELO:", "MAIL:ok", "MAIL:null", "RCPT:ok", "DATA:ok", "RSET:", "DROP:"]

    def job_core():    # core alphabet, one command deeper: one behaviour per (final state, set of event kinds)
        if thorough:
            c = cfg(["ra", "rb"], [1, 2, 3], ALL_FAILS, 1, 7, devs=open_devs, gen=True,
                    tail="VIEW GenView\n" + GEN_TAIL, allowed=CORE)
        else:
            c = cfg(["ra", "rb"], [1, 2], ALL_FAILS, 1, 6, devs=open_devs, gen=True,
                    tail="VIEW GenView\n" + GEN_TAIL, allowed=CORE)
        return ctx.tlc("Session", None, name="core", workers=4, timeout=2400, cfg_text=c, heap="6g")

    def job_focus():   # the deep corner of the nested-MAIL deviation: a release that kills the server
        return ctx.tlc("Session", None, name="focus", workers=4, timeout=900, heap="2g",
                       cfg_text=cfg(["ra"], [1], [], 0, 8, devs=open_devs, gen=True, tail="VIEW GenView\n" + GEN_TAIL,
                                    allowed=["HELO:", "MAIL:ok", "MAIL:rej", "RCPT:ok", "RSET:", "DROP:"]))

    def job_fclass():  # every failure class (temporary / permanent / not annotated) at every target call
        return ctx.tlc("Session", None, name="fclass", workers=3, timeout=900, heap="2g",
                       cfg_text=cfg(["rb"], [2], ALL_FAILS, 1, 6 if thorough else 5, devs=open_devs, gen=True,
                                    tail="VIEW GenViewRes\n" + GEN_TAIL, holds=["FALSE"],
                                    allowed=["HELO:", "MAIL:ok", "RCPT:ok", "DATA:ok", "RSET:", "DROP:"]))

    def job_spell():   # LMTP: the same recipient in another spelling in a later transaction of the session
        al = ["HELO:", "MAIL:ok", "RCPT:ok", "RCPT:up", "DATA:ok", "RSET:", "DROP:"] + (["DATA:loop"] if thorough else [])
        return ctx.tlc("Session", None, name="spell", workers=4, timeout=900, heap="3g",
                       cfg_text=cfg(["ra"], [1], ["perm"], 0, 8, devs=open_devs, gen=True,
                                    tail="VIEW GenViewTx\n" + GEN_TAIL, lmtps=["TRUE"], holds=["FALSE"], allowed=al))

    ENV_ALPHABET = ["HELO:", "MAIL:ok", "RCPT:ok", "DATA:ok", "RSET:", "DROP:"]
    # plan name -> commands per behaviour (see Session!EnvPlans)
    ENV_PLANS = {"SP": 6, "SPM": 5, "PS": 5, "PWM": 5, "WPM": 5, "SS": 5} if thorough else \
        {"SP": 5, "SPM": 4, "PS": 4, "PWM": 4}

    def job_mcenv():   # the design with an unrestricted environment at the limits group between the commands
        return ctx.tlc_expect_ok("Session", None, name="mc-env", workers=2, timeout=900, heap="2g",
                                 cfg_text=cfg(["ra"], [1, 2], ["perm"], 1, 6 if thorough else 5, tail=MC_TAIL,
                                              holds=["FALSE"], maxenv=3 if thorough else 2))

    def job_env(plan, mc):   # where the events of an environment plan fall between the commands of the conversation
        return ctx.tlc("Session", None, name="env-" + plan, workers=1, timeout=900, heap="1g",
                       cfg_text=cfg(["ra"], [1], [], 0, mc, devs=open_devs, gen=True, tail="VIEW GenViewEnv\n" + GEN_TAIL,
                                    holds=["FALSE"], allowed=ENV_ALPHABET, maxenv=3, envplan=plan))

    def job_alias():   # LMTP, one target, two recipients: the histories in which a target holds several recipients
        return ctx.tlc("Session", None, name="alias", workers=2, timeout=900, heap="1g",
                       cfg_text=cfg(["ra", "rb"], [1], ALL_FAILS, 2 if thorough else 1, 7,
                                    devs=open_devs, gen=True, tail="VIEW GenViewRes\n" + GEN_TAIL, lmtps=["TRUE"],
                                    holds=["FALSE"], allowed=["HELO:", "MAIL:ok", "RCPT:ok", "DATA:ok", "RSET:", "DROP:"]))

    def job_rcptbody():   # LMTP: a fault at the recipient stage AND one at the body stage of one transaction
        # (two faults; the body stage also fails through the body check, "DATA:chk"), targets with and without
        # PartialDelivery, the refused recipient retried (one command more than the shortest such conversation)
        return ctx.tlc("Session", None, name="rcptbody", workers=3, timeout=900, heap="3g",
                       cfg_text=cfg(["ra", "rb"], [1, 2] if thorough else [1], ["temp", "perm"] if not thorough else ALL_FAILS, 2,
                                    7, devs=open_devs, gen=True, tail="VIEW GenViewRes\n" + GEN_TAIL,
                                    lmtps=["TRUE"] if not thorough else ["TRUE", "FALSE"], holds=["FALSE"],
                                    allowed=["HELO:", "MAIL:ok", "RCPT:ok", "DATA:ok", "DATA:chk", "DROP:"]))

    def job_sim(i, n, rc, nts, mf, mc):
        return ctx.tlc("Session", None, name="sim%d" % i, workers=1, timeout=1500, simulate=n, depth=150, heap="2g",
                       cfg_text=cfg(rc, nts, ALL_FAILS, mf, mc, devs=open_devs, gen=True, tail=GEN_TAIL))

    if replay:
        obj = json.load(open(replay))
        behs = [obj["behaviour"]]
        behs[0]["id"] = 1
    else:
        sims = [(6000, ["ra", "rb", "rc"], [1, 2, 3], 2, 8), (3000, ["ra", "rb"], [1, 2, 3], 3, 12)] if thorough \
            else [(400, ["ra", "rb", "rc"], [1, 2, 3], 2, 8)]
        with ThreadPoolExecutor(max_workers=16) as ex:
            f_mc = ex.submit(job_mc)
            f_gen = ex.submit(job_gen)
            f_live = ex.submit(job_live)
            f_focus = ex.submit(job_focus)
            f_core = ex.submit(job_core)
            f_spell = ex.submit(job_spell)
            f_fclass = ex.submit(job_fclass)
            f_mcenv = ex.submit(job_mcenv)
            f_alias = ex.submit(job_alias)
            f_rb = ex.submit(job_rcptbody)
            f_env = {pl: ex.submit(job_env, pl, mc) for pl, mc in ENV_PLANS.items()}
            f_asis = {dv: ex.submit(job_asis, dv) for dv in ALL_DEVS}
            f_sim = [ex.submit(job_sim, i, *a) for i, a in enumerate(sims)]
            f_repo = ex.submit(repo_test_traces, ctx, open_devs, by_dev)   # cheap, independent of the rest
            r = f_mc.result()
            rl = f_live.result()
            asis = {dv: f.result() for dv, f in f_asis.items()}
            g = f_gen.result()
            gs = [f.result() for f in f_sim]
            n_repo = f_repo.result()
            gf = f_focus.result()
            gc = f_core.result()
            gsp = f_spell.result()
            gfc = f_fclass.result()
            rme = f_mcenv.result()
            gal = f_alias.result()
            grb = f_rb.result()
            genv = {pl: f.result() for pl, f in f_env.items()}
        ctx.cov["env_design_states"] = rme["distinct"]
        ctx.log("TLC exhaustive (design with the environment at the limits group): %d distinct states, %.1fs" % (
            rme["distinct"], rme["wall"]))
        ctx.cov["states"] = r["distinct"]
        ctx.cov["transitions"] = r["generated"]
        ctx.cov["model_depth"] = r["depth"]
        ctx.log("TLC exhaustive (design, Devs={}): %d distinct states, %d transitions, depth %d, %.1fs" % (
            r["distinct"], r["generated"], r["depth"], r["wall"]))
        ctx.cov["liveness_states"] = rl["distinct"]
        ctx.log("liveness (every session ends): %d states, %.1fs" % (rl["distinct"], rl["wall"]))
        for dv, ra in asis.items():
            if ra["invariant"] != "NoViolation":
                raise vlib.Infra("as-is model with %s does not violate NoViolation (vacuous predicate?) "
                                 "invariant=%s error=%s" % (dv, ra["invariant"], ra["error"]))
        ctx.cov["asis_counterexample_found"] = sorted(asis)
        ctx.log("as-is models: each of %d named deviations violates the invariant" % len(asis))
        if not g["ok"]:
            raise vlib.Infra("behaviour generation failed: %s %s" % (g["invariant"], g["error"]))
        ex_b = behaviours_from(g)
        ctx.cov["asis_states"] = g["distinct"]
        ctx.cov["final_state_behaviours"] = len(ex_b)
        ctx.log("as-is state graph (open deviations on): %d states, %d distinct final states, %.1fs" % (
            g["distinct"], len(ex_b), g["wall"]))
        behs = stratified(ctx.rng, ex_b, 20000 if thorough else 1000)
        if not gc["ok"]:
            raise vlib.Infra("core behaviour generation failed: %s %s" % (gc["invariant"], gc["error"]))
        core_b = behaviours_from(gc)
        ctx.cov["core_final_state_behaviours"] = len(core_b)
        ctx.log("core alphabet, one command deeper: %d states, %d (final state, event kinds) classes, %.1fs" % (
            gc["distinct"], len(core_b), gc["wall"]))
        behs += stratified(ctx.rng, core_b, 25000 if thorough else 4000)
        if not gf["ok"]:
            raise vlib.Infra("focused behaviour generation failed: %s %s" % (gf["invariant"], gf["error"]))
        fb = behaviours_from(gf)
        crashy = [b for b in fb if b["crash"]]
        ctx.cov["model_crash_behaviours"] = len(crashy)
        if not gsp["ok"]:
            raise vlib.Infra("spelling-focused behaviour generation failed: %s %s" % (gsp["invariant"], gsp["error"]))
        sp_b = behaviours_from(gsp)
        ctx.cov["spelling_behaviours"] = len(sp_b)
        if not gfc["ok"]:
            raise vlib.Infra("fault-class behaviour generation failed: %s %s" % (gfc["invariant"], gfc["error"]))
        fc_b = behaviours_from(gfc)
        ctx.cov["fault_class_behaviours"] = len(fc_b)
        behs += stratified(ctx.rng, fc_b, 8000 if thorough else 2500)
        # every history that names one mailbox in two spellings across transactions and then reaches DATA
        # is replayed (capped); the rest of the corner is sampled
        sp_hit = [b for b in sp_b if two_spellings(b)]
        ctx.cov["two_spelling_behaviours"] = len(sp_hit)
        behs += vlib.sample(ctx.rng, sp_hit, 6000 if thorough else 1500)
        behs += stratified(ctx.rng, [b for b in sp_b if not two_spellings(b)], 6000 if thorough else 1500)
        behs += vlib.sample(ctx.rng, crashy, 40 if thorough else 3)
        behs += vlib.sample(ctx.rng, [b for b in fb if not b["crash"]], 400 if thorough else 40)
        # every history with a recipient refused by its target, another accepted and a body-stage failure in one
        # transaction is replayed (capped); the rest of that state graph is sampled
        if not grb["ok"]:
            raise vlib.Infra("recipient+body fault behaviour generation failed: %s %s" % (grb["invariant"], grb["error"]))
        rb_b = behaviours_from(grb)
        rb_hit = [b for b in rb_b if rcpt_then_body(b)]
        ctx.cov["rcpt_and_body_fault_behaviours"] = len(rb_hit)
        if not rb_hit:
            raise vlib.Infra("no behaviour with a recipient-stage and a body-stage failure in one transaction")
        behs += stratified(ctx.rng, rb_hit, 4000 if thorough else 700)
        behs += stratified(ctx.rng, [b for b in rb_b if not rcpt_then_body(b)], 2000 if thorough else 200)
        for gi in gs:
            if not gi["ok"]:
                raise vlib.Infra("behaviour simulation failed: %s %s" % (gi["invariant"], gi["error"]))
            behs += behaviours_from(gi)
        # the environment at the limits group: per plan, one behaviour per (final state, position of every event);
        # the ones in which an event falls inside a transaction (after an accepted MAIL / RCPT) first
        def live_env(b):
            last = None
            for h in b["hist"]:
                if h.get("a") == "Cmd":
                    last = h
                elif h.get("a") == "Env" and last is not None and last["v"] in ("MAIL", "RCPT"):
                    return True
            return False
        n_env = {}
        for pl, ge in genv.items():
            if not ge["ok"]:
                raise vlib.Infra("environment behaviour generation (%s) failed: %s %s" % (pl, ge["invariant"], ge["error"]))
            eb = [b for b in behaviours_from(ge) if any(h.get("a") == "Env" for h in b["hist"])]
            n_env[pl] = len(eb)
            if thorough:
                behs += eb
            else:
                live = [b for b in eb if live_env(b)]
                behs += stratified(ctx.rng, live, 80) + stratified(ctx.rng, [b for b in eb if not live_env(b)], 30)
        ctx.cov["environment_behaviours"] = n_env
        behs = dedup(behs)
        if not behs:
            raise vlib.Infra("TLC produced no behaviours")
        # harness-only concretisation of the pipeline (the design is independent of it): recipients rewritten by a
        # real replace_rcpt so that several original recipients reach a target under ONE address (aliases of a
        # mailbox), in every scope a modifier can be configured in
        def shared_target(b):   # two accepted recipients on one target in a transaction that reaches DATA / BDAT LAST
            per = {}
            for h in b["hist"]:
                if h.get("a") == "Tgt" and h["op"] == "rcpt" and h["res"] == "ok":
                    per[h["tgt"]] = per.get(h["tgt"], 0) + 1
                elif h.get("a") == "Cmd" and h["v"] in ("RSET", "HELO"):
                    per = {}
                elif h.get("a") == "Cmd" and (h["v"] == "DATA" or (h["v"] == "BDAT" and h["arg"] == "last")):
                    if any(v > 1 for v in per.values()):
                        return True
                    per = {}
            return False

        def alias_variants(b, kinds):
            return [dict(b, cfg=dict(b["cfg"], alias=k)) for k in kinds if k in ("dest", "destself") or b["cfg"]["nt"] == 1]
        if not gal["ok"]:
            raise vlib.Infra("shared-target behaviour generation failed: %s %s" % (gal["invariant"], gal["error"]))
        pool = dedup([dict(b) for b in behaviours_from(gal) + ex_b + core_b + fc_b + behs
                      if not any(h.get("a") == "Env" for h in b["hist"])])
        sh_l = [b for b in pool if b["cfg"]["lmtp"] and shared_target(b)]
        sh_s = [b for b in pool if not b["cfg"]["lmtp"] and shared_target(b)]
        rest = [b for b in pool if not shared_target(b)]
        al = []
        for b in stratified(ctx.rng, sh_l, 400 if thorough else 60):
            al += alias_variants(b, ["dest", "destself", "src", "global"])
        for b in stratified(ctx.rng, sh_s, 200 if thorough else 20) + stratified(ctx.rng, rest, 200 if thorough else 20):
            al += alias_variants(b, [ctx.rng.choice(["dest", "destself", "src", "global"])])
        # ... the two-stage failures with the recipients rewritten to one mailbox (the refused and the accepted
        # recipient are then the same address for the target)
        for b in stratified(ctx.rng, [dict(b) for b in rb_hit if b["cfg"]["nt"] == 1], 300 if thorough else 40):
            al += alias_variants(b, ["dest", "destself", "src", "global"])
        # ... and who refuses: the recipient rej@ / the message of class "chk" is refused by a failing modifier
        # (top level, source block, destination blocks) instead of a `reject` destination / the scripted check
        def has_cmd(b, v, a):
            return any(h.get("a") == "Cmd" and h["v"] == v and h["arg"] == a for h in b["hist"])
        vias = ["gmod", "smod", "dmod"]
        for b in stratified(ctx.rng, [b for b in pool if has_cmd(b, "DATA", "chk")], 600 if thorough else 90):
            al.append(dict(b, cfg=dict(b["cfg"], chkvia=ctx.rng.choice(vias))))
        for b in stratified(ctx.rng, [b for b in pool if has_cmd(b, "RCPT", "rej")], 600 if thorough else 60):
            al.append(dict(b, cfg=dict(b["cfg"], rejvia=ctx.rng.choice(vias))))
        ctx.cov["alias_candidates_lmtp_shared_target"] = len(sh_l)
        ctx.cov["pipeline_variants_replayed"] = len(al)
        behs = dedup(behs + al)
        # harness-only concretisation of a connection lost inside DATA: every buffer mode of the endpoint
        # (ram, fs, auto with the limit below / above the message size) x where the connection is lost
        # (inside the body, right after the header, before the first byte)
        def live_cut(b):     # a DATA of class "cut" in a transaction that has an accepted recipient
            ok = False
            for h in b["hist"]:
                if h.get("a") == "Tgt" and h["op"] == "rcpt" and h["res"] == "ok":
                    ok = True
                elif h.get("a") == "Cmd" and h["v"] in ("RSET", "HELO"):
                    ok = False
                elif h.get("a") == "Cmd" and h["v"] == "DATA":
                    if h["arg"] == "cut" and ok:
                        return True
                    ok = False
            return False
        cutb = dedup([dict(b) for b in ex_b + behs if live_cut(b)])
        extra = []
        for b in vlib.sample(ctx.rng, cutb, 300 if thorough else 50):
            extra.append(b)
            for buf in BUFS:
                for cp in CUTS:
                    if (buf, cp) != ("ram", "mid"):
                        extra.append(dict(b, cfg=dict(b["cfg"], buf=buf, cutpos=cp)))
        ctx.cov["cut_data_behaviours"] = len(cutb)
        ctx.cov["cut_data_variants_replayed"] = len(extra)
        behs = dedup(behs + extra)
    ctx.log("%d behaviours to replay" % len(behs))

    # ---- replay on the real endpoint -----------------------------------------
    binary = ctx.build_harness("sessioncheck")
    raw, crashes = run_tolerant(ctx, binary, [{"id": b["id"], "cfg": b["cfg"], "hist": b["hist"]} for b in behs])
    events = normalise(raw)
    by_id = {b["id"]: b for b in behs}
    missing = set(by_id) - {e["t"] for e in events if e["e"] in ("End", "Crash")}
    ctx.log("replayed: %d events, %d server crashes" % (len(events), len(crashes)))
    if missing:
        raise vlib.Infra("behaviours without a final event: %s" % sorted(missing)[:10])
    stuck = [e["t"] for e in raw if e["e"] in ("Stuck", "BadReply")]
    if stuck:
        raise vlib.Infra("harness could not drive behaviours %s (Stuck/BadReply event)" % stuck[:10])

    # binding self-test: a corrupted and a truncated copy of an accepted trace
    ev_by_t = {}
    for e in events:
        ev_by_t.setdefault(e["t"], []).append(e)
    selftest = {}
    if not replay:
        base = None
        for b in behs:
            evs = ev_by_t.get(b["id"], [])
            if not b["cfg"]["lmtp"] and evs[-1]["e"] == "End" and \
                    any(e["e"] == "Tgt" and e["op"] == "commit" for e in evs) and \
                    not any(e["e"] == "Tgt" and e["res"] not in ("ok", "") for e in evs) and \
                    not any(e["e"] == "Cmd" and e["v"] == "DATA" and e["a"] != "ok" for e in evs):
                base = evs
                break
        if base:
            c1 = [dict(e, t=900001) for e in base]
            for e in c1:
                if e["e"] == "Tgt" and e["op"] == "commit":
                    e["res"] = "perm"      # corrupt one logged field
                    break
            c2 = [dict(e, t=900002) for e in base]
            k = next(i for i, e in enumerate(c2) if e["e"] == "Tgt" and e["op"] == "commit")
            del c2[k]                      # drop one event
            events = events + c1 + c2
            selftest = {900001: "corrupt-field", 900002: "drop-event"}

    tcfg = cfg(["ra", "rb", "rc"], [1, 2, 3], ALL_FAILS, 1000, 1000, devs=open_devs,
               tail=TRACE_TAIL, spec="TSpec", maxenv=1000)
    verdicts, by_t = validate_parallel(ctx, "SessionTrace", events, KEEP, tcfg, batch=500)

    ok = drift = known_n = 0
    preds, devs_seen = {}, {}
    for t, recs in sorted(verdicts.items()):
        rec = recs[0]
        viol = sorted(set(rec["viol"]))
        if t in selftest:
            if not rec["drift"] and not viol:
                raise vlib.Infra("binding self-test failed: %s trace was accepted" % selftest[t])
            continue
        devs = sorted(rec.get("devs") or [])
        if viol:
            for v in viol:
                preds[v] = preds.get(v, 0) + 1
            allowed = set()
            for dv in devs:
                for f in by_dev.get(dv, []):
                    allowed |= set(f["match"].get("predicates", []))
            if not rec["drift"] and devs and all(dv in by_dev for dv in devs) and set(viol) <= allowed:
                # explained step by step by the as-is model through exactly these named
                # deviations, and nothing but their listed predicates is false
                known_n += 1
                for dv in devs:
                    devs_seen[dv] = devs_seen.get(dv, 0) + 1
                    for f in by_dev[dv]:
                        ctx.known(f["id"], f["what"])
                continue
            what = "session violates " + ",".join(viol) + (" (deviations taken: %s)" % ",".join(devs) if devs else "") \
                   + (" [trace not explained by the model from seq %s]" % rec["driftAt"] if rec["drift"] else "")
            ctx.violation(what, {"property": "C03", "behaviour": by_id[t], "trace": by_t[t],
                                 "violated": viol, "deviations": devs, "drift": rec["drift"],
                                 "how": "bin/check C03 --replay <this file>"})
        elif not rec["drift"]:
            ok += 1
        else:
            drift += 1
            print("DRIFT property=C03 trace=%d first-unexplained-seq=%s" % (t, rec["driftAt"]))
    if selftest:
        ctx.cov["binding_selftest"] = "corrupted-field and dropped-event traces rejected"
    ctx.cov["traces_validated_against_impl"] = ok
    if not replay:
        ctx.cov["traces_validated_against_impl"] += n_repo
    ctx.cov["traces_explained_by_known_deviations"] = known_n
    ctx.cov["drift_traces"] = drift
    ctx.cov["evaluations"] = len(behs)
    ctx.cov["distinct_nontrivial"] = sum(1 for b in behs if nontrivial(b))
    ctx.cov["server_crashes_observed"] = len(crashes)
    ctx.cov["deviations_taken_by_real_code"] = devs_seen
    ctx.cov["violated_predicates"] = preds
    ctx.cov["rule"] = ("behaviours = complete client scripts + fault plans of Session.tla printed by TLC "
                       "with the deviations of the open findings enabled: (a) one shortest behaviour per distinct final state of "
                       "the state graph (quick: <=5 commands, stratified sample of 1000; thorough: <=6 commands, 20000); (b) "
                       "over the core alphabet HELO/MAIL ok,null/RCPT ok/DATA ok/RSET/drop one behaviour per distinct (final "
                       "state, set of event kinds: commands, DATA reply classes, target calls with ok/fail) (quick: <=6 commands, "
                       "stratified sample of 5000; thorough: <=7 commands, 25000); (c) focused corners: every failure class (annotated temporary / permanent / not annotated) at every "
                       "target call of a two-target transaction; nested MAIL with an idle source bucket; LMTP with one recipient in two spellings "
                       "across the transactions of a session (<=8 commands); (d) "
                       "-simulate with VERIF_SEED up to 12 commands; (e) the environment at the limits group (Session!EnvStep: time "
                       "passes beyond the reap interval, a storm of other source addresses / sender domains over a bucket table "
                       "capped at 4 entries, another session of the same address and sender domain taking / returning its "
                       "permits) per plan (SP, SPM, PS, PWM; thorough also WPM, SS): one behaviour per (final state, position of every "
                       "event between the commands), quick: stratified sample of 110 per plan, thorough: all; (f) harness-only "
                       "pipeline variants of sampled behaviours: recipients rewritten N->1 by a real replace_rcpt in destination / "
                       "source / global scope (all LMTP histories with two recipients on one target first), the refused recipient "
                       "/ the refused message refused by a failing modifier in each scope instead of a reject directive / the "
                       "check; (g) LMTP with two faults in one transaction at two stages: a recipient refused by its target's "
                       "AddRcpt (optionally retried), another accepted, then the body check or the target's Body / "
                       "BodyNonAtomic failing (<=7 commands, targets with and without PartialDelivery; quick: one target, "
                       "all such histories up to 700; thorough: 1-2 targets, SMTP as well), also with the recipients "
                       "rewritten to one mailbox; de-duplicated; stratified = round-robin over protocol x "
                       "mode x targets x routing x deviations x fault placement; non-trivial = "
                       "a scripted failure, an invalid/odd argument, RSET/drop/pipelining or BDAT")
    for b in behs[:3]:
        ctx.cov["samples"].append({"behaviour": b, "trace": by_t.get(b["id"], [])[:60]})
    ctx.cov["exhaustive"] = False
    ctx.assumptions += [
        "explored client alphabet: EHLO/LHLO, MAIL {ok, null sender, upper-case domain, refused by a sender check, "
        "syntax error}, "
        "RCPT {per recipient: ok / upper-case domain; refused destination; syntax error}, DATA {ok, routing loop, "
        "oversized header, body check reject, connection cut inside the body}, BDAT/BDAT LAST, RSET, NOOP, QUIT, drop; "
        "pipelined groups; AUTH is not exercised (C14)",
        "restrictions of the alphabet: no EHLO while a BDAT transfer is open; BDAT only with a sender and a recipient; "
        "one spelling per recipient and transaction (another spelling in a later transaction is explored); LMTP "
        "with one target per recipient (two targets setting the status of one recipient race with go-smtp's "
        "collector)",
        "faults are injected in the scripted targets (Start/AddRcpt/Body/BodyNonAtomic/Commit/Abort) and in a "
        "scripted check (sender and body stage); a scripted modifier (modify.verifsess) fails at the recipient stage "
        "and at the body stage in the variants where it replaces the reject directive / the check; recipient rewriting "
        "is the real modify.replace_rcpt (N original recipients -> one address; 1 -> N expansion is not exercised here, see C09)",
        "environment events run in the server's goroutine at the instant it asks the connection for the next command "
        "(the session is idle); the other session and the storm act on the endpoint's limits.Group directly (TakeMsg / "
        "ReleaseMsg), with the bucket tables capped at 4 entries for such behaviours; what the design promises is stated "
        "on the permit counters: at the end of the session and whenever no transaction is open they equal what the other "
        "session holds",
        "the client is a raw line-based script played through an in-memory net.Conn handed to the go-smtp server; "
        "events are logged by the server's own goroutine where it takes a command from / puts a reply on the wire",
        "a connection lost inside DATA is replayed with every buffer mode of the endpoint (ram, fs, auto with the "
        "limit below and above the message size) and at three positions (inside the body, after the header, before "
        "the first byte); otherwise the endpoint buffers in RAM",
        "limits: all/ip/source concurrency 10; in the 'hold' configurations source concurrency 1 and another "
        "session of the sender domain src.example (modelled at the limits API: TakeMsg/ReleaseMsg around the "
        "conversation) keeps that permit, so every MAIL/RCPT of that domain waits the built-in 5 s (logical time) "
        "and is answered 451",
        "TLC 1.8.0, CommunityModules Json reader",
    ]


META = {
    "engine": "sessioncheck",
    "level": "model_checking",
    "technique": "TLA+ spec Session.tla (go-smtp connection automaton + maddy endpoint session + pipeline fan-out) "
                 "model-checked by TLC; TLC-generated client scripts and fault plans replayed as real SMTP/LMTP "
                 "conversations on the real endpoint; recorded traces validated against SessionTrace.tla (property "
                 "predicates in SessionObs.tla)",
    "text": "TLC visits every command sequence (quick: <=6, thorough: <=8 commands over EHLO/MAIL/RCPT/DATA/BDAT/RSET/"
            "NOOP/QUIT/drop with valid and invalid arguments) x {SMTP, LMTP} x {deferred, immediate sender reject} x "
            "1-3 targets x a fault at every Start/AddRcpt/Body/BodyNonAtomic/Commit/Abort call of Session.tla and "
            "checks the C03 predicates in every state; the same predicates are evaluated by TLC over traces recorded "
            "from the real endpoint driven with TLC-generated scripts (sampled by simulation in quick; exhaustive for "
            "<=4 commands plus 18000 simulated behaviours in thorough).",
    "note": "Targets and one check are scripted; go-smtp (pinned fork) is part of the executed code and of the model; "
            "time is the fake clock of a synctest bubble; AUTH and limit saturation by more than one other session are "
            "outside this check; "
            "trusted: TLC, the harness, Go toolchain.",
    "design_ref": "DESIGN.md section 5 C03",
}
