"""C09 - per-recipient results name exactly the recipients that were accepted.

Delivery-target part (remote, target.lmtp over smtpconn):
(T) TLC checks RcptStatus.tla exhaustively: recipient lists over {ASCII, case
    variant, non-ASCII local part, IDN domain, duplicates} (<= 3), next hop with
    and without SMTPUTF8, SMTP per-connection and LMTP per-recipient answers,
    failures of every stage, up to 4 transactions over the per-domain cached
    connections; invariant NoViolation = the predicates of RcptStatusObs
    (keys(statuses) = accepted recipients exactly as given, each at most as
    often as it was accepted, none for any other address, each result the one
    the next hop gave for that recipient).
(B) TLC-generated behaviours are replayed on the real remote.Target and
    target.lmtp against scripted next hops with a recording StatusCollector;
    the traces are validated against RcptStatusTrace.tla.
Pipeline part (msgpipeline statusCollector): PipeStatus.tla, see run_pipeline.
Inbound part (LMTP endpoint: the client's spelling of every recipient, per-recipient
replies on the socket): RcptStatusEndp.tla, see run_endpoint.
"""
import concurrent.futures
import json
import os

import vlib

KEEP = {"Cfg", "Txn", "Ret", "Panic", "Statuses", "TxnEnd", "End"}

CFG = """SPECIFICATION %(spec)s
CONSTANTS
  Kinds = {%(kinds)s}
  RcptSet = {%(rcpts)s}
  MaxList = %(maxlist)d
  MaxTxns = %(maxtxns)d
  DataSet = {%(data)s}
  DropSet = {%(drop)s}
  SrcSet = {%(src)s}
  LateSet = {%(late)s}
  QuarSet = {%(quar)s}
  Devs = {%(devs)s}
  Gen = %(gen)s
%(tail)s
"""

MC_TAIL = "VIEW View\nINVARIANTS NoViolation TypeOK\n"
GEN_TAIL = "CHECK_DEADLOCK FALSE\n"
TRACE_TAIL = "CHECK_DEADLOCK FALSE\nPOSTCONDITION Post\n"
ALL_RCPTS = ("a1", "a2", "cv", "nl", "idn", "idn_ace")
ALL_DEVS = ("RcptConverted", "RcptNotCleared", "LMTPWireKey")
PIPE_DEVS = ("RewriteCollision",)
PIPE_KEEP = {"Cfg", "Txn", "Ret", "Statuses", "End"}

PCFG = """SPECIFICATION %(spec)s
CONSTANTS
  MaxList = %(maxlist)d
  StSet = {%(st)s}
  Scopes = {%(scopes)s}
  Atomic = TRUE
  Devs = {%(devs)s}
  Gen = %(gen)s
%(tail)s
"""


ECFG = """SPECIFICATION %(spec)s
CONSTANTS
  BoxSet = {%(boxes)s}
  SpellSet = {%(spells)s}
  RcptRes = {%(rres)s}
  StSet = {%(st)s}
  BdatSet = {%(bdat)s}
  MaxRcpts = %(maxrcpts)d
  MaxTxns = %(maxtxns)d
  Gen = %(gen)s
%(tail)s
"""
ENDP_KEEP = {"Cfg", "Txn", "Rcpt", "Replies", "Rset", "Closed", "DataRefused", "End"}


def ecfg(spec="Spec", boxes=("u", "v", "w"), spells=("n", "a", "b"), rres=("ok", "temp", "perm"),
         st=("ok", "temp", "perm"), bdat=("TRUE", "FALSE"), maxrcpts=3, maxtxns=2, gen=False, tail=MC_TAIL):
    return ECFG % dict(spec=spec, boxes=q(boxes), spells=q(spells), rres=q(rres), st=q(st), bdat=", ".join(bdat),
                       maxrcpts=maxrcpts, maxtxns=maxtxns, gen="TRUE" if gen else "FALSE", tail=tail)


def pcfg(spec="Spec", maxlist=2, st=("ok", "temp", "perm"), scopes=("global", "source", "dest"), devs=(), gen=False,
         tail=MC_TAIL):
    return PCFG % dict(spec=spec, maxlist=maxlist, st=q(st), scopes=q(scopes), devs=q(devs), gen="TRUE" if gen else "FALSE", tail=tail)


def q(xs):
    return ", ".join('"%s"' % x for x in xs)


def cfg(spec="Spec", kinds=("remote", "lmtp"), rcpts=ALL_RCPTS, maxlist=3, maxtxns=4,
        data=("ok", "temp", "perm"), drop=(0, 1, 2), src=("ok", "noopen", "readfail", "reset"), late=(1, 2), quar=(), devs=(), gen=False, tail=MC_TAIL):
    return CFG % dict(spec=spec, kinds=q(kinds), rcpts=q(rcpts), maxlist=maxlist, maxtxns=maxtxns,
                      data=q(data), drop=", ".join(str(d) for d in drop), src=q(src), late=", ".join(str(d) for d in late), quar=", ".join(str(d) for d in quar), devs=q(devs), gen="TRUE" if gen else "FALSE", tail=tail)


def open_findings():
    p = os.path.join(os.environ.get("VERIF_KNOWN_DIR") or os.path.join(vlib.VERIF, "known_findings.d"), "C09.json")
    if os.path.exists(p):
        fs = json.load(open(p)).get("findings", [])
    else:
        fs = vlib.load_known("C09")
    return [f for f in fs if f.get("property") == "C09" and f.get("status", "open") == "open"]


def devs_of(f):
    m = f.get("match", {})
    return list(m.get("deviations", [])) + ([m["deviation"]] if m.get("deviation") else [])


def behaviours_from(r):
    return [{"cfg": v["cfg"], "txns": v["txns"]} for tag, v in r["printed"] if tag == "BEH"]


def dedup(behs):
    seen, out = set(), []
    for b in behs:
        key = json.dumps([b["cfg"], b["txns"]], sort_keys=True)
        if key not in seen:
            seen.add(key)
            out.append(b)
    for i, b in enumerate(out):
        b["id"] = i + 1
    return out


def nontrivial(b):
    for t in b["txns"]:
        p = t["plan"]
        if p.get("drop", 3) < len(t["rcpts"]) or p.get("src", "ok") != "ok" or p.get("late", 0) > 0 or \
                p.get("quar", 0) > 0 or \
                any(v != "ok" for part in p.values() if isinstance(part, dict) for v in part.values()):
            return True
        if len(set(t["rcpts"])) < len(t["rcpts"]) or any(r in ("nl", "idn", "cv", "idn_ace") for r in t["rcpts"]):
            return True
    return False


def classify(ctx, pid, verdicts, by_t, by_id, known, open_devs, selftest, what_fmt):
    """Common verdict handling for the two halves. Returns (ok, drift, preds)."""
    ok = drift = 0
    preds = {}
    for t, recs in sorted(verdicts.items()):
        r0 = recs[0]
        if t in selftest:
            if not r0["drift"] and not r0["viol"]:
                raise vlib.Infra("binding self-test failed: %s trace was accepted" % selftest[t])
            continue
        viol = {(v["p"], v["m"]) for r in recs for v in r["viol"]}
        kviol = {(v["p"], v["m"]) for r in recs for v in r["kviol"]}
        conform = any(not r["drift"] for r in recs)
        explained = set()
        if conform and r0["devs"] and set(r0["devs"]) <= set(open_devs):
            explained = viol & kviol
        if explained:
            for f in known:
                if set(devs_of(f)) & set(r0["devs"]):
                    ctx.known(f["id"], f["what"])
        rest = viol - explained
        if rest:
            names = sorted({p for p, _ in rest})
            for p in names:
                preds[p] = preds.get(p, 0) + 1
            ctx.violation(what_fmt % (",".join(names), ",".join(str(m) for m in sorted({m for _, m in rest}))),
                          {"property": pid, "behaviour": by_id[t], "trace": by_t[t],
                           "violated": sorted(list(x) for x in rest),
                           "how": "bin/check %s --replay <this file>" % pid})
        elif conform:
            ok += 1
        else:
            drift += 1
            print("DRIFT property=%s trace=%d first-unexplained-seq=%s" % (pid, t, r0["driftAt"]))
    return ok, drift, preds


def run_targets(ctx, replay_obj, binary, known, thorough, skip_mc):
    open_devs = sorted({d for f in known for d in devs_of(f) if d in ALL_DEVS})
    if not replay_obj and not skip_mc:
        if thorough:
            runs = [("mc", cfg(maxlist=3, maxtxns=4, quar=(1, 2, 3)))]
        else:
            runs = [("mc-l2", cfg(maxlist=2, maxtxns=4, quar=(1, 2))),
                    ("mc-l3", cfg(rcpts=("a1", "nl", "idn"), maxlist=3, maxtxns=4, quar=(2, 3)))]
        states = trans = depth = 0
        for name, text in runs:
            r = ctx.tlc_expect_ok("RcptStatus", None, name=name, workers=8, timeout=3000, cfg_text=text, heap="4g")
            states += r["distinct"]
            trans += r["generated"]
            depth = max(depth, r["depth"])
            ctx.log("TLC exhaustive %s: %d distinct states, %d transitions, depth %d, %.1fs" % (
                name, r["distinct"], r["generated"], r["depth"], r["wall"]))
        ctx.cov["states"] = ctx.cov.get("states", 0) + states
        ctx.cov["transitions"] = ctx.cov.get("transitions", 0) + trans
        ctx.cov["states_targets"] = states
        ctx.cov["model_depth"] = depth
        ra = ctx.tlc("RcptStatus", None, name="asis", workers=4, timeout=600, heap="2g",
                     cfg_text=cfg(rcpts=("a1", "idn"), maxlist=2, maxtxns=2, devs=ALL_DEVS,
                                  tail="VIEW View\nINVARIANTS NoViolation\n"))
        if ra["invariant"] != "NoViolation":
            raise vlib.Infra("as-is model (row 8 deviations) no longer violates NoViolation: the invariant is vacuous "
                             "(%s %s)" % (ra["invariant"], ra["error"]))
        ctx.cov["asis_counterexample_found"] = True

    if replay_obj:
        behs = [replay_obj["behaviour"]]
        behs[0]["id"] = 1
    else:
        behs = []
        focus = [("gen-remote", cfg(kinds=("remote",), rcpts=("a1", "idn"), maxlist=1, maxtxns=2, data=("ok", "temp"),
                                    gen=True, tail=GEN_TAIL)),
                 ("gen-lmtp", cfg(kinds=("lmtp",), rcpts=("a1", "idn"), maxlist=2, maxtxns=1, data=("ok", "temp"),
                                  gen=True, tail=GEN_TAIL))]
        # LMTP next hop breaking the connection between two per-recipient answers
        focus += [("gen-lmtp-drop", cfg(kinds=("lmtp",), rcpts=("a1", "a2"), maxlist=3 if thorough else 2, maxtxns=1,
                                        data=("ok",), drop=(1, 2), gen=True, tail=GEN_TAIL))]
        # transport faults: body source fails / connection reset in mid-DATA / a RCPT reply overdue
        focus += [("gen-faults", cfg(rcpts=("a1", "a2"), maxlist=3 if thorough else 2, maxtxns=1, data=("ok",),
                                     drop=(), gen=True, tail=GEN_TAIL))]
        # the message is put in quarantine after list position q (a body-stage check), some RCPTs refused:
        # remote reports its own refusal for exactly the recipients it accepted, target.lmtp ignores the flag
        focus += [("gen-quar", cfg(kinds=("remote",), rcpts=("a1", "a2", "idn"), maxlist=3 if thorough else 2,
                                   maxtxns=2 if thorough else 1, data=("ok",), drop=(), src=("ok",), late=(),
                                   quar=(1, 2, 3), gen=True, tail=GEN_TAIL)),
                  ("gen-quar-lmtp", cfg(kinds=("lmtp",), rcpts=("a1",), maxlist=2, maxtxns=1, data=("ok",), drop=(),
                                        src=("ok",), late=(), quar=(1, 2), gen=True, tail=GEN_TAIL))]
        # two recipients that differ as given and coincide on the wire of a next hop without SMTPUTF8
        # (U-label and A-label of the same IDN address), LMTP answering per recipient
        focus += [("gen-twins", cfg(kinds=("lmtp",), rcpts=("idn", "idn_ace"), maxlist=3 if thorough else 2, maxtxns=1,
                                    data=("ok",), drop=(1,), src=("ok",), late=(), quar=(), gen=True, tail=GEN_TAIL))]
        if thorough:
            focus += [("gen-remote3", cfg(kinds=("remote",), rcpts=("a1", "idn"), maxlist=1, maxtxns=3,
                                          data=("ok", "perm"), gen=True, tail=GEN_TAIL)),
                      ("gen-lists", cfg(rcpts=ALL_RCPTS, maxlist=2, maxtxns=1, data=("ok", "temp"),
                                        gen=True, tail=GEN_TAIL))]
        n = 5000 if thorough else 120
        jobs = [(name, dict(workers=2, timeout=1800, cfg_text=text, heap="3g")) for name, text in focus]
        jobs.append(("sim", dict(workers=1, timeout=1800, simulate=n, depth=80, heap="3g",
                                 cfg_text=cfg(maxlist=3, maxtxns=4, data=("ok", "temp"), drop=(1,), late=(1,),
                                              quar=(2,), gen=True, tail=GEN_TAIL))))
        # independent TLC runs: side by side
        with concurrent.futures.ThreadPoolExecutor(max_workers=len(jobs)) as ex:
            futs = {name: ex.submit(ctx.tlc, "RcptStatus", None, name=name, **kw) for name, kw in jobs}
            res = {name: f.result() for name, f in futs.items()}
        for name, _ in jobs:
            g = res[name]
            if not g["ok"]:
                raise vlib.Infra("behaviour generation %s failed: %s %s" % (name, g["invariant"], g["error"]))
            got = behaviours_from(g)
            if name != "sim":
                ctx.cov["exhaustive_" + name] = len(got)
            if name == "gen-faults":        # keep the behaviours with a transport fault
                got = [b for b in got if b["txns"][0]["plan"]["src"] != "ok" or b["txns"][0]["plan"]["late"] > 0]
            if name == "gen-lmtp-drop":     # keep the behaviours in which the break really happens
                got = [b for b in got if b["txns"][0]["plan"]["drop"] < len(b["txns"][0]["rcpts"])]
            if name in ("gen-quar", "gen-quar-lmtp"):   # keep the behaviours with a quarantined transaction
                got = [b for b in got if any(t["plan"]["quar"] > 0 for t in b["txns"])]
            if name == "gen-twins":         # keep the behaviours with both spellings in one list
                got = [b for b in got if {"idn", "idn_ace"} <= set(b["txns"][0]["rcpts"])]
            cap = {"gen-faults": 90, "gen-quar": 100, "gen-quar-lmtp": 20, "gen-twins": 100}.get(name, 300)
            if name != "sim" and not thorough and len(got) > cap:
                got = vlib.sample(ctx.rng, got, cap)
            behs += got
        behs = dedup(behs)
        if not behs:
            raise vlib.Infra("TLC produced no behaviours")
    ctx.log("%d delivery-target behaviours to replay" % len(behs))

    events = ctx.run_shards(binary, behs, test="TestReplayRcpt", shards=min(vlib.NCPU, 8), name="replay-rcpt")
    by_id = {b["id"]: b for b in behs}

    selftest = {}
    if not replay_obj:
        base = None
        for b in behs:
            evs = [e for e in events if e["t"] == b["id"] and e["e"] in KEEP]
            sts = [e for e in evs if e["e"] == "Statuses"]
            if len(b["txns"]) >= 1 and sts and len(sts[0]["sts"]) >= 2 and \
                    not any(s["k"] in ("idn_ace", "other") for e in sts for s in e["sts"]) and \
                    all(len({s["k"] for s in e["sts"]}) == len(e["sts"]) for e in sts) and b["cfg"]["utf8"]:
                base = evs
                break
        if base:
            c1 = [json.loads(json.dumps(dict(e, t=900001))) for e in base]
            for e in c1:
                if e["e"] == "Statuses":
                    e["sts"][0]["k"] = "a2" if e["sts"][0]["k"] != "a2" else "a1"   # corrupt one logged field
                    break
            c2 = [json.loads(json.dumps(dict(e, t=900002))) for e in base]
            for e in c2:
                if e["e"] == "Statuses":
                    del e["sts"][0]                                                # drop one status
                    break
            events = events + c1 + c2
            selftest = {900001: "corrupt-field", 900002: "drop-status"}

    verdicts, by_t = ctx.validate("RcptStatusTrace", None, events, keep=KEEP, name="RcptStatusTrace",
                                  cfg_text=cfg(spec="TSpec", maxlist=3, maxtxns=4, devs=open_devs, tail=TRACE_TAIL))
    ok, drift, preds = classify(ctx, "C09", verdicts, by_t, by_id, known, open_devs, selftest,
                                "per-recipient results violate %s (transaction(s) %s of the history)")
    if selftest:
        ctx.cov["binding_selftest"] = "corrupted-key and dropped-status traces rejected"
    ctx.cov["statuses_events_checked"] = sum(1 for e in events if e["e"] == "Statuses" and e["t"] < 900000)
    for b in behs[:2]:
        ctx.cov["samples"].append({"behaviour": b, "trace": [e for e in by_t.get(b["id"], [])][:30]})
    return len(behs), sum(1 for b in behs if nontrivial(b)), ok, drift, preds


def run_pipeline(ctx, replay_obj, binary, known, thorough, skip_mc):
    """Pipeline half: PipeStatus.tla, real msgpipeline + replace_rcpt + scripted partial target."""
    open_devs = sorted({d for f in known for d in devs_of(f) if d in PIPE_DEVS})
    if not replay_obj and not skip_mc:
        r = ctx.tlc_expect_ok("PipeStatus", None, name="pipe-mc", workers=6, timeout=1800, heap="3g",
                              cfg_text=pcfg(maxlist=3 if thorough else 2))
        ctx.log("TLC exhaustive pipe-mc: %d distinct states, %d transitions, depth %d, %.1fs" % (
            r["distinct"], r["generated"], r["depth"], r["wall"]))
        ctx.cov["states"] = ctx.cov.get("states", 0) + r["distinct"]
        ctx.cov["transitions"] = ctx.cov.get("transitions", 0) + r["generated"]
        ctx.cov["states_pipeline"] = r["distinct"]
        ra = ctx.tlc("PipeStatus", None, name="pipe-asis", workers=2, timeout=600, heap="2g",
                     cfg_text=pcfg(st=("ok", "temp"), devs=PIPE_DEVS, tail="VIEW View\nINVARIANTS NoViolation\n"))
        if ra["invariant"] != "NoViolation":
            raise vlib.Infra("as-is pipeline model (RewriteCollision) no longer violates NoViolation (%s %s)" % (
                ra["invariant"], ra["error"]))
    if replay_obj:
        behs = [replay_obj["behaviour"]]
        behs[0]["id"] = 1
    else:
        # complete enumeration of rewrite rules x recipient lists x target results (2 result classes)
        g = ctx.tlc("PipeStatus", None, name="pipe-gen", workers=4, timeout=1800, heap="3g",
                    cfg_text=pcfg(st=("ok", "temp"), gen=True, tail=GEN_TAIL))
        if not g["ok"]:
            raise vlib.Infra("pipeline behaviour generation failed: %s %s" % (g["invariant"], g["error"]))
        behs = [{"cfg": v["cfg"], "txn": v["txn"]} for tag, v in g["printed"] if tag == "BEH"]
        ctx.cov["exhaustive_pipe-gen"] = len(behs)
        if not thorough:
            # keep every rewrite-rule pair, sample the target results
            by_rule = {}
            for b in behs:
                by_rule.setdefault(json.dumps([b["cfg"], b["txn"]["rcpts"]], sort_keys=True), []).append(b)
            behs = [ctx.rng.choice(v) for _, v in sorted(by_rule.items())]
        for i, b in enumerate(behs):
            b["id"] = i + 1
    ctx.log("%d pipeline behaviours to replay" % len(behs))
    events = ctx.run_shards(binary, behs, test="TestReplayPipe", shards=min(vlib.NCPU, 8), name="replay-pipe")
    by_id = {b["id"]: b for b in behs}
    verdicts, by_t = ctx.validate("PipeStatusTrace", None, events, keep=PIPE_KEEP, name="PipeStatusTrace",
                                  cfg_text=pcfg(spec="TSpec", maxlist=3, devs=open_devs, tail=TRACE_TAIL))
    ok, drift, preds = classify(ctx, "C09", verdicts, by_t, by_id, known, open_devs, {},
                                "pipeline per-recipient results violate %s (transaction %s)")
    for v in ctx.violations:
        pass
    for b in behs[:1]:
        ctx.cov["samples"].append({"behaviour": b, "trace": [e for e in by_t.get(b["id"], []) if e["e"] in PIPE_KEEP]})
    nt = sum(1 for b in behs if any(v != [k] for k, v in b["cfg"]["rw"].items()))
    return len(behs), nt, ok, drift, preds


def run_endpoint(ctx, replay_obj, binary, thorough, skip_mc):
    """Inbound half: RcptStatusEndp.tla, the real LMTP endpoint (go-smtp LMTP server, Session, msgpipeline)
    in front of a scripted partial target; what is judged is what the client reads from the socket."""
    if not replay_obj and not skip_mc:
        r = ctx.tlc_expect_ok("RcptStatusEndp", None, name="endp-mc", workers=4, timeout=1800, heap="3g",
                              cfg_text=ecfg(maxrcpts=4 if thorough else 3, maxtxns=2))
        ctx.log("TLC exhaustive endp-mc: %d distinct states, %d transitions, depth %d, %.1fs" % (
            r["distinct"], r["generated"], r["depth"], r["wall"]))
        ctx.cov["states"] = ctx.cov.get("states", 0) + r["distinct"]
        ctx.cov["transitions"] = ctx.cov.get("transitions", 0) + r["generated"]
        ctx.cov["states_endpoint"] = r["distinct"]
    if replay_obj:
        behs = [replay_obj["behaviour"]]
        behs[0]["id"] = 1
    else:
        # exhaustive: one mailbox named up to 3 times under every spelling, refused or accepted each time;
        # two transactions in one session (the first may be aborted); two mailboxes (one in an IDN domain),
        # both content paths (DATA / BDAT)
        focus = [("endp-gen1", ecfg(boxes=("u",), rres=("ok", "temp"), st=("ok",), bdat=("FALSE",), maxrcpts=3,
                                    maxtxns=1, gen=True, tail=GEN_TAIL), None),
                 ("endp-gen2", ecfg(boxes=("u",), spells=("n", "a"), rres=("ok", "perm"), st=("ok",), bdat=("TRUE",),
                                    maxrcpts=2, maxtxns=2, gen=True, tail=GEN_TAIL), None if thorough else 400),
                 ("endp-gen3", ecfg(boxes=("u", "v"), spells=("n", "a"), rres=("ok", "temp"), st=("ok", "temp"),
                                    maxrcpts=2, maxtxns=1, gen=True, tail=GEN_TAIL), None)]
        jobs = [(name, dict(workers=2, timeout=1800, cfg_text=text, heap="3g")) for name, text, _ in focus]
        jobs.append(("endp-sim", dict(workers=1, timeout=1800, simulate=3000 if thorough else 150, depth=40, heap="3g",
                                      cfg_text=ecfg(maxrcpts=3, maxtxns=2, gen=True, tail=GEN_TAIL))))
        with concurrent.futures.ThreadPoolExecutor(max_workers=len(jobs)) as ex:
            futs = {name: ex.submit(ctx.tlc, "RcptStatusEndp", None, name=name, **kw) for name, kw in jobs}
            res = {name: f.result() for name, f in futs.items()}
        caps = {name: cap for name, _, cap in focus}
        behs, seen = [], set()
        for name, _ in jobs:
            g = res[name]
            if not g["ok"]:
                raise vlib.Infra("behaviour generation %s failed: %s %s" % (name, g["invariant"], g["error"]))
            got = [{"cfg": v["cfg"], "steps": v["steps"]} for tag, v in g["printed"] if tag == "BEH"]
            if name != "endp-sim":
                ctx.cov["exhaustive_" + name] = len(got)
            if caps.get(name) and len(got) > caps[name]:
                got = vlib.sample(ctx.rng, got, caps[name])
            for b in got:
                key = json.dumps(b, sort_keys=True)
                if key not in seen:
                    seen.add(key)
                    behs.append(b)
        for i, b in enumerate(behs):
            b["id"] = i + 1
        if not behs:
            raise vlib.Infra("TLC produced no endpoint behaviours")
    ctx.log("%d LMTP endpoint behaviours to replay" % len(behs))
    events = ctx.run_shards(binary, behs, test="TestReplayLmtpEndp", shards=min(vlib.NCPU, 4), name="replay-endp")
    by_id = {b["id"]: b for b in behs}

    # binding self-test: a reply moved to another spelling / a reply dropped in a copy of an accepted trace
    selftest = {}
    if not replay_obj:
        base = None
        for b in behs:
            evs = [e for e in events if e["t"] == b["id"] and e["e"] in ENDP_KEEP]
            reps = [e for e in evs if e["e"] == "Replies"]
            if reps and len(reps[0]["reps"]) >= 2 and not any(e["e"] == "Closed" for e in evs):
                base = evs
                break
        if base:
            c1 = [json.loads(json.dumps(dict(e, t=900001))) for e in base]
            for e in c1:
                if e["e"] == "Replies":
                    e["reps"][0]["s"] = "b" if e["reps"][0]["s"] != "b" else "a"
                    break
            c2 = [json.loads(json.dumps(dict(e, t=900002))) for e in base]
            for e in c2:
                if e["e"] == "Replies":
                    del e["reps"][0]
                    break
            events = events + c1 + c2
            selftest = {900001: "reply-under-other-spelling", 900002: "dropped-reply"}
    verdicts, by_t = ctx.validate("RcptStatusEndpTrace", None, events, keep=ENDP_KEEP, name="RcptStatusEndpTrace",
                                  cfg_text=ecfg(spec="TSpec", maxrcpts=4, maxtxns=2, tail=TRACE_TAIL))
    for t in selftest:
        if not any(r["viol"] for r in verdicts.get(t, [])):
            raise vlib.Infra("binding self-test failed: %s trace raised no violation" % selftest[t])
    ok, drift, preds = classify(ctx, "C09", verdicts, by_t, by_id, [], [], selftest,
                                "LMTP endpoint per-recipient replies violate %s (transaction(s) %s of the session)")
    if selftest:
        ctx.cov["binding_selftest_endpoint"] = "reply under another spelling and dropped reply rejected"
    ctx.cov["reply_events_checked"] = sum(1 for e in events if e["e"] == "Replies" and e["t"] < 900000)
    for b in behs[:1]:
        ctx.cov["samples"].append({"behaviour": b, "trace": [e for e in by_t.get(b["id"], [])][:30]})
    nt = sum(1 for b in behs if any(s["a"] == "Rcpt" and (s["res"] != "ok" or s["s"] != "n") for s in b["steps"]))
    return len(behs), nt, ok, drift, preds


def run(ctx, replay):
    thorough = ctx.tier == "thorough"
    known = open_findings()
    skip_mc = bool(os.environ.get("VERIF_DEV_SKIP_MC"))   # development aid only (mutation drills)
    if skip_mc:
        ctx.notes.append("VERIF_DEV_SKIP_MC set: exhaustive model checking skipped in this run")
    robj = json.load(open(replay)) if replay else None
    if os.environ.get("VERIF_ONLY_REPOTESTS"):             # development aid: only the hook traces of the repo's tests
        import checks.remote_hooks as rh
        ctx.cov["traces_validated_against_impl"] = rh.rcpt_status_traces(ctx, "C09")
        return
    binary = ctx.build_harness("remotecheck")
    n = nt = ok = drift = 0
    preds = {}
    hook_ok = 0
    if not robj:
        # the other direction: the repository's own tests of the packages, hooks on
        import checks.remote_hooks as rh
        hook_ok = rh.rcpt_status_traces(ctx, "C09")
    if not robj or "txns" in robj["behaviour"]:
        n, nt, ok, drift, preds = run_targets(ctx, robj, binary, known, thorough, skip_mc)
    if not robj or "txn" in robj["behaviour"]:
        n2, nt2, ok2, drift2, preds2 = run_pipeline(ctx, robj, binary, known, thorough, skip_mc)
        n, nt, ok, drift = n + n2, nt + nt2, ok + ok2, drift + drift2
        for k2, v2 in preds2.items():
            preds[k2] = preds.get(k2, 0) + v2
    if not robj or "steps" in robj["behaviour"]:
        n3, nt3, ok3, drift3, preds3 = run_endpoint(ctx, robj, binary, thorough, skip_mc)
        n, nt, ok, drift = n + n3, nt + nt3, ok + ok3, drift + drift3
        for k3, v3 in preds3.items():
            preds[k3] = preds.get(k3, 0) + v3
    ok += hook_ok
    ctx.cov["traces_validated_against_impl"] = ok
    ctx.cov["drift_traces"] = drift
    ctx.cov["evaluations"] = n
    ctx.cov["distinct_nontrivial"] = nt
    ctx.cov["violated_predicates"] = preds
    ctx.cov["rule"] = ("behaviours = (next-hop kind, SMTPUTF8 on/off, history of transactions with recipient list and "
                       "fault plan) of RcptStatus.tla printed by TLC: exhaustive over small sub-spaces, -simulate over the "
                       "full space, de-duplicated; non-trivial = a scripted failure, a duplicate or a non-plain address; "
                       "pipeline: every pair of rewrite rules x recipient list of PipeStatus.tla (target results sampled "
                       "in quick, complete in thorough), non-trivial = a non-identity rule; LMTP endpoint: sessions of "
                       "RcptStatusEndp.tla (mailbox x spelling x refused/accepted per RCPT, DATA or RSET, 1-2 "
                       "transactions, DATA/BDAT): exhaustive small sub-spaces + -simulate, non-trivial = a refused "
                       "RCPT or a non-normalised spelling")
    ctx.cov["exhaustive"] = False
    ctx.assumptions += [
        "next hops are scripted raw SMTP/LMTP servers on loopback TCP following a fault plan per transaction",
        "addresses are six fixed strings (ASCII x2, local-part case variant, non-ASCII local part, IDN domain as "
        "U-label and the same address as A-label); the A-label spelling is used in target.lmtp lists only (remote "
        "opens one connection per domain string, the model has one per next hop)",
        "quarantine: MsgMetadata.Quarantine is set by the driver right after the AddRcpt call of a list position, as a "
        "body-stage check would; a target's own refusal of a quarantined message counts as a truthful failure",
        "duplicates: an address accepted n times may be reported 1..n times (weaker reading)",
        "pipeline: real msgpipeline.New + replace_rcpt over a static table, one scripted partial target that accepts "
        "every recipient; a supplied address rewritten to n addresses may be reported 1..n times",
        "LMTP endpoint: raw LMTP over an in-memory connection to the real endpoint (go-smtp server, Session, "
        "msgpipeline, one scripted partial target, routing refuses one mailbox); the replies are read off the socket; "
        "spellings are case variants of an ASCII domain and A-labels of an IDN domain; SMTPUTF8 is always asked for",
        "a harness-side time-out is exit 2, never a violation",
        "TLC 1.8.0, CommunityModules Json reader",
    ]


META = {
    "engine": "remotecheck",
    "level": "model_checking",
    "technique": "TLA+ specs RcptStatus.tla and PipeStatus.tla model-checked by TLC; TLC-generated behaviours replayed on the real "
                 "remote.Target / target.lmtp against scripted SMTP/LMTP next hops with a recording StatusCollector; "
                 "recorded traces validated against RcptStatusTrace.tla (predicates in RcptStatusObs.tla)",
    "text": "TLC visits every recipient list (<=3, over ASCII, case variant, non-ASCII local part, IDN domain, "
            "duplicates), next hop with/without SMTPUTF8, SMTP and LMTP answers, failures of MAIL/RCPT/DATA/final dot/"
            "per-recipient LMTP replies, the message put in quarantine after any list position, two spellings of one "
            "recipient that coincide on the wire (U-label / A-label) and histories of up to 4 transactions over the "
            "per-domain cached connections, "
            "and checks keys(statuses) = accepted recipients as given (none for another address, none missing, not more "
            "often than accepted, each with the next hop's answer for that recipient) in every state; the same "
            "predicates are evaluated by TLC over traces recorded from the real targets. Pipeline: every pair of "
            "rewrite rules (identity, 1->1, 1->2 over four effective addresses, incl. a target also supplied directly) x "
            "recipient list x target results of PipeStatus.tla, replayed on the real msgpipeline with the real "
            "replace_rcpt modifier and a scripted partial target. Inbound: sessions of RcptStatusEndp.tla (every RCPT a "
            "mailbox x spelling x accepted/refused, the same mailbox refused and accepted again under another "
            "spelling, 1-2 transactions, RSET, DATA/BDAT) replayed on the real LMTP endpoint; one reply per accepted "
            "RCPT, under the address as given, in order, carrying the target's result.",
    "note": "Scripted next hops on loopback TCP; the StatusCollector is a recording stub; trusted: TLC, the harness, "
            "Go toolchain.",
    "design_ref": "DESIGN.md section 5 C09",
}
