"""X08 - configuration directives are consumed exactly as documented: unknown or duplicate
directives are reported, defaults and global inheritance apply, for every module block.

(S) spec/CfgMap.tla: the input space as tables (value table: every kind of registration of
    framework/config/map.go x every argument list of a spelling alphabet x no block / empty block /
    block; presence table: inheritGlobal x required x defaults x state of the global level x
    written or not; structure tables: blocks and top levels of known, unknown, repeated, ill-formed
    and callback directives with and without AllowUnknown; a Seed-dependent mixed table), the
    configuration text rendered by TLA+, the property as named predicates (Prop), the documented
    procedure (Rule) and the code's deviations as named switches (RuleD).
(T) TLC enumerates every row, checks Prop(in, Rule(in)), prints the rows; one as-is run per deviation
    must violate Prop.
(B) harness/cfgmapcheck parses every text with the real cfgparser, builds the real config.Map of
    the global level (as maddy.ReadGlobals) and of the module block (with the global Values, as
    maddy.RegisterModules) with the registrations of the row and runs Process; spec/CfgMapTrace.tla
    evaluates Prop on (error, variables, unknown nodes, callback calls) the code produced.
"""
import json
import os
from concurrent.futures import ThreadPoolExecutor

import vlib
import vtable

PID = "X08"

# the deviations of spec/CfgMap.tla (AllDevs), in the order used to attribute a row
DEVS = ["DataSizeOverflow", "DataSizeZeroAnyUnit", "FloatIgnoresBlock", "DurationJoin"]

MC_CFG = """SPECIFICATION Spec
CONSTANTS
  Devs = {%(devs)s}
  Gen = %(gen)s
  Seed = %(seed)d
  RandN = %(randn)d
  MaxNodes = %(maxnodes)d
INVARIANTS %(inv)s
%(emit)s
CHECK_DEADLOCK FALSE
"""

TRACE_CFG = """SPECIFICATION TSpec
CONSTANTS
  Devs = {}
  Gen = FALSE
  Seed = 1
  RandN = 1
  MaxNodes = 1
  OpenDevs = {%(open)s}
CHECK_DEADLOCK FALSE
POSTCONDITION Post
"""

OUT_KEYS = ("panic", "err", "gvals", "vals", "gunknown", "unknown", "calls")


def q(names):
    return ", ".join('"%s"' % n for n in sorted(names))


def ext_findings():
    p = os.path.join(vlib.VERIF, "extensions", "findings.json")
    if not os.path.exists(p):
        return []
    return [f for f in json.load(open(p)).get("findings", []) if f.get("ext") == PID]


def nontrivial(row):
    """the row has something to decide: a directive is written, or a global level exists"""
    return bool(row["in"]["nodes"]) or bool(row["in"]["gnodes"])


def project(e):
    o = e["out"]
    return {"t": e["t"], "seq": e["seq"], "e": "Row", "in": e["in"], "out": {k: o[k] for k in OUT_KEYS}}


def run(ctx, replay):
    thorough = ctx.tier == "thorough"
    entries = ext_findings()
    for e in entries:
        if e["match"]["deviation"] not in DEVS:
            raise vlib.Infra("finding %s names an unknown deviation %s" % (e["id"], e["match"]["deviation"]))
    open_by_dev = {e["match"]["deviation"]: e for e in entries if e.get("status", "open") == "open"}
    ext_seen = []        # (finding id, what)

    # ---- (T) + rows ---------------------------------------------------------
    if replay:
        obj = json.load(open(replay))
        rows = [obj["row"]]
        rows[0]["id"] = 1
    else:
        maxnodes = 3 if thorough else 2
        randn = 20000 if thorough else 2500
        r = ctx.tlc_expect_ok("CfgMap", None, name="mc", workers=8, timeout=2400,
                              cfg_text=MC_CFG % dict(devs="", gen="TRUE", seed=ctx.seed, randn=randn, maxnodes=maxnodes,
                                                     inv="RuleSatisfiesProp RuleIsDecisive", emit="CONSTRAINT Emit"))
        rows = vtable.rows_from(r)
        if len(rows) != r["distinct"]:
            raise vlib.Infra("TLC printed %d distinct rows for %d states" % (len(rows), r["distinct"]))
        ctx.cov["states"] = r["distinct"]
        ctx.cov["transitions"] = r["generated"]
        ctx.cov["model_depth"] = r["depth"]
        ctx.log("TLC: %d input rows (MaxNodes=%d, %d mixed rows for seed %d); Prop(in, Rule(in)) holds on all, %.1fs" % (
            r["distinct"], maxnodes, randn, ctx.seed, r["wall"]))

        # as-is: each deviation of the code, switched on alone, must violate the property (non-vacuity)
        def asis(dev):
            return dev, ctx.tlc("CfgMap", None, name="asis-" + dev, workers=2, timeout=600,
                                cfg_text=MC_CFG % dict(devs=q([dev]), gen="FALSE", seed=1, randn=1, maxnodes=1,
                                                       inv="AsIsSatisfiesProp", emit=""))
        asis_pool = ThreadPoolExecutor(max_workers=3)
        asis_runs = [asis_pool.submit(asis, d) for d in DEVS]
    sel = rows
    by_id = {row["id"]: row for row in sel}
    ctx.log("%d rows to run through the real code" % len(sel))

    # ---- (B) the real code ------------------------------------------------------
    binary = ctx.build_harness("cfgmapcheck")
    items = [{"id": row["id"], "in": row["in"], "text": row["text"]} for row in sel]
    events = [e for e in ctx.run_shards(binary, items, timeout=1500) if e["e"] == "Row"]
    ctx.log("real code answered %d rows" % len(events))
    if len(events) != len(items):
        raise vlib.Infra("harness answered %d of %d rows" % (len(events), len(items)))
    ev_by_t = {e["t"]: e for e in events}

    # binding self-test: forged outputs must be rejected, and must not pass as findings
    selftest = {}
    if not replay:
        def forge(t, pred, chg):
            # built from the row and the rule's output only: independent of what the code did
            for row in rows:
                if pred(row):
                    f = {"t": t, "seq": 2, "e": "Row", "in": row["in"], "out": json.loads(json.dumps(row["exp"]))}
                    chg(f["out"], row)
                    return f
            return None
        noerr = {"is": False, "level": "none", "line": 0, "cls": "none", "mentions": []}

        def swallow(o, row):        # an error that is not reported: defaults come back instead
            o["err"] = dict(noerr)
            o["gvals"] = [list(g["def"]) for g in row["in"]["gregs"]]
            o["vals"] = [list(g["def"]) for g in row["in"]["regs"]]
            o["gunknown"] = [row["in"]["pos"] + 1]

        def wrongval(o, row):
            o["vals"][0] = ["forged"]

        def wrongline(o, row):
            o["err"]["line"] += 1

        def spurious(o, row):
            o["err"] = {"is": True, "level": "module", "line": row["in"]["pos"] + 1, "cls": "other", "mentions": []}

        def dropcall(o, row):
            o["calls"] = o["calls"][:-1]
        okrow = lambda row: not row["exp"]["err"]["is"]
        forged = [
            (900001, "unknown directive swallowed", forge(900001, lambda row: row["in"]["tab"] == "structure"
                                                          and row["exp"]["err"]["cls"] == "unknown", swallow)),
            (900002, "duplicate directive swallowed", forge(900002, lambda row: row["in"]["tab"] == "structure"
                                                            and row["exp"]["err"]["cls"] == "duplicate", swallow)),
            (900003, "missing required directive swallowed",
             forge(900003, lambda row: row["in"]["tab"] == "presence" and row["exp"]["err"]["cls"] == "missing", swallow)),
            (900004, "wrong value stored", forge(900004, lambda row: row["in"]["tab"] == "value" and okrow(row), wrongval)),
            (900005, "error points at another line",
             forge(900005, lambda row: row["in"]["tab"] == "structure" and len(row["in"]["nodes"]) == 2
                   and row["exp"]["err"]["cls"] == "other" and row["exp"]["err"]["line"] == 3, wrongline)),
            (900006, "valid block refused", forge(900006, lambda row: row["in"]["tab"] == "presence" and okrow(row)
                                                  and row["in"]["nodes"], spurious)),
            (900007, "callback not called", forge(900007, lambda row: row["in"]["tab"] == "structure" and okrow(row)
                                                  and row["exp"]["calls"], dropcall)),
            (900008, "global value not inherited",
             forge(900008, lambda row: row["in"]["tab"] == "presence" and okrow(row) and not row["in"]["nodes"]
                   and row["in"]["gnodes"] and row["in"]["regs"][0]["inherit"]
                   and row["exp"]["vals"][0] != row["in"]["regs"][0]["def"],
                   lambda o, row: o["vals"].__setitem__(0, list(row["in"]["regs"][0]["def"])))),
        ]
        for t, what, f in forged:
            if f is None:
                raise vlib.Infra("binding self-test: no base row for '%s'" % what)
            selftest[t] = what
            events = events + [f]

    verdicts, accepted = vtable.validate_rows(ctx, "CfgMapTrace", TRACE_CFG % dict(open=q(open_by_dev)),
                                              [project(e) for e in events], batch=4000, par=8, timeout=1800)
    ctx.log("TLC evaluated %d recorded rows: %d accepted as conforming" % (len(events), accepted))
    for t, what in selftest.items():
        v = verdicts.get(t)
        if not v or not v["viol"] or v["devs"]:
            raise vlib.Infra("binding self-test failed: forged row (%s) was accepted or explained by a deviation" % what)
        del verdicts[t]
    if selftest:
        ctx.cov["binding_selftest"] = "forged rows rejected: " + "; ".join(selftest.values())

    if not replay:
        for fut in asis_runs:
            dev, ra = fut.result()
            if ra["invariant"] != "AsIsSatisfiesProp":
                raise vlib.Infra("as-is model (%s) does not violate the property: predicates vacuous? (%s)" % (
                    dev, ra["error"]))
        asis_pool.shutdown()
        ctx.cov["asis_counterexample_found"] = list(DEVS)
    if replay:
        ev = events[0]
        v = verdicts.get(ev["t"])
        print("REPLAY ext=X08 config:\n%s" % rows[0].get("text", ""))
        print("REPLAY ext=X08 registrations: global=%s module=%s allow_unknown=%s" % (
            json.dumps(rows[0]["in"]["gregs"]), json.dumps(rows[0]["in"]["regs"]), rows[0]["in"]["au"]))
        print("REPLAY ext=X08 real code: %s" % json.dumps({k: ev["out"].get(k) for k in OUT_KEYS + ("msg",)}))
        print("REPLAY ext=X08 documented: %s" % json.dumps(rows[0].get("exp")))
        if v:
            least = min(len(d) for d in v["devs"]) if v["devs"] else 0
            print("REPLAY ext=X08 verdict of TLC: violated=%s differs-from-documented-rule=%s explained-by-deviations=%s" % (
                sorted(v["viol"]), v["drift"], sorted(sorted(d) for d in v["devs"] if len(d) == least)))
        else:
            print("REPLAY ext=X08 verdict of TLC: accepted as conforming")

    # ---- verdicts ------------------------------------------------------------------
    drift = 0
    finding_rows = {}
    preds = {}
    for t, v in sorted(verdicts.items()):
        row, ev = by_id[t], ev_by_t[t]
        outs = {k: ev["out"][k] for k in OUT_KEYS}
        outs["msg"] = ev["out"].get("msg", "")
        devsets = sorted((sorted(d, key=DEVS.index) for d in v["devs"]),
                         key=lambda d: (len(d), [DEVS.index(x) for x in d]))
        minimal = devsets[0] if devsets else None
        explained = minimal is not None and all(d in open_by_dev for d in minimal)
        if explained and v["viol"]:
            allowed = set()
            for d in minimal:
                allowed |= set(open_by_dev[d]["match"].get("predicates", []))
            explained = set(v["viol"]) <= allowed
        if v["viol"] and not explained:
            for p in v["viol"]:
                preds[p] = preds.get(p, 0) + 1
            what = "config.Map violates %s: text=%s registrations=%s out=%s documented=%s" % (
                ",".join(sorted(v["viol"])), json.dumps(row["text"]),
                json.dumps({"global": row["in"]["gregs"], "module": row["in"]["regs"], "allow_unknown": row["in"]["au"]}),
                json.dumps(outs), json.dumps(row.get("exp")))
            if len(what) > 1200:
                what = what[:1200] + " ..."
            ctx.violation(what, {"property": PID, "row": row, "out": ev["out"], "violated": sorted(v["viol"]),
                                 "how": "bin/check X08 --replay <this file>"})
        elif explained:
            # exactly the behaviour of the named deviation(s) of open findings
            for d in minimal:
                e = open_by_dev[d]
                if (e["id"], e["what"]) not in ext_seen:
                    ext_seen.append((e["id"], e["what"]))
                k = finding_rows.setdefault(e["id"], {"rows": 0, "violating_rows": 0, "predicates": {}, "example": None})
                k["rows"] += 1
                if v["viol"]:
                    k["violating_rows"] += 1
                    for p in v["viol"]:
                        k["predicates"][p] = k["predicates"].get(p, 0) + 1
                    if k["example"] is None:
                        k["example"] = {"text": row["text"], "registrations": row["in"]["regs"], "out": outs,
                                        "documented": row["exp"], "violated": sorted(v["viol"])}
        else:
            drift += 1
            if drift <= 10:
                print(("DRIFT ext=X08 row=%d out=%s expected=%s text=%s" % (
                    t, json.dumps(outs), json.dumps(row.get("exp")), json.dumps(row["text"])))[:1500])
    ctx.cov["traces_validated_against_impl"] = accepted
    ctx.cov["drift_traces"] = drift
    ctx.cov["ext_finding_rows"] = finding_rows
    ctx.cov["ext_findings_seen"] = [fid for fid, _ in ext_seen]
    ctx.cov["evaluations"] = len(sel)
    ctx.cov["distinct_nontrivial"] = sum(1 for row in sel if nontrivial(row))
    tabs = sorted({row["in"]["tab"] for row in sel})
    ctx.cov["rows_by_table"] = {tab: sum(1 for row in sel if row["in"]["tab"] == tab) for tab in tabs}
    ctx.cov["rows_with_error"] = sum(1 for row in sel if row.get("exp", {}).get("err", {}).get("is"))
    ctx.cov["rule"] = ("rows = states of CfgMap.tla (one per input; distinct by construction): value table (17 kinds of "
                       "registration x every list of 0-1 spellings of the kind's alphabet x no block / empty block / block, "
                       "2-3 arguments where the documentation adds them), presence table (kind x inheritGlobal x required x "
                       "zero / non-zero default x 6 states of the global level x written or not x position of the global "
                       "directive), structure table (blocks of up to MaxNodes of 10 node templates x AllowUnknown x "
                       "required), global structure table (up to 2 of 11 top-level templates around an inheriting block), "
                       "RandN mixed rows drawn from Seed = VERIF_SEED; every row goes through the real code in both tiers "
                       "(quick MaxNodes=2, RandN=2500; thorough MaxNodes=3, RandN=20000); non-trivial = some directive is "
                       "written")
    ctx.cov["violated_predicates"] = preds
    ctx.cov["exhaustive"] = True
    picks = []
    for tab in tabs:
        picks += [row for row in sel if row["in"]["tab"] == tab and nontrivial(row)][:1]
    for row in picks[:6]:
        o = ev_by_t[row["id"]]["out"]
        ctx.cov["samples"].append({"row": {"text": row["text"], "in": row["in"], "documented": row["exp"]},
                                   "out": {k: o.get(k) for k in OUT_KEYS + ("msg",)}})
    ctx.assumptions += [
        "values are compared in a canonical spelling (durations in whole milliseconds, sizes and integers in decimal, "
        "floats in shortest form); the meaning of each spelling of the argument alphabet is a table of CfgMap.tla "
        "taken from docs/reference/config-syntax.md and the doc comments of framework/config/map.go",
        "int is 64 bits wide (the platform of the sandbox)",
        "a global directive and the module directive inheriting it are registered with the same kind (a mismatch "
        "is a programming error of the module, not an input)",
        "TLC 1.8.0, CommunityModules Json",
    ]
    # extension findings are printed here (vlib.finish prints KNOWN-FINDING lines only for listed properties)
    for fid, what in ext_seen:
        print("EXT-FINDING: ext=%s %s %s" % (PID, fid, what))


META = {
    "engine": "cfgmapcheck",
    "level": "model_checking",
    "technique": "TLA+ spec CfgMap.tla (configuration text rendered by TLA+, property predicates, documented procedure, "
                 "named deviations) enumerated by TLC; rows run through the real cfgparser and the real config.Map "
                 "(global level as maddy.ReadGlobals, module block with the global Values); recorded outcomes evaluated "
                 "by TLC (CfgMapTrace.tla)",
    "statement": "TBD",
    "text": "TBD",
    "note": "TBD",
    "design_ref": "extensions/X08.md",
}
