"""X08 - configuration directives are consumed exactly as documented: unknown or duplicate
directives are reported, defaults and global inheritance apply, for every module block.

(S) spec/CfgMap.tla: the input space as tables (value table: every kind of registration of
    framework/config/map.go x every argument list of a spelling alphabet x no block / empty block /
    block; presence table: inheritGlobal x required x defaults x state of the global level x
    written or not; structure tables: blocks and top levels of known, unknown, repeated, ill-formed
    and callback directives with and without AllowUnknown; a Seed-dependent mixed table), the
    configuration text rendered by TLA+, the property as named predicates (Prop), the documented
    procedure (Rule) and the code's deviations as named switches (RuleD).
(T) TLC enumerates every row, checks Prop(in, Rule(in)), prints the rows; one as-is run per deviation
    must violate Prop.
(B) harness/cfgmapcheck parses every text with the real cfgparser, builds the real config.Map of
    the global level (as maddy.ReadGlobals) and of the module block (with the global Values, as
    maddy.RegisterModules) with the registrations of the row and runs Process; spec/CfgMapTrace.tla
    evaluates Prop on (error, variables, unknown nodes, callback calls) the code produced.
"""
import json
import os
from concurrent.futures import ThreadPoolExecutor

import vlib
import vtable

PID = "X08"

# the deviations of spec/CfgMap.tla (AllDevs), in the order used to attribute a row
DEVS = ["DataSizeOverflow", "DataSizeZeroAnyUnit", "FloatIgnoresBlock", "DurationJoin"]
# the deviations of spec/CfgMapLoad.tla
LOAD_DEVS = ["SubmissionTimeoutDefault", "TableInstanceName"]

MC_CFG = """SPECIFICATION Spec
CONSTANTS
  Devs = {%(devs)s}
  Gen = %(gen)s
  Seed = %(seed)d
  RandN = %(randn)d
  MaxNodes = %(maxnodes)d
INVARIANTS %(inv)s
%(emit)s
CHECK_DEADLOCK FALSE
"""

TRACE_CFG = """SPECIFICATION TSpec
CONSTANTS
  Devs = {}
  Gen = FALSE
  Seed = 1
  RandN = 1
  MaxNodes = 1
  OpenDevs = {%(open)s}
CHECK_DEADLOCK FALSE
POSTCONDITION Post
"""

OUT_KEYS = ("panic", "err", "gvals", "vals", "gunknown", "unknown", "calls")


def q(names):
    return ", ".join('"%s"' % n for n in sorted(names))


def ext_findings():
    p = os.path.join(vlib.VERIF, "extensions", "findings.json")
    if not os.path.exists(p):
        return []
    return [f for f in json.load(open(p)).get("findings", []) if f.get("ext") == PID]


def nontrivial(row):
    """the row has something to decide: a directive is written, or a global level exists"""
    return bool(row["in"]["nodes"]) or bool(row["in"]["gnodes"])


def build_loader(ctx):
    """go test -c harness/cfgmapcheck/loader.  The package imports the root package of maddy (ReadGlobals,
    RegisterModules, Run), whose dependencies are not all listed in harness/go.mod; under -mod=mod go adds them,
    so the build always works on a private copy of go.mod / go.sum (the shared files are never written)."""
    import shutil
    import subprocess
    import time
    out = os.path.join(ctx.work, "cfgmapcheck_loader.test")
    mf = os.path.join(ctx.work, "loader.mod")
    txt = open(os.path.join(vlib.HARNESS, "go.mod")).read().replace("=> /repo", "=> " + ctx.repo)
    open(mf, "w").write(txt)
    shutil.copy(os.path.join(ctx.repo, "go.sum"), os.path.join(ctx.work, "loader.sum"))
    t0 = time.time()
    p = subprocess.run(["go1.26", "test", "-c", "-tags", "verif", "-modfile", mf, "-o", out, "./cfgmapcheck/loader"],
                       cwd=vlib.HARNESS, env=vlib.goenv(), stdout=subprocess.PIPE, stderr=subprocess.STDOUT, text=True)
    if p.returncode != 0 or not os.path.exists(out):
        raise vlib.Infra("harness build failed (cfgmapcheck/loader):\n%s" % p.stdout[-4000:])
    ctx.log("built harness cfgmapcheck/loader in %.1fs" % (time.time() - t0))
    return out


REG_CFG = """SPECIFICATION Spec
CONSTANTS
  MaxBlocks = %(maxblocks)d
  MaxUses = %(maxuses)d
  Gen = TRUE
INVARIANTS RuleSatisfiesProp
CONSTRAINT Emit
CHECK_DEADLOCK FALSE
"""

REG_TRACE_CFG = """SPECIFICATION TSpec
CONSTANTS
  MaxBlocks = 1
  MaxUses = 1
  Gen = FALSE
CHECK_DEADLOCK FALSE
POSTCONDITION Post
"""

REG_OUT_KEYS = ("panic", "err", "objs", "uses", "order")


def project_reg(e):
    o = e["out"]
    return {"t": e["t"], "seq": e["seq"], "e": "Row", "in": e["in"], "out": {k: o[k] for k in REG_OUT_KEYS}}


def harvest(ctx, name):
    """after a failed shard run: the Row events that were written, and the rows whose Begin line has no Row line in a
    shard whose log shows a crash of the process inside maddy's code (stack overflow, fatal error, unrecovered panic)"""
    d = os.path.join(ctx.work, name)
    got, bad = [], []
    for f in sorted(os.listdir(d)):
        if not (f.startswith("out") and f.endswith(".ndjson")):
            continue
        begun, done = [], set()
        for line in open(os.path.join(d, f)):
            line = line.strip()
            if not line:
                continue
            try:
                e = json.loads(line)
            except ValueError:
                continue
            if e["e"] == "Begin":
                begun.append(e["t"])
            else:
                done.add(e["t"])
                got.append(e)
        left = [t for t in begun if t not in done]
        log = os.path.join(d, f.replace("out", "log").replace(".ndjson", ".txt"))
        txt = open(log, errors="replace").read() if os.path.exists(log) else ""
        if left and ("panic:" in txt or "fatal error:" in txt or "stack overflow" in txt) and "foxcpp/maddy" in txt:
            k = max(txt.find("fatal error:"), txt.find("panic:"), 0)
            bad.append((left[-1], txt[k:k + 2000]))
    return got, bad


def shards_with_crashes(ctx, binary, items, name):
    """run_shards; a row that kills the process is a statement about maddy (NoPanic), the rest of its shard is re-run"""
    pending, events, crashed = items, [], []
    for attempt in range(6):
        nm = name if attempt == 0 else "%s%d" % (name, attempt)
        try:
            events += ctx.run_shards(binary, pending, timeout=1500, name=nm)
            pending = []
            break
        except vlib.Infra:
            got, bad = harvest(ctx, nm)
            if not bad:
                raise
            events += got
            crashed += bad
            done = {e["t"] for e in got} | {t for t, _ in bad}
            pending = [it for it in pending if it["id"] not in done]
    if pending and not crashed:
        raise vlib.Infra("%d rows were not run" % len(pending))
    return [e for e in events if e["e"] == "Row"], crashed, pending


def run_registry(ctx, replay_row, binary):
    """layer "r": instances and references (spec/CfgMapReg.tla).  Returns (rows, events, verdicts, accepted)."""
    thorough = ctx.tier == "thorough"
    if replay_row is not None:
        rows = [replay_row]
        rows[0]["id"] = 1
    else:
        r = ctx.tlc_expect_ok("CfgMapReg", None, name="reg-mc", workers=8, timeout=2400,
                              cfg_text=REG_CFG % dict(maxblocks=2, maxuses=3 if thorough else 2))
        rows = vtable.rows_from(r)
        if len(rows) != r["distinct"]:
            raise vlib.Infra("CfgMapReg: TLC printed %d distinct rows for %d states" % (len(rows), r["distinct"]))
        ctx.cov["reg_states"] = r["distinct"]
        ctx.cov["reg_transitions"] = r["generated"]
        ctx.log("TLC: %d configurations of blocks and references; refused iff a documented defect, accepted as "
                "documented, on the rule, %.1fs" % (r["distinct"], r["wall"]))
    items = [{"id": row["id"], "in": row["in"], "text": row["text"]} for row in rows]
    events, crashed, notrun = shards_with_crashes(ctx, binary, items, "reg-replay")
    for t, tail in crashed:
        events.append({"t": t, "seq": 2, "e": "Row", "in": [r for r in rows if r["id"] == t][0]["in"],
                       "out": {"panic": True, "err": {"is": False, "stage": "none", "line": 0, "mentions": []},
                               "objs": [], "uses": [], "order": [], "msg": "the process crashed: " + tail}})
    if crashed:
        ctx.log("the loader crashed the process on %d configurations (%d not run)" % (len(crashed), len(notrun)))
        rows = [r for r in rows if r["id"] not in {it["id"] for it in notrun}]
    elif len(events) != len(items):
        raise vlib.Infra("loader harness answered %d of %d rows" % (len(events), len(items)))
    ctx.log("real loader answered %d configurations" % len(events))
    selftest = {}
    if replay_row is None:
        def forge(t, pred, chg):
            for row in rows:
                if pred(row):
                    f = {"t": t, "seq": 2, "e": "Row", "in": row["in"], "out": json.loads(json.dumps(row["exp"]))}
                    chg(f["out"], row)
                    return f
            return None
        okrow = lambda row: not row["exp"]["err"]["is"]

        def accept_anyway(o, row):
            o["err"] = {"is": False, "stage": "none", "line": 0, "mentions": []}
        forged = [
            (910001, "duplicate block name accepted",
             forge(910001, lambda row: row["exp"]["err"]["stage"] == "register" and len(row["in"]["blocks"]) == 2
                   and row["in"]["blocks"][0]["names"][0] == row["in"]["blocks"][1]["names"][0], accept_anyway)),
            (910002, "undefined reference accepted",
             forge(910002, lambda row: row["exp"]["err"]["stage"] == "init" and row["exp"]["err"]["mentions"] == ["Zz"],
                   accept_anyway)),
            (910003, "unused block accepted", forge(910003, lambda row: row["exp"]["err"]["stage"] == "unused", accept_anyway)),
            (910004, "reference resolved to another block",
             forge(910004, lambda row: okrow(row) and len(row["exp"]["objs"]) >= 2 and row["in"]["uses"]
                   and row["in"]["uses"][0]["form"] == "ref",
                   lambda o, row: o["uses"].__setitem__(0, 1 if o["uses"][0] != 1 else 2))),
            (910005, "inline definitions share one instance",
             forge(910005, lambda row: okrow(row) and len(row["in"]["uses"]) == 2
                   and all(u["form"] == "inline" for u in row["in"]["uses"]),
                   lambda o, row: o["uses"].__setitem__(1, o["uses"][0]))),
            (910006, "instance initialised twice",
             forge(910006, lambda row: okrow(row) and row["exp"]["objs"],
                   lambda o, row: o["objs"][0].__setitem__("inits", 2))),
            (910007, "global hostname not inherited",
             forge(910007, lambda row: okrow(row) and row["in"]["host"] and row["exp"]["objs"]
                   and row["exp"]["objs"][0]["hostname"] == row["in"]["host"],
                   lambda o, row: o["objs"][0].__setitem__("hostname", ""))),
        ]
        for t, what, f in forged:
            if f is None:
                raise vlib.Infra("binding self-test (registry): no base row for '%s'" % what)
            selftest[t] = what
            events = events + [f]
    verdicts, accepted = vtable.validate_rows(ctx, "CfgMapRegTrace", REG_TRACE_CFG, [project_reg(e) for e in events],
                                              name="CfgMapRegTrace", batch=3000, par=8, timeout=1800)
    for t, what in selftest.items():
        v = verdicts.get(t)
        if not v or not v["viol"]:
            raise vlib.Infra("binding self-test failed: forged configuration outcome (%s) was accepted" % what)
        del verdicts[t]
    if selftest:
        ctx.cov["binding_selftest_registry"] = "forged outcomes rejected: " + "; ".join(selftest.values())
    ctx.log("TLC evaluated %d recorded configurations: %d accepted as conforming" % (len(events), accepted))
    return rows, [e for e in events if e["t"] < 900000], verdicts, accepted


def project(e):
    o = e["out"]
    return {"t": e["t"], "seq": e["seq"], "e": "Row", "in": e["in"], "out": {k: o[k] for k in OUT_KEYS}}


def run_map(ctx, replay):
    """layer "m": config.Map (spec/CfgMap.tla); replay: a stored replay object or None"""
    thorough = ctx.tier == "thorough"
    entries = ext_findings()
    for e in entries:
        if e["match"]["deviation"] not in DEVS + LOAD_DEVS:
            raise vlib.Infra("finding %s names an unknown deviation %s" % (e["id"], e["match"]["deviation"]))
    open_by_dev = {e["match"]["deviation"]: e for e in entries
                   if e.get("status", "open") == "open" and e["match"]["deviation"] in DEVS}
    ext_seen = []        # (finding id, what)

    # ---- (T) + rows ---------------------------------------------------------
    if replay:
        obj = replay
        rows = [obj["row"]]
        rows[0]["id"] = 1
    else:
        maxnodes = 4 if thorough else 2
        randn = 40000 if thorough else 2500
        r = ctx.tlc_expect_ok("CfgMap", None, name="mc", workers=8, timeout=2400,
                              cfg_text=MC_CFG % dict(devs="", gen="TRUE", seed=ctx.seed, randn=randn, maxnodes=maxnodes,
                                                     inv="RuleSatisfiesProp RuleIsDecisive", emit="CONSTRAINT Emit"))
        rows = vtable.rows_from(r)
        if len(rows) != r["distinct"]:
            raise vlib.Infra("TLC printed %d distinct rows for %d states" % (len(rows), r["distinct"]))
        ctx.cov["states"] = r["distinct"]
        ctx.cov["transitions"] = r["generated"]
        ctx.cov["model_depth"] = r["depth"]
        ctx.log("TLC: %d input rows (MaxNodes=%d, %d mixed rows for seed %d); Prop(in, Rule(in)) holds on all, %.1fs" % (
            r["distinct"], maxnodes, randn, ctx.seed, r["wall"]))

        # as-is: each deviation of the code, switched on alone, must violate the property (non-vacuity)
        def asis(dev):
            return dev, ctx.tlc("CfgMap", None, name="asis-" + dev, workers=2, timeout=600,
                                cfg_text=MC_CFG % dict(devs=q([dev]), gen="FALSE", seed=1, randn=1, maxnodes=1,
                                                       inv="AsIsSatisfiesProp", emit=""))
        asis_pool = ThreadPoolExecutor(max_workers=3)
        asis_runs = [asis_pool.submit(asis, d) for d in DEVS]
    sel = rows
    by_id = {row["id"]: row for row in sel}
    ctx.log("%d rows to run through the real code" % len(sel))

    # ---- (B) the real code ------------------------------------------------------
    binary = ctx.build_harness("cfgmapcheck")
    items = [{"id": row["id"], "in": row["in"], "text": row["text"]} for row in sel]
    events = [e for e in ctx.run_shards(binary, items, timeout=1500) if e["e"] == "Row"]
    ctx.log("real code answered %d rows" % len(events))
    if len(events) != len(items):
        raise vlib.Infra("harness answered %d of %d rows" % (len(events), len(items)))
    ev_by_t = {e["t"]: e for e in events}

    # binding self-test: forged outputs must be rejected, and must not pass as findings
    selftest = {}
    if not replay:
        def forge(t, pred, chg):
            # built from the row and the rule's output only: independent of what the code did
            for row in rows:
                if pred(row):
                    f = {"t": t, "seq": 2, "e": "Row", "in": row["in"], "out": json.loads(json.dumps(row["exp"]))}
                    chg(f["out"], row)
                    return f
            return None
        noerr = {"is": False, "level": "none", "line": 0, "cls": "none", "mentions": []}

        def swallow(o, row):        # an error that is not reported: defaults come back instead
            o["err"] = dict(noerr)
            o["gvals"] = [list(g["def"]) for g in row["in"]["gregs"]]
            o["vals"] = [list(g["def"]) for g in row["in"]["regs"]]
            o["gunknown"] = [row["in"]["pos"] + 1]

        def wrongval(o, row):
            o["vals"][0] = ["forged"]

        def wrongline(o, row):
            o["err"]["line"] += 1

        def spurious(o, row):
            o["err"] = {"is": True, "level": "module", "line": row["in"]["pos"] + 1, "cls": "other", "mentions": []}

        def dropcall(o, row):
            o["calls"] = o["calls"][:-1]
        okrow = lambda row: not row["exp"]["err"]["is"]
        forged = [
            (900001, "unknown directive swallowed", forge(900001, lambda row: row["in"]["tab"] == "structure"
                                                          and row["exp"]["err"]["cls"] == "unknown", swallow)),
            (900002, "duplicate directive swallowed", forge(900002, lambda row: row["in"]["tab"] == "structure"
                                                            and row["exp"]["err"]["cls"] == "duplicate", swallow)),
            (900003, "missing required directive swallowed",
             forge(900003, lambda row: row["in"]["tab"] == "presence" and row["exp"]["err"]["cls"] == "missing", swallow)),
            (900004, "wrong value stored", forge(900004, lambda row: row["in"]["tab"] == "value" and okrow(row), wrongval)),
            (900005, "error points at another line",
             forge(900005, lambda row: row["in"]["tab"] == "structure" and len(row["in"]["nodes"]) == 2
                   and row["exp"]["err"]["cls"] == "other" and row["exp"]["err"]["line"] == 3, wrongline)),
            (900006, "valid block refused", forge(900006, lambda row: row["in"]["tab"] == "presence" and okrow(row)
                                                  and row["in"]["nodes"], spurious)),
            (900007, "callback not called", forge(900007, lambda row: row["in"]["tab"] == "structure" and okrow(row)
                                                  and row["exp"]["calls"], dropcall)),
            (900008, "global value not inherited",
             forge(900008, lambda row: row["in"]["tab"] == "presence" and okrow(row) and not row["in"]["nodes"]
                   and row["in"]["gnodes"] and row["in"]["regs"][0]["inherit"]
                   and row["exp"]["vals"][0] != row["in"]["regs"][0]["def"],
                   lambda o, row: o["vals"].__setitem__(0, list(row["in"]["regs"][0]["def"])))),
        ]
        for t, what, f in forged:
            if f is None:
                raise vlib.Infra("binding self-test: no base row for '%s'" % what)
            selftest[t] = what
            events = events + [f]

    verdicts, accepted = vtable.validate_rows(ctx, "CfgMapTrace", TRACE_CFG % dict(open=q(open_by_dev)),
                                              [project(e) for e in events], batch=4000, par=8, timeout=1800)
    ctx.log("TLC evaluated %d recorded rows: %d accepted as conforming" % (len(events), accepted))
    for t, what in selftest.items():
        v = verdicts.get(t)
        if not v or not v["viol"] or v["devs"]:
            raise vlib.Infra("binding self-test failed: forged row (%s) was accepted or explained by a deviation" % what)
        del verdicts[t]
    if selftest:
        ctx.cov["binding_selftest"] = "forged rows rejected: " + "; ".join(selftest.values())

    if not replay:
        for fut in asis_runs:
            dev, ra = fut.result()
            if ra["invariant"] != "AsIsSatisfiesProp":
                raise vlib.Infra("as-is model (%s) does not violate the property: predicates vacuous? (%s)" % (
                    dev, ra["error"]))
        asis_pool.shutdown()
        ctx.cov.setdefault("asis_counterexample_found", [])
        ctx.cov["asis_counterexample_found"] += list(DEVS)
    if replay:
        ev = events[0]
        v = verdicts.get(ev["t"])
        print("REPLAY ext=X08 config:\n%s" % rows[0].get("text", ""))
        print("REPLAY ext=X08 registrations: global=%s module=%s allow_unknown=%s" % (
            json.dumps(rows[0]["in"]["gregs"]), json.dumps(rows[0]["in"]["regs"]), rows[0]["in"]["au"]))
        print("REPLAY ext=X08 real code: %s" % json.dumps({k: ev["out"].get(k) for k in OUT_KEYS + ("msg",)}))
        print("REPLAY ext=X08 documented: %s" % json.dumps(rows[0].get("exp")))
        if v:
            least = min(len(d) for d in v["devs"]) if v["devs"] else 0
            print("REPLAY ext=X08 verdict of TLC: violated=%s differs-from-documented-rule=%s explained-by-deviations=%s" % (
                sorted(v["viol"]), v["drift"], sorted(sorted(d) for d in v["devs"] if len(d) == least)))
        else:
            print("REPLAY ext=X08 verdict of TLC: accepted as conforming")

    # ---- verdicts ------------------------------------------------------------------
    drift = 0
    finding_rows = {}
    preds = {}
    for t, v in sorted(verdicts.items()):
        row, ev = by_id[t], ev_by_t[t]
        outs = {k: ev["out"][k] for k in OUT_KEYS}
        outs["msg"] = ev["out"].get("msg", "")
        devsets = sorted((sorted(d, key=DEVS.index) for d in v["devs"]),
                         key=lambda d: (len(d), [DEVS.index(x) for x in d]))
        minimal = devsets[0] if devsets else None
        explained = minimal is not None and all(d in open_by_dev for d in minimal)
        if explained and v["viol"]:
            allowed = set()
            for d in minimal:
                allowed |= set(open_by_dev[d]["match"].get("predicates", []))
            explained = set(v["viol"]) <= allowed
        if v["viol"] and not explained:
            for p in v["viol"]:
                preds[p] = preds.get(p, 0) + 1
            what = "config.Map violates %s: text=%s registrations=%s out=%s documented=%s" % (
                ",".join(sorted(v["viol"])), json.dumps(row["text"]),
                json.dumps({"global": row["in"]["gregs"], "module": row["in"]["regs"], "allow_unknown": row["in"]["au"]}),
                json.dumps(outs), json.dumps(row.get("exp")))
            if len(what) > 1200:
                what = what[:1200] + " ..."
            ctx.violation(what, {"property": PID, "layer": "m", "row": row, "out": ev["out"], "violated": sorted(v["viol"]),
                                 "how": "bin/check X08 --replay <this file>"})
        elif explained:
            # exactly the behaviour of the named deviation(s) of open findings
            for d in minimal:
                e = open_by_dev[d]
                if (e["id"], e["what"]) not in ext_seen:
                    ext_seen.append((e["id"], e["what"]))
                k = finding_rows.setdefault(e["id"], {"rows": 0, "violating_rows": 0, "predicates": {}, "example": None})
                k["rows"] += 1
                if v["viol"]:
                    k["violating_rows"] += 1
                    for p in v["viol"]:
                        k["predicates"][p] = k["predicates"].get(p, 0) + 1
                    if k["example"] is None:
                        k["example"] = {"text": row["text"], "registrations": row["in"]["regs"], "out": outs,
                                        "documented": row["exp"], "violated": sorted(v["viol"])}
        else:
            drift += 1
            if drift <= 10:
                print(("DRIFT ext=X08 row=%d out=%s expected=%s text=%s" % (
                    t, json.dumps(outs), json.dumps(row.get("exp")), json.dumps(row["text"])))[:1500])
    ctx.cov["traces_validated_against_impl"] = ctx.cov.get("traces_validated_against_impl", 0) + accepted
    ctx.cov["drift_traces"] = ctx.cov.get("drift_traces", 0) + drift
    ctx.cov.setdefault("ext_finding_rows", {}).update(finding_rows)
    ctx.cov.setdefault("ext_findings_seen", [])
    ctx.cov["ext_findings_seen"] += [fid for fid, _ in ext_seen]
    ctx.cov["evaluations"] = ctx.cov.get("evaluations", 0) + len(sel)
    ctx.cov["distinct_nontrivial"] = ctx.cov.get("distinct_nontrivial", 0) + sum(1 for row in sel if nontrivial(row))
    tabs = sorted({row["in"]["tab"] for row in sel})
    ctx.cov["rows_by_table"] = {tab: sum(1 for row in sel if row["in"]["tab"] == tab) for tab in tabs}
    ctx.cov["rows_with_error"] = sum(1 for row in sel if row.get("exp", {}).get("err", {}).get("is"))
    ctx.cov["rule"] = ("rows = states of CfgMap.tla (one per input; distinct by construction): value table (17 kinds of "
                       "registration x every list of 0-1 spellings of the kind's alphabet x no block / empty block / block, "
                       "2-3 arguments where the documentation adds them), presence table (kind x inheritGlobal x required x "
                       "zero / non-zero default x 6 states of the global level x written or not x position of the global "
                       "directive), structure table (blocks of up to MaxNodes of 10 node templates x AllowUnknown x "
                       "required), global structure table (up to 2 of 11 top-level templates around an inheriting block), "
                       "RandN mixed rows drawn from Seed = VERIF_SEED; every row goes through the real code in both tiers "
                       "(quick MaxNodes=2, RandN=2500; thorough MaxNodes=4, RandN=40000); non-trivial = some directive is "
                       "written")
    ctx.cov.setdefault("violated_predicates", {}).update(preds)
    ctx.cov["exhaustive"] = True
    picks = []
    for tab in tabs:
        picks += [row for row in sel if row["in"]["tab"] == tab and nontrivial(row)][:1]
    for row in picks[:6]:
        o = ev_by_t[row["id"]]["out"]
        ctx.cov["samples"].append({"row": {"text": row["text"], "in": row["in"], "documented": row["exp"]},
                                   "out": {k: o.get(k) for k in OUT_KEYS + ("msg",)}})
    ctx.assumptions += [
        "values are compared in a canonical spelling (durations in whole milliseconds, sizes and integers in decimal, "
        "floats in shortest form); the meaning of each spelling of the argument alphabet is a table of CfgMap.tla "
        "taken from docs/reference/config-syntax.md and the doc comments of framework/config/map.go",
        "int is 64 bits wide (the platform of the sandbox)",
        "a global directive and the module directive inheriting it are registered with the same kind (a mismatch "
        "is a programming error of the module, not an input)",
        "TLC 1.8.0, CommunityModules Json",
    ]
    # extension findings are printed here (vlib.finish prints KNOWN-FINDING lines only for listed properties)
    for fid, what in ext_seen:
        print("EXT-FINDING: ext=%s %s %s" % (PID, fid, what))


LOAD_CFG = """SPECIFICATION Spec
CONSTANTS
  Devs = {%(devs)s}
  Gen = %(gen)s
INVARIANTS %(inv)s
%(emit)s
CHECK_DEADLOCK FALSE
"""

LOAD_TRACE_CFG = """SPECIFICATION TSpec
CONSTANTS
  Devs = {}
  Gen = FALSE
  OpenDevs = {%(open)s}
CHECK_DEADLOCK FALSE
POSTCONDITION Post
"""

LOAD_OUT_KEYS = ("crashed", "err", "smtp", "dkim", "static")


def project_load(e):
    o = e["out"]
    return {"t": e["t"], "seq": e["seq"], "e": "Row", "in": e["in"], "out": {k: o[k] for k in LOAD_OUT_KEYS}}


def loader_verdicts(ctx, replay, binary):
    """layer "l": maddy's own entry point on real module blocks (spec/CfgMapLoad.tla), one child process per row"""
    entries = ext_findings()
    open_by_dev = {e["match"]["deviation"]: e for e in entries
                   if e.get("status", "open") == "open" and e["match"]["deviation"] in LOAD_DEVS}
    if replay:
        rows = [replay["row"]]
        rows[0]["id"] = 1
    else:
        r = ctx.tlc_expect_ok("CfgMapLoad", None, name="load-mc", workers=2, timeout=900,
                              cfg_text=LOAD_CFG % dict(devs="", gen="TRUE", inv="RuleSatisfiesProp", emit="CONSTRAINT Emit"))
        rows = vtable.rows_from(r)
        if len(rows) != r["distinct"]:
            raise vlib.Infra("CfgMapLoad: TLC printed %d distinct rows for %d states" % (len(rows), r["distinct"]))
        ctx.cov["load_states"] = r["distinct"]
        ctx.cov["load_transitions"] = r["generated"]
        for dev in LOAD_DEVS:
            ra = ctx.tlc("CfgMapLoad", None, name="load-asis-" + dev, workers=1, timeout=600,
                         cfg_text=LOAD_CFG % dict(devs=q([dev]), gen="FALSE", inv="AsIsDiffers", emit=""))
            if ra["invariant"] != "AsIsDiffers":
                raise vlib.Infra("as-is loader model (%s) does not differ from the documented one (%s)" % (dev, ra["error"]))
        ctx.cov.setdefault("asis_counterexample_found", [])
        ctx.cov["asis_counterexample_found"] += LOAD_DEVS
        ctx.log("TLC: %d maddy.conf rows (real module blocks); the documented outcome satisfies the property, %.1fs" % (
            r["distinct"], r["wall"]))
    by_id = {row["id"]: row for row in rows}
    items = [{"id": row["id"], "in": row["in"], "text": row["text"], "keys": row.get("keys", [])} for row in rows]
    events = [e for e in ctx.run_shards(binary, items, timeout=1500, name="load-replay") if e["e"] == "Row"]
    if len(events) != len(items):
        raise vlib.Infra("loader harness answered %d of %d maddy.conf rows" % (len(events), len(items)))
    ctx.log("maddy started on %d configurations (one child process each)" % len(events))
    ev_by_t = {e["t"]: e for e in events}
    selftest = {}
    if not replay:
        def forge(t, pred, chg):
            for row in rows:
                if pred(row):
                    x = row["exp"]
                    o = {"crashed": False,
                         "err": {"is": x["err"]["is"], "line": (sorted(x["err"]["lines"]) or [0])[-1], "mentions": list(x["err"]["names"])},
                         "smtp": dict(x["smtp"]), "dkim": dict(x["dkim"]), "static": [list(p) for p in x["static"]]}
                    chg(o, row)
                    return {"t": t, "seq": 2, "e": "Row", "in": row["in"], "out": o}
            return None
        okrow = lambda row: not row["exp"]["err"]["is"]
        forged = [
            (920001, "unknown directive in a real block accepted",
             forge(920001, lambda row: row["in"]["defect"] == "smtp_unknown",
                   lambda o, row: o.__setitem__("err", {"is": False, "line": 0, "mentions": []}))),
            (920002, "documented default replaced",
             forge(920002, lambda row: okrow(row) and row["in"]["tab"] == "smtp" and not row["in"]["smtp"],
                   lambda o, row: o["smtp"].__setitem__("connect_timeout", "1000"))),
            (920003, "global debug not inherited",
             forge(920003, lambda row: okrow(row) and row["in"]["tab"] == "dkim" and row["in"]["debug"] == "yes"
                   and not row["in"]["dkim"], lambda o, row: o["dkim"].__setitem__("debug", "false"))),
            (920004, "valid configuration refused",
             forge(920004, lambda row: okrow(row) and row["in"]["tab"] == "smtp",
                   lambda o, row: o.__setitem__("err", {"is": True, "line": 1, "mentions": []}))),
        ]
        for t, what, f in forged:
            if f is None:
                raise vlib.Infra("binding self-test (loader): no base row for '%s'" % what)
            selftest[t] = what
            events = events + [f]
    verdicts, accepted = vtable.validate_rows(ctx, "CfgMapLoadTrace", LOAD_TRACE_CFG % dict(open=q(open_by_dev)),
                                              [project_load(e) for e in events], name="CfgMapLoadTrace", batch=4000, par=2,
                                              timeout=900)
    for t, what in selftest.items():
        v = verdicts.get(t)
        if not v or not v["viol"] or v["devs"]:
            raise vlib.Infra("binding self-test failed: forged loader outcome (%s) was accepted or explained" % what)
        del verdicts[t]
    if selftest:
        ctx.cov["binding_selftest_loader"] = "forged outcomes rejected: " + "; ".join(selftest.values())
    ctx.log("TLC evaluated %d recorded maddy starts: %d accepted as conforming" % (len(events), accepted))
    if replay:
        ev = events[0]
        v = verdicts.get(ev["t"])
        print("REPLAY ext=X08 maddy.conf (%%T = scratch directory):\n%s" % rows[0].get("text", ""))
        print("REPLAY ext=X08 maddy: %s" % json.dumps({k: ev["out"].get(k) for k in LOAD_OUT_KEYS + ("msg", "code")}))
        print("REPLAY ext=X08 documented: %s" % json.dumps(rows[0].get("exp")))
        print("REPLAY ext=X08 verdict of TLC: %s" % (
            "violated=%s differs=%s explained-by-deviations=%s" % (sorted(v["viol"]), v["drift"], v["devs"]) if v
            else "accepted as conforming"))
    drift, preds, finding_rows, ext_seen = 0, {}, {}, []
    for t, v in sorted(verdicts.items()):
        row, ev = by_id[t], ev_by_t[t]
        outs = {k: ev["out"][k] for k in LOAD_OUT_KEYS}
        outs["msg"] = ev["out"].get("msg", "")
        devsets = sorted((sorted(d, key=LOAD_DEVS.index) for d in v["devs"]),
                         key=lambda d: (len(d), [LOAD_DEVS.index(x) for x in d]))
        minimal = devsets[0] if devsets else None
        explained = minimal is not None and all(d in open_by_dev for d in minimal)
        if explained and v["viol"]:
            allowed = set()
            for d in minimal:
                allowed |= set(open_by_dev[d]["match"].get("predicates", []))
            explained = set(v["viol"]) <= allowed
        if v["viol"] and not explained:
            for p in v["viol"]:
                preds[p] = preds.get(p, 0) + 1
            what = ("maddy violates %s on a documented configuration: text=%s out=%s documented=%s" % (
                ",".join(sorted(v["viol"])), json.dumps(row["text"]), json.dumps(outs), json.dumps(row.get("exp"))))[:1500]
            ctx.violation(what, {"property": PID, "layer": "l", "row": row, "out": ev["out"], "violated": sorted(v["viol"]),
                                 "how": "bin/check X08 --replay <this file>"})
        elif explained:
            for d in minimal:
                e = open_by_dev[d]
                if (e["id"], e["what"]) not in ext_seen:
                    ext_seen.append((e["id"], e["what"]))
                k = finding_rows.setdefault(e["id"], {"rows": 0, "violating_rows": 0, "predicates": {}, "example": None})
                k["rows"] += 1
                if v["viol"]:
                    k["violating_rows"] += 1
                    for p in v["viol"]:
                        k["predicates"][p] = k["predicates"].get(p, 0) + 1
                    if k["example"] is None:
                        k["example"] = {"text": row["text"], "out": outs, "documented": row["exp"], "violated": sorted(v["viol"])}
        else:
            drift += 1
            if drift <= 10:
                print(("DRIFT ext=X08 layer=l row=%d out=%s expected=%s text=%s" % (
                    t, json.dumps(outs), json.dumps(row.get("exp")), json.dumps(row["text"])))[:1500])
    ctx.cov["traces_validated_against_impl"] = ctx.cov.get("traces_validated_against_impl", 0) + accepted
    ctx.cov["drift_traces"] = ctx.cov.get("drift_traces", 0) + drift
    ctx.cov["evaluations"] = ctx.cov.get("evaluations", 0) + len(rows)
    ctx.cov["distinct_nontrivial"] = ctx.cov.get("distinct_nontrivial", 0) + len(rows)
    ctx.cov["load_rows_by_table"] = {tab: sum(1 for row in rows if row["in"]["tab"] == tab)
                                     for tab in sorted({row["in"]["tab"] for row in rows})}
    ctx.cov.setdefault("ext_finding_rows", {}).update(finding_rows)
    ctx.cov.setdefault("ext_findings_seen", [])
    ctx.cov["ext_findings_seen"] += [fid for fid, _ in ext_seen]
    ctx.cov.setdefault("violated_predicates", {}).update(preds)
    for row in [r for r in rows if not r["exp"]["err"]["is"] and r["in"]["smtp"]][:1]:
        o = ev_by_t[row["id"]]["out"]
        ctx.cov["samples"].append({"row": {"text": row["text"], "documented": row["exp"]},
                                   "out": {k: o.get(k) for k in LOAD_OUT_KEYS + ("msg", "code")}})
    ctx.assumptions += [
        "layer l: maddy's entry point (maddycli.Run with --config FILE run) runs in a child process of the harness binary; "
        "READY=1 on its own sd_notify socket means the configuration was accepted; the configured variables are read from "
        "the unexported fields of the real module objects by reflection (a renamed field is an infrastructure error); the "
        "smtp endpoint listens on 127.0.0.1 port 0",
    ]
    for fid, what in ext_seen:
        print("EXT-FINDING: ext=%s %s %s" % (PID, fid, what))


def registry_verdicts(ctx, replay, binary):
    rows, events, verdicts, accepted = run_registry(ctx, replay["row"] if replay else None, binary)
    by_id = {row["id"]: row for row in rows}
    ev_by_t = {e["t"]: e for e in events}
    drift, preds = 0, {}
    if replay:
        ev = events[0]
        v = verdicts.get(ev["t"])
        print("REPLAY ext=X08 config (%%U = per-row prefix):\n%s" % rows[0].get("text", ""))
        print("REPLAY ext=X08 real loader: %s" % json.dumps({k: ev["out"].get(k) for k in REG_OUT_KEYS + ("msg",)}))
        print("REPLAY ext=X08 documented: %s" % json.dumps(rows[0].get("exp")))
        print("REPLAY ext=X08 verdict of TLC: %s" % (
            "violated=%s differs-from-documented-procedure=%s" % (sorted(v["viol"]), v["drift"]) if v
            else "accepted as conforming"))
    for t, v in sorted(verdicts.items()):
        row, ev = by_id[t], ev_by_t[t]
        outs = {k: ev["out"][k] for k in REG_OUT_KEYS}
        outs["msg"] = ev["out"].get("msg", "")
        if v["viol"]:
            for p in v["viol"]:
                preds[p] = preds.get(p, 0) + 1
            what = ("module loading violates %s: text=%s out=%s documented=%s" % (
                ",".join(sorted(v["viol"])), json.dumps(row["text"]), json.dumps(outs), json.dumps(row.get("exp"))))[:1200]
            ctx.violation(what, {"property": PID, "layer": "r", "row": row, "out": ev["out"], "violated": sorted(v["viol"]),
                                 "how": "bin/check X08 --replay <this file>"})
        else:
            drift += 1
            if drift <= 10:
                print(("DRIFT ext=X08 layer=r row=%d out=%s expected=%s text=%s" % (
                    t, json.dumps(outs), json.dumps(row.get("exp")), json.dumps(row["text"])))[:1500])
    ctx.cov["traces_validated_against_impl"] = ctx.cov.get("traces_validated_against_impl", 0) + accepted
    ctx.cov["drift_traces"] = ctx.cov.get("drift_traces", 0) + drift
    ctx.cov["evaluations"] = ctx.cov.get("evaluations", 0) + len(rows)
    ctx.cov["distinct_nontrivial"] = ctx.cov.get("distinct_nontrivial", 0) + sum(
        1 for row in rows if row["in"]["blocks"] or row["in"]["uses"])
    ctx.cov["reg_rows_by_table"] = {tab: sum(1 for row in rows if row["in"]["tab"] == tab)
                                    for tab in sorted({row["in"]["tab"] for row in rows})}
    ctx.cov["reg_rows_accepted_by_rule"] = sum(1 for row in rows if not row.get("exp", {}).get("err", {}).get("is"))
    ctx.cov.setdefault("violated_predicates", {}).update(preds)
    for row in [r for r in rows if not r.get("exp", {}).get("err", {}).get("is") and len(r["in"]["uses"]) >= 2][:1] + \
            [r for r in rows if r.get("exp", {}).get("err", {}).get("stage") == "unused"][:1]:
        o = ev_by_t[row["id"]]["out"]
        ctx.cov["samples"].append({"row": {"text": row["text"], "documented": row["exp"]},
                                   "out": {k: o.get(k) for k in REG_OUT_KEYS + ("msg",)}})
    ctx.assumptions += [
        "layer r: %U in block names is replaced by a per-row prefix (maddy's instance registry is process-wide); the "
        "steps of moduleMain between reading the file and waiting for signals are called one by one (ReadGlobals, "
        "RegisterModules, initModules through go:linkname)",
    ]


def run(ctx, replay):
    # anything that goes wrong in the machinery itself says nothing about maddy: exit 2, never 1
    try:
        _run(ctx, replay)
    except vlib.Infra:
        raise
    except Exception as e:      # noqa: BLE001
        import traceback
        raise vlib.Infra("the check itself failed: %r\n%s" % (e, traceback.format_exc()[-1500:]))


def _run(ctx, replay):
    obj = json.load(open(replay)) if replay else None
    layer = obj.get("layer", "m") if obj else None
    if layer in (None, "r", "l"):
        binary = build_loader(ctx)
    if layer in (None, "l"):
        loader_verdicts(ctx, obj, binary)
    if layer in (None, "r"):
        registry_verdicts(ctx, obj, binary)
    if layer in (None, "m"):
        run_map(ctx, obj)


META = {
    "engine": "cfgmapcheck",
    "level": "model_checking",
    "technique": "TLA+ specs CfgMap.tla (config.Map), CfgMapReg.tla (module instances and references), CfgMapLoad.tla (real "
                 "module blocks from the reference documentation): configuration texts rendered by TLA+, property predicates, "
                 "documented procedure, named deviations, enumerated by TLC; every text goes through the real cfgparser and "
                 "the real config.Map / ModuleFromNode / instance registry / maddy.ReadGlobals, RegisterModules, initModules "
                 "(layers m, r) or through maddy's own entry point in a child process (layer l); recorded outcomes are "
                 "evaluated by TLC (CfgMap*Trace.tla)",
    "statement": "For every configuration block processed by framework/config.Map - every kind of registration (Bool, String, "
                 "Int/UInt/Int32/UInt32/Int64/UInt64, Float, Duration, DataSize, Enum, EnumList, EnumMapped, EnumListMapped, "
                 "StringList, Custom, Callback; inheritGlobal, required, default; AllowUnknown) and every block of directives "
                 "(known, unknown and repeated names; no, one or several arguments: bool forms, numbers at and beyond the "
                 "limits of their type, durations and data sizes with and without units, fractions, signs and overflow, enum "
                 "values outside the set, empty strings; an empty or non-empty block where arguments are expected), at the "
                 "global level and inside a module block - Process never panics and either returns an error that names the "
                 "offending directive by file:line (for a missing required directive: the block and the directive's name), or "
                 "sets every registered variable to exactly the documented value: the value written in the block if it is "
                 "written once, else the global value if the directive inherits from the globals and the global directive is "
                 "set, else the default (of the global directive or of the module's registration); nothing is silently "
                 "ignored: an unknown directive is reported (or returned with AllowUnknown), a directive given twice is "
                 "reported, a block where only arguments are expected is reported, a required directive set nowhere is "
                 "reported, a callback directive is called once per occurrence in order; a block that follows the "
                 "documentation is accepted.  For module references (docs/reference/modules.md): a configuration is refused "
                 "iff it has a documented defect (unknown module, two blocks or aliases with one name, an undefined &name, a "
                 "reference with extra arguments or a block, a module that does not implement what the directive needs, a "
                 "directive the module does not know, no endpoint, a top-level block nothing refers to) and the error "
                 "identifies it; in an accepted configuration &name (or an alias) is the one instance made for the block of "
                 "that name, every inline definition is an instance of its own with its arguments and its block, every "
                 "instance is initialised exactly once with its own directives and the inherited globals (hostname, debug).  "
                 "For the documented blocks table.static, check.dkim and target.smtp loaded by maddy itself: every documented "
                 "directive has the written value, else the global one, else the documented default.",
    "text": "TLC enumerates the input tables of the three specifications, checks the property predicates on the documented "
            "procedure for every row and evaluates the same predicates on what the real code returned for every row in both "
            "tiers: error (level / stage, file:line, names mentioned), every registered variable, unknown nodes, callback "
            "calls (layer m); objects made by the module factories, the object every referencing directive received, Init "
            "counts and order, inherited values (layer r); exit status, message and the configured fields of the real module "
            "objects after maddy reported READY (layer l).",
    "note": "six deviations of the unchanged tree are open extension findings (extensions/findings.json): data size "
            "overflow, concatenated duration arguments, zero with any unit, Map.Float ignoring a block, the default of "
            "submission_timeout, named table.static blocks; tls / tls_client and the other real modules are not in the bound",
    "design_ref": "extensions/X08.md",
}
