"""X09 - the delegation layer of authentication: auth.plain_separate, auth.external, auth.shadow decide exactly like
their backends, and the Dovecot authentication protocol (maddy's dovecot_sasld endpoint and maddy's auth.dovecot_sasl
client) carries exactly the backend's verdict for exactly the pair it was given.

(S) spec/SaslDelegate.tla: decision tables (pattern B) for auth.plain_separate (0..2 user tables x 0..3 providers,
    AuthPlain and Lookup), auth.external (login-name forms x helper behaviours) and auth.shadow (hash formats, locks,
    ageing fields, entry position, malformed files); spec/SaslDelegateWire.tla: the Dovecot protocol as automata
    (pattern A): the script of the scripted peer grows line by line (srv: handshake, AUTH, CONT, garbage, hang-up at
    every line; cli: handshake variants of both connections, reply lines, hang-up), complete behaviours are rows;
    pair: client -> socket -> endpoint -> backend.  Prop = named predicates over (script, observed lines / verdicts
    / backend calls); Rule = the documented automaton; Devs = named deviations of the code.
(T) TLC explores every table row / every script of the bound, checks Prop(in, Rule(in)) on all of them and prints the
    complete rows; one as-is run per deviation must violate Prop.
(B) harness/sasldelegatecheck runs every selected row through the real modules (configured from text; the endpoint in
    a child process so that a crash is an observation) and spec/SaslDelegate{,Wire}Trace.tla evaluate Prop on what
    the code did.
"""
import copy
import json
import os
import re
from concurrent.futures import ThreadPoolExecutor

import vlib
import vtable

PID = "X09"

TABLE_DEVS = ["NoPassAccepts", "ExtNewline", "ExtTwoAt", "ShRoundsShortSalt"]
WIRE_DEVS = ["UnknownMechPanic", "ParamPanic", "FailThenOk", "FailThenCont", "SrvTempLost", "CliTempLost",
             "LoginDialNotTemp", "VersionPanic"]
DEVS = TABLE_DEVS + WIRE_DEVS
# where each deviation shows (as-is run)
DEV_AT = {"NoPassAccepts": ("t", "ps"), "ExtNewline": ("t", "ext"), "ExtTwoAt": ("t", "ext"), "ShRoundsShortSalt": ("t", "sh"),
          "UnknownMechPanic": ("w", "srv"), "ParamPanic": ("w", "srv"), "FailThenOk": ("w", "srv"),
          "FailThenCont": ("w", "srv"), "SrvTempLost": ("w", "srv"), "CliTempLost": ("w", "cli"),
          "LoginDialNotTemp": ("w", "cli"), "VersionPanic": ("w", "cli")}

GROUPS = [("ps", "t", 0), ("ext", "t", 100000), ("sh", "t", 200000), ("srv", "w", 300000), ("cli", "w", 400000),
          ("pair", "w", 500000)]
OUT_KEYS = {"ps": ("v", "tl", "pc"), "ext": ("v", "ran", "exact"), "sh": ("v",),
            "srv": ("hs", "rx", "alive", "stall", "calls"), "cli": ("init", "v", "tx", "conns"),
            "pair": ("v", "sidev", "alive", "calls")}

T_CFG = """SPECIFICATION Spec
CONSTANTS
  Layer = "%(layer)s"
  Devs = {%(devs)s}
  Gen = %(gen)s
INVARIANTS %(inv)s
%(emit)s
CHECK_DEADLOCK FALSE
"""
W_CFG = """SPECIFICATION Spec
CONSTANTS
  Side = "%(side)s"
  MaxReq = %(maxreq)d
  MaxRep = %(maxrep)d
  Full = %(full)s
  Devs = {%(devs)s}
  Gen = %(gen)s
INVARIANTS %(inv)s
%(emit)s
CHECK_DEADLOCK FALSE
"""
TT_CFG = """SPECIFICATION TSpec
CONSTANTS
  Layer = "ps"
  Devs = {}
  Gen = FALSE
  OpenDevs = {%(open)s}
CHECK_DEADLOCK FALSE
POSTCONDITION Post
"""
WT_CFG = """SPECIFICATION TSpec
CONSTANTS
  Side = "srv"
  MaxReq = 2
  MaxRep = 2
  Full = TRUE
  Devs = {}
  Gen = FALSE
  OpenDevs = {%(open)s}
CHECK_DEADLOCK FALSE
POSTCONDITION Post
"""


def q(names):
    return ", ".join('"%s"' % n for n in sorted(names))


def ext_findings():
    p = os.path.join(vlib.VERIF, "extensions", "findings.json")
    if not os.path.exists(p):
        return []
    return [f for f in json.load(open(p)).get("findings", []) if f.get("ext") == PID]


def group_of(i):
    return i.get("layer") or i["side"]


def project(e):
    g = group_of(e["in"])
    return {"t": e["t"], "seq": e["seq"], "e": "Row", "in": e["in"], "out": {k: e["out"][k] for k in OUT_KEYS[g]}}


def brief(i):
    g = group_of(i)
    if g == "ps":
        return "plain_separate %s user-tables=%s providers=%s" % (i["op"], i["tbls"], i["pass"])
    if g == "ext":
        return "external perdomain=%s domains=%s user=%s pw=%s helper=%s" % (i["perdomain"], i["domains"], i["user"], i["pw"], i["helper"])
    if g == "sh":
        return "shadow hash=%s lock=%s lastchg=%s max=%s inact=%s exp=%s pos=%s file=%s cand=%s" % (
            i["hash"], i["lock"], i["lastchg"], i["max"], i["inact"], i["exp"], i["pos"], i["file"], i["cand"])
    if g == "srv":
        def ln(l):
            return ":".join(x for x in (l["k"], l["a"], l["b"], l["c"], l["cred"]) if x)
        return "dovecot_sasld sasl_login=%s script=[%s] end=%s" % (i["login"], " ".join(ln(l) for l in i["lines"]), i["end"])
    if g == "cli":
        def hs(h):
            return "%s/%s/%s%s" % (h["ver"], h["mechs"], h["cut"], "+junk" if h["junk"] else "")
        return "auth.dovecot_sasl init-conn=%s auth-conn=%s cred=%s replies=%s" % (hs(i["hs1"]), hs(i["hs2"]), i["cred"], i["rep"])
    return "pair sasl_login=%s cred=%s concurrent=%s" % (i["login"], i["cred"], i["conc"])


def brief_out(g, o):
    if o is None:
        return "-"
    return " ".join("%s=%s" % (k, json.dumps(o.get(k))) for k in OUT_KEYS[g])


def nontrivial(i):
    g = group_of(i)
    if g == "ps":
        return len(i["tbls"]) + len(i["pass"]) >= 2
    if g == "ext":
        return not (i["user"] == "bare" and i["pw"] in ("right", "wrong") and i["helper"] == "db")
    if g == "sh":
        return not (i["hash"] == "sha512" and i["lock"] == "none" and i["fam"] == "A" and i["pos"] == "only" and i["file"] == "clean")
    if g == "srv":
        return len(i["lines"]) >= 3
    if g == "cli":
        return bool(i["rep"]) or i["hs1"]["cut"] != "full" or i["hs2"]["cut"] != "full"
    return i["conc"] or i["cred"] not in ("good", "badpw")


def make_overlay(ctx):
    """auth.shadow reads the literal "/etc/shadow": the harness builds with the tree's own read.go in which that
    literal is a package variable (nothing else changes, so edits of read.go stay visible)."""
    src = os.path.join(ctx.repo, "internal", "auth", "shadow", "read.go")
    txt = open(src).read()
    n = txt.count('"/etc/shadow"')
    if n < 1:
        raise vlib.Infra("internal/auth/shadow/read.go does not name /etc/shadow any more: the shadow rows cannot be bound")
    txt = txt.replace('"/etc/shadow"', "VerifShadowPath")
    txt += '\n// VerifShadowPath: build overlay of the X09 harness (lib/checks/x09.py)\nvar VerifShadowPath = "/etc/shadow"\n'
    d = ctx.sub("overlay")
    rep = os.path.join(d, "shadow_read.go.txt")
    open(rep, "w").write(txt)
    ov = os.path.join(d, "overlay.json")
    json.dump({"Replace": {src: rep}}, open(ov, "w"))
    return ov


def build_private(ctx, overlay):
    """go test -c with a private copy of harness/go.mod: the package needs two more indirect requirements
    (go-dovecot-sasl, GehirnInc/crypt) which go would otherwise write into the shared harness/go.mod"""
    import shutil
    import subprocess
    import time
    out = os.path.join(ctx.work, "sasldelegatecheck.test")
    mf = os.path.join(ctx.work, "go.mod")
    txt = open(os.path.join(vlib.HARNESS, "go.mod")).read()
    if ctx.repo != "/repo":
        txt = txt.replace("=> /repo", "=> " + ctx.repo)
    open(mf, "w").write(txt)
    with open(os.path.join(ctx.work, "go.sum"), "w") as f:
        f.write(open(os.path.join(vlib.HARNESS, "go.sum")).read())
        f.write(open(os.path.join(ctx.repo, "go.sum")).read())
    cmd = ["go1.26", "test", "-c", "-tags", "verif", "-o", out, "-modfile", mf, "-overlay", overlay, "./sasldelegatecheck"]
    t0 = time.time()
    p = subprocess.run(cmd, cwd=vlib.HARNESS, env=vlib.goenv(), stdout=subprocess.PIPE, stderr=subprocess.STDOUT, text=True)
    if p.returncode != 0 or not os.path.exists(out):
        raise vlib.Infra("harness build failed (sasldelegatecheck):\n%s" % p.stdout[-4000:])
    ctx.log("built harness sasldelegatecheck in %.1fs" % (time.time() - t0))
    return out


def harvest(ctx, name):
    """after a failed shard run: Row events written so far and whether the log shows a crash inside maddy's code"""
    d = os.path.join(ctx.work, name)
    got, bad = [], []
    for f in sorted(os.listdir(d)):
        if not (f.startswith("out") and f.endswith(".ndjson")):
            continue
        begun, done = [], set()
        for line in open(os.path.join(d, f)):
            try:
                e = json.loads(line)
            except ValueError:
                continue
            if e["e"] == "Begin":
                begun.append(e["t"])
            else:
                done.add(e["t"])
                got.append(e)
        left = [t for t in begun if t not in done]
        log = os.path.join(d, f.replace("out", "log").replace(".ndjson", ".txt"))
        txt = open(log).read() if os.path.exists(log) else ""
        # rows of the child-backed sides are written at the end of the shard; only in-process rows can be blamed
        if left and ("panic:" in txt or "fatal error:" in txt) and re.search(r"internal/auth/(plain_separate|external|shadow|dovecot_sasl)", txt):
            k = txt.find("panic:")
            bad.append((left[0] if len(left) == 1 else left[-1], txt[max(0, k):k + 2500]))
    return got, bad


def forged(rows):
    """binding self-test: outputs built from the documented output (independent of the code) that the trace
    specifications must reject and must not explain by a deviation"""
    def find(pred):
        for row in rows:
            if pred(row):
                return row
        return None

    res = []

    def mk(t, what, row, change):
        if row is None:
            raise vlib.Infra("binding self-test: no base row for '%s'" % what)
        out = copy.deepcopy(row["exp"])
        change(out)
        res.append((t, what, {"t": t, "seq": 2, "e": "Row", "in": row["in"], "out": out}))

    def ps(row):
        return row["in"].get("layer") == "ps" and row["in"]["op"] == "auth"
    mk(9000001, "error of every provider turned into success",
       find(lambda r: ps(r) and r["in"]["tbls"] == [] and r["in"]["pass"] == ["temp", "err"]), lambda o: o.update(v="ok"))
    mk(9000002, "unlisted user accepted",
       find(lambda r: ps(r) and r["in"]["tbls"] == ["miss", "miss"] and r["in"]["pass"] == ["ok"]),
       lambda o: o.update(v="ok", pc=[{"i": 1, "same": True}]))
    mk(9000003, "table lookup error taken for 'not listed'",
       find(lambda r: ps(r) and r["in"]["tbls"] == ["terr"] and r["in"]["pass"] == ["ok"]), lambda o: o.update(v="invalid"))
    mk(9000004, "provider asked about another pair",
       find(lambda r: ps(r) and r["in"]["tbls"] == [] and r["in"]["pass"] == ["ok"]), lambda o: o.update(pc=[{"i": 1, "same": False}]))
    mk(9000005, "locked shadow entry accepted",
       find(lambda r: r["in"].get("layer") == "sh" and r["in"]["lock"] == "bang" and r["in"]["hash"] == "sha512"
            and r["in"]["cand"] == "right" and r["in"]["pos"] == "only" and r["in"]["file"] == "clean"), lambda o: o.update(v="ok"))
    mk(9000006, "expired account accepted",
       find(lambda r: r["in"].get("layer") == "sh" and r["in"]["fam"] == "B" and r["in"]["exp"] == "past" and r["in"]["cand"] == "right"),
       lambda o: o.update(v="ok"))
    mk(9000007, "helper exit status 2 taken for success",
       find(lambda r: r["in"].get("layer") == "ext" and r["in"]["helper"] == "exit2" and r["in"]["user"] == "bare"
            and r["in"]["pw"] == "right" and not r["in"]["perdomain"]), lambda o: o.update(v="ok"))

    def srv1(r, c):
        i = r["in"]
        return (i.get("side") == "srv" and i["end"] == "eof" and len(i["lines"]) == 3 and i["lines"][2]["k"] == "auth"
                and i["lines"][2]["a"] == "PLAIN" and i["lines"][2]["b"] == "std" and i["lines"][2]["c"] == "cred"
                and i["lines"][2]["cred"] == c and i["lines"][0]["a"] == "11")
    mk(9000008, "OK for a password the backend rejected", find(lambda r: srv1(r, "badpw")), lambda o: o.update(rx=["OK:1"]))
    mk(9000009, "OK for credentials cut at a tab", find(lambda r: srv1(r, "tabx")), lambda o: o.update(rx=["OK:1"], calls=["good"]))
    mk(9000010, "valid credentials refused", find(lambda r: srv1(r, "good")), lambda o: o.update(rx=["FAIL:1"]))
    mk(9000011, "client reports success after FAIL",
       find(lambda r: r["in"].get("side") == "cli" and r["in"]["rep"] == ["FAIL"] and r["in"]["hs1"]["mechs"] == "P"
            and r["in"]["hs1"]["ver"] == "11" and r["in"]["hs1"]["cut"] == "full" and r["in"]["cred"] == "good"),
       lambda o: o.update(v="ok"))
    mk(9000012, "client reports success when the server hangs up",
       find(lambda r: r["in"].get("side") == "cli" and r["in"]["rep"] == [] and r["in"]["hs1"]["mechs"] == "P"
            and r["in"]["hs1"]["ver"] == "11" and r["in"]["hs1"]["cut"] == "full" and r["in"]["hs2"]["cut"] == "full"
            and r["in"]["hs2"]["ver"] == "11" and r["in"]["hs2"]["mechs"] == "P" and r["in"]["cred"] == "good"),
       lambda o: o.update(v="ok"))
    mk(9000013, "pair: another request's verdict",
       find(lambda r: r["in"].get("side") == "pair" and r["in"]["cred"] == "badpw" and r["in"]["conc"]), lambda o: o.update(v="ok"))
    return res


def run(ctx, replay):
    try:
        _run(ctx, replay)
    except vlib.Infra:
        raise
    except Exception as e:      # nothing but a verdict of TLC on the real code may end as exit 1
        import traceback
        raise vlib.Infra("unexpected %s: %s\n%s" % (type(e).__name__, e, traceback.format_exc()[-1500:]))


def _run(ctx, replay):
    thorough = ctx.tier == "thorough"
    entries = ext_findings()
    for e in entries:
        for d in e["match"]["deviations"]:
            if d not in DEVS:
                raise vlib.Infra("finding %s names an unknown deviation %s" % (e["id"], d))
    open_by_dev = {}
    for e in entries:
        if e.get("status", "open") == "open":
            for d in e["match"]["deviations"]:
                open_by_dev[d] = e
    ext_seen = []

    asis_runs, asis_pool = [], None
    if replay:
        try:
            obj = json.load(open(replay))
            rows = [obj["row"]]
            rows[0]["id"] = 1
            group_of(rows[0]["in"])
        except (OSError, ValueError, KeyError, TypeError) as e:
            raise vlib.Infra("cannot read the replay file %s: %r" % (replay, e))
    else:
        wb = dict(maxreq=2 if thorough else 1, maxrep=2, full="TRUE" if thorough else "FALSE")

        def gen(g):
            name, kind, base = g
            if kind == "t":
                text = T_CFG % dict(layer=name, devs="", gen="TRUE", inv="RuleSatisfiesProp", emit="CONSTRAINT Emit")
                return name, ctx.tlc_expect_ok("SaslDelegate", None, name="mc-" + name, workers=4, timeout=2400, cfg_text=text)
            text = W_CFG % dict(wb, side=name, devs="", gen="TRUE", inv="RuleSatisfiesProp ScriptShape", emit="CONSTRAINT Emit")
            return name, ctx.tlc_expect_ok("SaslDelegateWire", None, name="mc-" + name, workers=4, timeout=2400, cfg_text=text)
        with ThreadPoolExecutor(max_workers=6) as ex:
            gens = dict(ex.map(gen, GROUPS))
        rows = []
        ctx.cov["states"] = ctx.cov["transitions"] = 0
        ctx.cov["model"] = {}
        for name, kind, base in GROUPS:
            r = gens[name]
            part = vtable.rows_from(r)
            for row in part:
                row["id"] += base
            rows += part
            ctx.cov["states"] += r["distinct"]
            ctx.cov["transitions"] += r["generated"]
            ctx.cov["model"][name] = {"distinct": r["distinct"], "generated": r["generated"], "depth": r["depth"],
                                      "complete_rows": len(part)}
            ctx.log("TLC %s: %d distinct states (%d generated, depth %d), %d complete rows, Prop(in, Rule(in)) holds on all, %.1fs" % (
                name, r["distinct"], r["generated"], r["depth"], len(part), r["wall"]))
            if not part:
                raise vlib.Infra("TLC printed no rows for %s" % name)

        def asis(dev):
            kind, where = DEV_AT[dev]
            if kind == "t":
                text = T_CFG % dict(layer=where, devs=q([dev]), gen="FALSE", inv="AsIsSatisfiesProp", emit="")
                return dev, ctx.tlc("SaslDelegate", None, name="asis-" + dev, workers=2, timeout=900, cfg_text=text)
            text = W_CFG % dict(side=where, maxreq=1, maxrep=2, full="FALSE", devs=q([dev]), gen="FALSE",
                                inv="AsIsSatisfiesProp", emit="")
            return dev, ctx.tlc("SaslDelegateWire", None, name="asis-" + dev, workers=2, timeout=900, cfg_text=text)
        asis_pool = ThreadPoolExecutor(max_workers=4)
        asis_runs = [asis_pool.submit(asis, d) for d in DEVS]

    # ---- selection -----------------------------------------------------------------------------------------------
    if replay or thorough:
        sel = rows
    else:
        quota = {"ps": 700, "ext": 140, "sh": 500, "srv": 420, "cli": 260, "pair": 56}
        sel = []
        for name, _, _ in GROUPS:
            part = [r for r in rows if group_of(r["in"]) == name]
            # a fixed core (rows where a deviation of the code shows, so that a finding is seen by every seed) + a seeded sample
            core = [r for r in part if name in ("ps", "ext") and r["exp"]["v"] == "refused"][:10]
            rest = [r for r in part if r not in core]
            sel += core + vlib.sample(ctx.rng, rest, max(0, quota[name] - len(core)))
    by_id = {row["id"]: row for row in sel}
    ctx.log("%d rows to run through the real code (of %d)" % (len(sel), len(rows)))

    # ---- (B) the real code -------------------------------------------------------------------------------------------
    binary = build_private(ctx, make_overlay(ctx))
    items = [{"id": row["id"], "in": row["in"]} for row in sel]
    # interleave the groups over the shards (the child-backed rows are the slow ones)
    items.sort(key=lambda it: (it["id"] % 1000, it["id"]))
    pending, events, crashed = items, [], []
    for attempt in range(4):
        name = "replay" if attempt == 0 else "replay%d" % attempt
        try:
            events += ctx.run_shards(binary, pending, timeout=3000, name=name)
            pending = []
            break
        except vlib.Infra:
            got, bad = harvest(ctx, name)
            if not bad:
                raise
            events += got
            crashed += bad
            done = {e["t"] for e in got} | {t for t, _ in bad}
            pending = [it for it in pending if it["id"] not in done]
    events = [e for e in events if e["e"] == "Row"]
    if crashed:
        ctx.log("a module crashed the harness process on %d rows" % len(crashed))
    elif len(events) != len(items):
        raise vlib.Infra("harness answered %d of %d rows" % (len(events), len(items)))
    ev_by_t = {e["t"]: e for e in events}
    for t, tail in crashed:
        row = by_id[t]
        out = copy.deepcopy(row["exp"])
        out["v"] = "panic"
        out["note"] = "process crashed: " + tail
        fake = {"t": t, "seq": 2, "e": "Row", "in": row["in"], "out": out}
        events.append(fake)
        ev_by_t[t] = fake
    sel = [row for row in sel if row["id"] in ev_by_t]
    ctx.log("real code answered %d rows" % len(events))

    selftest, extra = {}, []
    if not replay:
        for t, what, f in forged(rows):
            selftest[t] = what
            extra.append(f)

    def validate(evs, name):
        verdicts, accepted = {}, 0
        tev = [project(e) for e in evs if "layer" in e["in"]]
        wev = [project(e) for e in evs if "side" in e["in"]]
        if tev:
            v, a = vtable.validate_rows(ctx, "SaslDelegateTrace", TT_CFG % dict(open=q(d for d in open_by_dev if d in TABLE_DEVS)),
                                        tev, name=name + "-t", batch=1500, par=6, timeout=1800)
            verdicts.update(v)
            accepted += a
        if wev:
            v, a = vtable.validate_rows(ctx, "SaslDelegateWireTrace", WT_CFG % dict(open=q(d for d in open_by_dev if d in WIRE_DEVS)),
                                        wev, name=name + "-w", batch=400, par=8, timeout=1800)
            verdicts.update(v)
            accepted += a
        return verdicts, accepted
    verdicts, accepted = validate(events + extra, "val")
    ctx.log("TLC evaluated %d recorded rows: %d accepted as conforming" % (len(events) + len(extra), accepted))
    for t, what in selftest.items():
        v = verdicts.get(t)
        if not v or not v["viol"] or v["devs"]:
            raise vlib.Infra("binding self-test failed: forged row (%s) was accepted or explained by a deviation" % what)
        del verdicts[t]
    if selftest:
        ctx.cov["binding_selftest"] = "forged rows rejected: " + "; ".join(selftest.values())

    if not replay:
        for fut in asis_runs:
            dev, ra = fut.result()
            if ra["invariant"] != "AsIsSatisfiesProp":
                raise vlib.Infra("as-is model (%s) does not violate the property: predicates vacuous? (%s)" % (dev, ra["error"]))
        asis_pool.shutdown()
        ctx.cov["asis_counterexample_found"] = list(DEVS)

    def explain(v):
        devsets = sorted((sorted(d, key=DEVS.index) for d in v["devs"]), key=lambda d: (len(d), [DEVS.index(x) for x in d]))
        minimal = devsets[0] if devsets else None
        explained = minimal is not None and all(d in open_by_dev for d in minimal)
        if explained and v["viol"]:
            allowed = set()
            for d in minimal:
                allowed |= set(open_by_dev[d]["match"].get("predicates", []))
            explained = set(v["viol"]) <= allowed
        return minimal, explained

    if replay:
        ev = events[0]
        v = verdicts.get(ev["t"])
        g = group_of(ev["in"])
        print("REPLAY ext=X09 input: %s" % brief(ev["in"]))
        if ev["out"].get("cfg"):
            print("REPLAY ext=X09 config:\n%s" % ev["out"]["cfg"])
        print("REPLAY ext=X09 real code: %s %s" % (brief_out(g, ev["out"]), " ".join(
            "%s=%s" % (k, json.dumps(ev["out"][k])[:600]) for k in ("note", "init_note", "sent", "helper_saw", "entry") if ev["out"].get(k))))
        if rows[0].get("exp"):
            print("REPLAY ext=X09 documented: %s" % brief_out(g, rows[0]["exp"]))
        if v:
            m, ex = explain(v)
            print("REPLAY ext=X09 verdict of TLC: violated=%s differs-from-documented=%s explained-by-deviations=%s" % (
                sorted(v["viol"]), v["drift"], m))
        else:
            print("REPLAY ext=X09 verdict of TLC: accepted as conforming")

    # rows over real sockets / processes on a loaded machine: a violating row that is not a known deviation is run again
    # on its own and reported when the violation shows again
    unconfirmed = []
    crashed_t = {c[0] for c in crashed}
    suspects = [t for t, v in sorted(verdicts.items()) if v["viol"] and not explain(v)[1] and t not in crashed_t]
    if suspects and not replay:
        again = suspects[:300]
        ev2 = [e for e in ctx.run_shards(binary, [{"id": t, "in": by_id[t]["in"]} for t in again], timeout=3000,
                                         name="confirm", shards=min(4, len(again))) if e["e"] == "Row"]
        if len(ev2) != len(again):
            raise vlib.Infra("confirmation run answered %d of %d rows" % (len(ev2), len(again)))
        v2, _ = validate(ev2, "confirm")
        for e in ev2:
            t = e["t"]
            nv = v2.get(t)
            if nv is None or not nv["viol"] or explain(nv)[1]:
                unconfirmed.append({"row": t, "first": sorted(verdicts[t]["viol"]), "in": brief(by_id[t]["in"])})
                print(("UNCONFIRMED ext=X09 row=%d violated %s once, not on re-run: %s" % (
                    t, ",".join(sorted(verdicts[t]["viol"])), brief(by_id[t]["in"])))[:1200])
                if nv is None:
                    del verdicts[t]
                else:
                    verdicts[t] = nv
            else:
                verdicts[t] = nv
            ev_by_t[t] = e
        ctx.log("%d violating rows run again: %d confirmed" % (len(again), len(again) - len(unconfirmed)))
    ctx.cov["unconfirmed_rows"] = unconfirmed

    if os.environ.get("VERIF_X09_DUMP"):
        with open(os.environ["VERIF_X09_DUMP"], "w") as f:
            for t, v in sorted(verdicts.items()):
                g = group_of(by_id[t]["in"])
                f.write(json.dumps({"t": t, "g": g, "viol": sorted(v["viol"]), "devs": [sorted(d) for d in v["devs"]],
                                    "drift": v["drift"], "in": brief(by_id[t]["in"]), "out": brief_out(g, ev_by_t[t]["out"]),
                                    "doc": brief_out(g, by_id[t].get("exp")), "note": str(ev_by_t[t]["out"].get("note", ""))[:200]}) + "\n")
    drift, finding_rows, preds = 0, {}, {}
    for t, v in sorted(verdicts.items()):
        row, ev = by_id[t], ev_by_t[t]
        g = group_of(row["in"])
        minimal, explained = explain(v)
        if v["viol"] and not explained:
            for p in v["viol"]:
                preds[p] = preds.get(p, 0) + 1
            what = "%s violates %s: %s | real code: %s | documented: %s" % (
                g, ",".join(sorted(v["viol"])), brief(row["in"]), brief_out(g, ev["out"]), brief_out(g, row.get("exp")))
            for k in ("note", "init_note"):
                if ev["out"].get(k):
                    what += " | " + str(ev["out"][k])[:300]
            ctx.violation(what[:1500], {"property": PID, "row": row, "out": ev["out"], "violated": sorted(v["viol"]),
                                        "how": "bin/check X09 --replay <this file>"})
        elif explained:
            for d in minimal:
                e = open_by_dev[d]
                if (e["id"], e["what"]) not in ext_seen:
                    ext_seen.append((e["id"], e["what"]))
                k = finding_rows.setdefault(e["id"], {"rows": 0, "violating_rows": 0, "predicates": {}, "example": None})
                k["rows"] += 1
                if v["viol"]:
                    k["violating_rows"] += 1
                    for p in v["viol"]:
                        k["predicates"][p] = k["predicates"].get(p, 0) + 1
                    if k["example"] is None:
                        k["example"] = {"in": brief(row["in"]), "out": brief_out(g, ev["out"]),
                                        "documented": brief_out(g, row.get("exp")), "violated": sorted(v["viol"])}
        else:
            drift += 1
            if drift <= 10:
                print(("DRIFT ext=X09 row=%d %s | real code: %s | documented: %s" % (
                    t, brief(row["in"]), brief_out(g, ev["out"]), brief_out(g, row.get("exp"))))[:2000])
    ctx.cov["traces_validated_against_impl"] = accepted
    ctx.cov["drift_traces"] = drift
    ctx.cov["ext_finding_rows"] = finding_rows
    ctx.cov["ext_findings_seen"] = [fid for fid, _ in ext_seen]
    ctx.cov["evaluations"] = len(sel)
    ctx.cov["distinct_nontrivial"] = sum(1 for row in sel if nontrivial(row["in"]))
    ctx.cov["rows_by_group"] = {name: sum(1 for row in sel if group_of(row["in"]) == name) for name, _, _ in GROUPS}
    ctx.cov["violated_predicates"] = preds
    ctx.cov["exhaustive"] = bool(thorough)
    ctx.cov["rule"] = ("rows = states of SaslDelegate.tla (plain_separate: every list of 0..2 table answers x 0..3 provider answers, "
                       "AuthPlain and Lookup; external: perdomain x domains x 7 login names x 4 passwords x 4 helper behaviours; "
                       "shadow: 11 hash fields x 3 locks x 4 positions x 3 files x 5 candidates + ageing table) and complete "
                       "behaviours of SaslDelegateWire.tla (srv: scripts of the scripted Dovecot client up to MaxReq requests; cli: "
                       "handshake kinds of both connections x reply scripts up to MaxRep lines; pair: 14 credential kinds x "
                       "sasl_login x alone / next to six concurrent requests); thorough runs every row through the real code, "
                       "quick a seeded sample per group")
    for name, _, _ in GROUPS:
        for row in [r for r in sel if group_of(r["in"]) == name and nontrivial(r["in"])][:1]:
            ctx.cov["samples"].append({"row": brief(row["in"]), "documented": brief_out(name, row.get("exp")),
                                       "out": brief_out(name, ev_by_t[row["id"]]["out"])})
    ctx.assumptions += [
        "the credential backends are scripted modules (registered as table.x09tbl / auth.x09pass / auth.x09backend) that answer "
        "for exactly one (user, password) pair and record what they were asked",
        "auth.shadow reads a generated file: the literal \"/etc/shadow\" of the tree's read.go is turned into a package "
        "variable by a build overlay generated from that file at run time; the day is 10957 (synctest bubble)",
        "the hash fields of the shadow rows are outputs of glibc crypt(3) for the candidate password (stored in the harness, "
        "cross-checked with openssl passwd)",
        "the dovecot_sasld endpoint runs in a child process of the harness (configured from text, unix sockets, "
        "auth_map_normalize noop); a dead child is the observation 'the process crashed'",
        "the peers are scripted line by line; a read the script expects an answer for waits 40 s (only a hang runs into it)",
        "auth.netauth needs a NetAuth server and its system configuration: not covered",
        "TLC 1.8.0, CommunityModules Json",
    ]
    for fid, what in ext_seen:
        print("EXT-FINDING: ext=%s %s %s" % (PID, fid, what))


META = {
    "engine": "sasldelegatecheck",
    "level": "model_checking",
    "technique": "TLA+ specs SaslDelegate.tla (decision tables of auth.plain_separate, auth.external, auth.shadow with the "
                 "documented procedure, property predicates and named deviations) and SaslDelegateWire.tla (the Dovecot "
                 "authentication protocol as automata over the scripted peer's lines, both ends and the pair) explored by "
                 "TLC; every selected row replayed against the real modules (configured from text; the endpoint in a child "
                 "process; real unix sockets); recorded verdicts, lines and backend calls evaluated by TLC "
                 "(SaslDelegateTrace.tla, SaslDelegateWireTrace.tla)",
    "statement": "For every configuration of auth.plain_separate (0..2 user tables, providers that accept, reject, fail "
                 "temporarily or fail otherwise) and every credential pair: authentication succeeds iff the user is listed in "
                 "some user table (when any is configured) and at least one password provider accepts exactly that pair; a "
                 "lookup error is never taken for 'not listed' and a temporary one is reported as temporary; an error of a "
                 "provider never turns into success; when all providers fail temporarily the failure is temporary, when all "
                 "reject it is 'invalid credentials'; a configuration without any password provider never accepts (the "
                 "documentation requires one or more). For auth.external: exactly the documented login names are accepted "
                 "(name, name@domain for a listed domain; perdomain requires the domain and keeps it), the helper is given "
                 "exactly account LF password LF and only exit status 0 is success. For auth.shadow: success iff the first "
                 "entry of that name carries a crypt(3) hash (SHA-256 / SHA-512 crypt, with or without rounds) of exactly "
                 "the given password, is not locked ('!'), the account is not expired and the password is not past its "
                 "inactivity period; '*', '!', empty and unknown formats never verify. For the Dovecot protocol: "
                 "maddy's dovecot_sasld answers OK for a request iff its backend accepted exactly the (user, password) "
                 "carried by that request (PLAIN with or without initial response, LOGIN when enabled; no truncation at "
                 "NUL / tab / line feed; long credentials), offers exactly PLAIN (and LOGIN with sasl_login), answers every "
                 "request at most once, marks a temporary backend failure as temp, and neither garbage, a version mismatch, "
                 "an unknown mechanism, malformed parameters nor a peer that hangs up at any line crashes or stalls it; "
                 "maddy's auth.dovecot_sasl reports success iff the server answered OK for its request id after receiving "
                 "exactly the pair by a mechanism the server offers, reports FAIL with temp / code=temp_fail and an "
                 "unreachable server as temporary, and never succeeds, panics or hangs on garbage, a version mismatch or a "
                 "hang-up at any line; end to end the client's verdict equals the backend's, alone and next to concurrent "
                 "requests.",
    "text": "TLC enumerates the tables and explores the scripts of the Dovecot protocol line by line, checks the property "
            "predicates on the documented procedure for every row, and evaluates the same predicates on what the real modules "
            "answered, sent over the socket and asked their backends.",
    "note": "eleven deviations of the unchanged tree are open extension findings (extensions/findings.json): crashes of the "
            "dovecot_sasld process on an unknown mechanism / a valueless parameter, FAIL followed by OK, temp lost on both "
            "ends, plain_separate without pass accepts everything, line feeds handed to the auth helper.",
    "design_ref": "extensions/X09.md",
}
