"""X07 - check.milter and check.rspamd: the answer of the external scanner is translated into exactly the
documented check action, and the scanner is shown the real session, step by step, once and in order.

(S) spec/ExtScanMilter.tla: the dialogue of one message as a state machine over the milter's script (the
    answers are revealed one by one, action Reveal<Step>; states whose procedure needs no further answer are
    complete rows), the documented procedure (Run) and the statement as named predicates (Prop) over
    (input, output) alone; spec/ExtScanRspamd.tla: decision tables responses x configured actions and the
    request; spec/ExtScanBase.tla: shared vocabulary.  Deviations of the code are named switches (Devs).
(T) TLC explores every script of the bounded tables, checks Prop(in, Rule(in)) and the shape theorems on every
    state, prints the complete rows; one as-is run per deviation must violate Prop.
(B) harness/extscancheck configures the real check.milter / check.rspamd modules from configuration text inside
    a real msgpipeline and sends the row's message through it against a scripted milter (raw wire protocol, and
    the server side of go-milter) / a scripted HTTP server; spec/ExtScan{Milter,Rspamd}Trace.tla evaluate Prop on
    what the code did.
"""
import json
import os
from concurrent.futures import ThreadPoolExecutor

import vlib
import vtable

PID = "X07"

SUBS = {
    "milter": dict(module="ExtScanMilter", devs=["DialIgnoresFailOpen", "NilConnPanic", "QuarantineMasksReject",
                                                  "ReplyCodeUnchecked"], base=0),
    "rspamd": dict(module="ExtScanRspamd", devs=["FlagsIgnored", "RdnsNilPanic"], base=1000000),
}
DEVS = SUBS["milter"]["devs"] + SUBS["rspamd"]["devs"]

MC_CFG = {
    "milter": """SPECIFICATION Spec
CONSTANTS
  MaxRcpt = %(maxrcpt)d
  Full = %(full)s
  Devs = {%(devs)s}
  Gen = %(gen)s
  Seed = %(seed)d
  RandN = %(randn)d
INVARIANTS %(inv)s
%(emit)s
CHECK_DEADLOCK FALSE
""",
    "rspamd": """SPECIFICATION Spec
CONSTANTS
  Full = %(full)s
  Devs = {%(devs)s}
  Gen = %(gen)s
  Seed = %(seed)d
  RandN = %(randn)d
INVARIANTS %(inv)s
%(emit)s
CHECK_DEADLOCK FALSE
""",
}

TRACE_CFG = {
    "milter": """SPECIFICATION TSpec
CONSTANTS
  MaxRcpt = 2
  Full = TRUE
  Devs = {}
  Gen = FALSE
  Seed = 1
  RandN = 1
  OpenDevs = {%(open)s}
CHECK_DEADLOCK FALSE
POSTCONDITION Post
""",
    "rspamd": """SPECIFICATION TSpec
CONSTANTS
  Full = TRUE
  Devs = {}
  Gen = FALSE
  Seed = 1
  RandN = 1
  OpenDevs = {%(open)s}
CHECK_DEADLOCK FALSE
POSTCONDITION Post
""",
}

R_KEYS = ("k", "code", "enchc", "ench", "temp", "msg")
OUT_KEYS = ("start", "rcpt", "body", "delivered", "quarantine", "added", "intact", "seen", "conns", "closed", "panics")


def q(names):
    return ", ".join('"%s"' % n for n in sorted(names))


def ext_findings():
    p = os.path.join(vlib.VERIF, "extensions", "findings.json")
    if not os.path.exists(p):
        return []
    return [f for f in json.load(open(p)).get("findings", []) if f.get("ext") == PID]


def proj_r(r):
    return {k: r[k] for k in R_KEYS}


def proj_out(o):
    out = {k: o[k] for k in OUT_KEYS}
    out["start"], out["body"] = proj_r(o["start"]), proj_r(o["body"])
    out["rcpt"] = [proj_r(x) for x in o["rcpt"]]
    out["seen"] = [{"c": s["c"], "a": list(s["a"])} for s in o["seen"]]
    return out


def project(e):
    return {"t": e["t"], "seq": e["seq"], "e": "Row", "in": e["in"], "out": proj_out(e["out"])}


def nontrivial(row):
    """the outcome depends on an answer of the scanner other than plain continue / no action"""
    i = row["in"]
    if i["sub"] == "rspamd":
        return not (i["resp"]["k"] == "json" and i["resp"]["action"] == "no action")
    if i["srv"] not in ("up", "lib"):
        return True
    sc = i["script"]
    answers = [sc["conn"], sc["helo"], sc["mail"], sc["eoh"], sc["fin"]] + sc["rcpt"] + sc["hdr"] + sc["body"]
    return any(a["k"] not in ("cont", "?", "accept") for a in answers) or bool(sc["mods"])


def brief(i):
    """one-line description of an input row"""
    c = i["conn"]
    head = "conn=%s%s%s" % (c["kind"], " tls=" + c["tls"] if c["tls"] != "none" else "", " auth" if c["auth"] else "")
    if i["sub"] == "rspamd":
        def act(a):
            return "-" if not a["given"] else a["act"] + (" %d" % a["code"] if a["code"] else "")
        return "rspamd %s rdns=%s io=%s err=%s addhdr=%s rewrite=%s flags=%s resp=%s" % (
            head, c["rdns"], act(i["io"]), act(i["errresp"]), act(i["addhdr"]), act(i["rewrite"]),
            ",".join(i["flags"]) or "-", json.dumps(i["resp"], sort_keys=True))

    def a(x):
        return x["k"] + (str(x["code"]) if x["k"] == "reply" else "")
    sc = i["script"]
    return "milter fail_open=%s srv=%s proto=%s %s body=%s script: conn=%s helo=%s mail=%s rcpt=%s hdr=%s eoh=%s body=%s mods=%s fin=%s" % (
        i["fo"], i["srv"], ",".join(i["proto"]) or "-", head, i["body"], a(sc["conn"]), a(sc["helo"]), a(sc["mail"]),
        [a(x) for x in sc["rcpt"]], [a(x) for x in sc["hdr"]], a(sc["eoh"]), [a(x) for x in sc["body"]],
        [m["k"] for m in sc["mods"]], a(sc["fin"]))


def brief_out(o):
    def r(x):
        return x["k"] if x["k"] != "rej" else "rej(%s %s%s)" % (x["code"], x["ench"], " temp" if x["temp"] else "")
    return "start=%s rcpt=%s body=%s delivered=%s quarantine=%s added=%s conns=%s closed=%s panics=%s seen=%s" % (
        r(o["start"]), [r(x) for x in o["rcpt"]], r(o["body"]), o["delivered"], o["quarantine"], o["added"], o["conns"],
        o["closed"], o["panics"], " ".join(s["c"] + (json.dumps(s["a"]) if s["a"] else "") for s in o["seen"]))


def harvest(ctx, name):
    """after a failed shard run: the Row events that were written, and the rows whose Begin line has no Row line
    in a shard whose log shows a panic inside the modules under test (the code under test crashed the process)"""
    d = os.path.join(ctx.work, name)
    got, bad = [], []
    for f in sorted(os.listdir(d)):
        if not (f.startswith("out") and f.endswith(".ndjson")):
            continue
        begun, done = [], set()
        for line in open(os.path.join(d, f)):
            line = line.strip()
            if not line:
                continue
            try:
                e = json.loads(line)
            except ValueError:
                continue
            if e["e"] == "Begin":
                begun.append(e["t"])
            else:
                done.add(e["t"])
                got.append(e)
        left = [t for t in begun if t not in done]
        log = os.path.join(d, f.replace("out", "log").replace(".ndjson", ".txt"))
        txt = open(log).read() if os.path.exists(log) else ""
        if left and ("panic:" in txt or "fatal error:" in txt) and (
                "internal/check/milter" in txt or "internal/check/rspamd" in txt):
            k = txt.find("panic:")
            bad.append((left[-1], txt[max(0, k):k + 2500]))
    return got, bad


def forged(rows):
    """binding self-test: outputs built from the row and the documented output only (independent of what the code
    did) that the trace specification has to reject, and must not explain by a deviation"""
    import copy

    def find(pred):
        for row in rows:
            if pred(row):
                return row
        return None

    def mk(t, what, row, change):
        if row is None:
            raise vlib.Infra("binding self-test: no base row for '%s'" % what)
        out = copy.deepcopy(row["exp"])
        change(out)
        return t, what, {"t": t, "seq": 2, "e": "Row", "in": row["in"], "out": out}

    ok_r = {"k": "ok", "code": 0, "enchc": 0, "ench": "", "temp": False, "msg": ""}

    def perm(code):
        return {"k": "rej", "code": code, "enchc": 5, "ench": "5.7.1", "temp": False,
                "msg": "Message rejected due to local policy"}
    mil = lambda row: row["in"]["sub"] == "milter" and row["in"]["srv"] == "up"
    rsp = lambda row: row["in"]["sub"] == "rspamd"
    plain = lambda row: mil(row) and not row["in"]["script"]["mods"] and row["in"]["tab"] == "main"
    res = []

    def c1(o):
        o["body"], o["delivered"] = dict(ok_r), True
    res.append(mk(9000001, "milter's reject at end of body ignored",
                  find(lambda row: plain(row) and row["in"]["script"]["fin"]["k"] == "reject" and row["exp"]["body"]["k"] == "rej"), c1))

    def c2(o):
        o["start"] = perm(550)
    res.append(mk(9000002, "tempfail at MAIL answered 550",
                  find(lambda row: plain(row) and row["in"]["script"]["mail"]["k"] == "tempfail"), c2))

    def c3(o):
        o["rcpt"][0] = {"k": "rej", "code": 451, "enchc": 4, "ench": "4.7.1", "temp": True, "msg": "I/O error during policy check"}
    res.append(mk(9000003, "connection loss with fail_open refused",
                  find(lambda row: plain(row) and row["in"]["fo"] == "yes" and row["in"]["script"]["rcpt"][0]["k"] == "drop"
                       and row["exp"]["delivered"]), c3))

    def c4(o):
        cmds = [k for k, s in enumerate(o["seen"]) if s["c"] in ("C", "H")]
        a, b = cmds[0], cmds[1]
        o["seen"][a], o["seen"][b] = o["seen"][b], o["seen"][a]
    res.append(mk(9000004, "HELO shown before CONNECT",
                  find(lambda row: plain(row) and row["exp"]["delivered"] and row["in"]["script"]["helo"]["k"] == "cont"), c4))

    def c5(o):
        o["seen"] = [s for s in o["seen"] if s["c"] != "Q"]
    res.append(mk(9000005, "connection never ended", find(lambda row: plain(row) and row["exp"]["delivered"]), c5))

    def c6(o):
        o["seen"] = o["seen"][:-1] + [{"c": "R", "a": ["<r1@rcpt.test>"]}] + o["seen"][-1:]
    res.append(mk(9000006, "command after the milter's accept",
                  find(lambda row: plain(row) and row["in"]["script"]["mail"]["k"] == "accept"), c6))

    def c7(o):
        o["quarantine"] = False
    res.append(mk(9000007, "rspamd 'add header' with the default action not quarantined",
                  find(lambda row: rsp(row) and row["in"]["resp"]["k"] == "json" and row["in"]["resp"]["action"] == "add header"
                       and not row["in"]["addhdr"]["given"]), c7))

    def c8(o):
        o["body"], o["delivered"] = dict(ok_r), True
    res.append(mk(9000008, "error response with error_resp_action reject accepted",
                  find(lambda row: rsp(row) and row["in"]["resp"]["k"] == "status" and row["in"]["errresp"]["given"]
                       and row["in"]["errresp"]["act"] == "reject" and row["in"]["errresp"]["code"] == 0), c8))

    def c9(o):
        o["seen"] = [s for s in o["seen"] if s["c"] != "User"]
    res.append(mk(9000009, "request without the authenticated user",
                  find(lambda row: rsp(row) and row["in"]["conn"]["auth"] != "" and row["in"]["conn"]["rdns"] != "nil"
                       and row["in"]["resp"]["k"] == "json" and not row["in"]["flags"]), c9))

    def c10(o):
        o["added"] = []
    res.append(mk(9000010, "X-Spam headers missing with action ignore",
                  find(lambda row: rsp(row) and row["in"]["resp"]["k"] == "json" and row["in"]["resp"]["action"] == "add header"
                       and row["in"]["addhdr"]["given"] and row["in"]["addhdr"]["act"] == "ignore"), c10))
    return res


def run(ctx, replay):
    thorough = ctx.tier == "thorough"
    entries = ext_findings()
    for e in entries:
        if e["match"]["deviation"] not in DEVS:
            raise vlib.Infra("finding %s names an unknown deviation %s" % (e["id"], e["match"]["deviation"]))
    open_by_dev = {e["match"]["deviation"]: e for e in entries if e.get("status", "open") == "open"}
    ext_seen = []        # (finding id, what)

    # ---- (T) + rows ---------------------------------------------------------
    asis_runs, asis_pool = [], None
    if replay:
        try:
            obj = json.load(open(replay))
            rows = [obj["row"]]
            rows[0]["id"] = 1
            if rows[0]["in"]["sub"] not in SUBS:
                raise KeyError("sub")
        except (OSError, ValueError, KeyError, TypeError) as e:
            raise vlib.Infra("cannot read the replay file %s: %r" % (replay, e))
    else:
        sizes = {
            "milter": dict(maxrcpt=2, full="TRUE" if thorough else "FALSE", randn=32000 if thorough else 1500),
            "rspamd": dict(full="TRUE" if thorough else "FALSE", randn=20000 if thorough else 800),
        }

        def gen(sub):
            kw = dict(sizes[sub], devs="", gen="TRUE", seed=ctx.seed, inv="RuleSatisfiesProp RuleShape", emit="CONSTRAINT Emit")
            kw.setdefault("maxrcpt", 0)
            return sub, ctx.tlc_expect_ok(SUBS[sub]["module"], None, name="mc-" + sub, workers=8, timeout=2400,
                                          cfg_text=MC_CFG[sub] % kw)
        with ThreadPoolExecutor(max_workers=2) as ex:
            gens = dict(ex.map(gen, SUBS))
        rows = []
        ctx.cov["states"] = ctx.cov["transitions"] = 0
        ctx.cov["model_depth"] = {}
        ctx.cov["model"] = {}
        for sub in SUBS:
            r = gens[sub]
            part = vtable.rows_from(r)
            for row in part:
                row["id"] += SUBS[sub]["base"]
            rows += part
            ctx.cov["states"] += r["distinct"]
            ctx.cov["transitions"] += r["generated"]
            ctx.cov["model_depth"][sub] = r["depth"]
            ctx.cov["model"][sub] = {"distinct": r["distinct"], "generated": r["generated"], "depth": r["depth"],
                                     "complete_rows": len(part)}
            ctx.log("TLC %s: %d distinct states (%d generated, depth %d), %d complete rows; Prop(in, Rule(in)) and the "
                    "shape theorems hold on all, %.1fs" % (SUBS[sub]["module"], r["distinct"], r["generated"], r["depth"],
                                                            len(part), r["wall"]))
            if sub == "rspamd" and len(part) != r["distinct"]:
                raise vlib.Infra("TLC printed %d distinct rows for %d states (rspamd)" % (len(part), r["distinct"]))

        # as-is: each deviation of the code, switched on alone, must violate the property (non-vacuity)
        def asis(sub, dev):
            kw = dict(maxrcpt=1, full="FALSE", devs=q([dev]), gen="FALSE", seed=1, randn=1, inv="AsIsSatisfiesProp", emit="")
            return dev, ctx.tlc(SUBS[sub]["module"], None, name="asis-" + dev, workers=2, timeout=600,
                                cfg_text=MC_CFG[sub] % kw)
        asis_pool = ThreadPoolExecutor(max_workers=3)
        asis_runs = [asis_pool.submit(asis, sub, d) for sub in SUBS for d in SUBS[sub]["devs"]]
    sel = rows
    by_id = {row["id"]: row for row in sel}
    ctx.log("%d rows to run through the real code" % len(sel))

    # ---- (B) the real code ------------------------------------------------------
    binary = ctx.build_harness("extscancheck")
    items = [{"id": row["id"], "in": row["in"]} for row in sel]
    pending, events, crashed = items, [], []
    for attempt in range(6):
        name = "replay" if attempt == 0 else "replay%d" % attempt
        try:
            events += ctx.run_shards(binary, pending, timeout=1500, name=name)
            pending = []
            break
        except vlib.Infra:
            got, bad = harvest(ctx, name)
            if not bad:
                raise
            events += got
            crashed += bad
            done = {e["t"] for e in got} | {t for t, _ in bad}
            pending = [it for it in pending if it["id"] not in done]
    events = [e for e in events if e["e"] == "Row"]
    ctx.log("real code answered %d rows" % len(events))
    if crashed:
        ctx.log("the module crashed the process on %d rows (%d rows not run after %d attempts)" % (
            len(crashed), len(pending), attempt + 1))
    elif len(events) != len(items):
        raise vlib.Infra("harness answered %d of %d rows" % (len(events), len(items)))
    ev_by_t = {e["t"]: e for e in events}
    for t, tail in crashed:
        row = by_id[t]
        na = {"k": "n/a", "code": 0, "enchc": 0, "ench": "", "temp": False, "msg": ""}
        fake = {"t": row["id"], "seq": 2, "e": "Row", "in": row["in"],
                "out": {"start": dict(na), "rcpt": [dict(na) for _ in row["in"]["rcpts"]], "body": dict(na), "delivered": False,
                        "quarantine": False, "added": [], "intact": True, "seen": [], "conns": 0, "closed": True, "panics": 1000,
                        "note": "process crashed: " + tail, "cfg": "", "log": []}}
        events.append(fake)
        ev_by_t[row["id"]] = fake
    sel = [row for row in sel if row["id"] in ev_by_t]
    for e in events:
        if "config-refused" in e["out"].get("note", ""):
            raise vlib.Infra("row %d: the configuration text was refused: %s\n%s" % (e["t"], e["out"]["note"], e["out"].get("cfg")))

    # binding self-test: forged outputs must be rejected, and must not pass as findings
    selftest = {}
    extra = []
    if not replay:
        for t, what, f in forged(rows):
            selftest[t] = what
            extra.append(f)

    verdicts, accepted = {}, 0
    for sub in SUBS:
        evs = [project(e) for e in events if e["in"]["sub"] == sub] + [f for f in extra if f["in"]["sub"] == sub]
        if not evs:
            continue
        v, acc = vtable.validate_rows(ctx, SUBS[sub]["module"] + "Trace",
                                      TRACE_CFG[sub] % dict(open=q(d for d in open_by_dev if d in SUBS[sub]["devs"])),
                                      evs, name="val-" + sub, batch=2500, par=8, timeout=1800)
        verdicts.update(v)
        accepted += acc
    ctx.log("TLC evaluated %d recorded rows: %d accepted as conforming" % (len(events) + len(extra), accepted))
    for t, what in selftest.items():
        v = verdicts.get(t)
        if not v or not v["viol"] or v["devs"]:
            raise vlib.Infra("binding self-test failed: forged row (%s) was accepted or explained by a deviation" % what)
        del verdicts[t]
    if selftest:
        ctx.cov["binding_selftest"] = "forged rows rejected: " + "; ".join(selftest.values())

    if not replay:
        for fut in asis_runs:
            dev, ra = fut.result()
            if ra["invariant"] != "AsIsSatisfiesProp":
                raise vlib.Infra("as-is model (%s) does not violate the property: predicates vacuous? (%s)" % (
                    dev, ra["error"]))
        asis_pool.shutdown()
        ctx.cov["asis_counterexample_found"] = list(DEVS)
    if replay:
        ev = events[0]
        v = verdicts.get(ev["t"])
        print("REPLAY ext=X07 input: %s" % brief(ev["in"]))
        print("REPLAY ext=X07 config:\n%s" % ev["out"].get("cfg", ""))
        print("REPLAY ext=X07 real code: %s" % brief_out(ev["out"]))
        if ev["out"].get("log"):
            print("REPLAY ext=X07 log of maddy: %s" % json.dumps([l[:300] for l in ev["out"]["log"][:3]]))
        if rows[0].get("exp"):
            print("REPLAY ext=X07 documented: %s" % brief_out(rows[0]["exp"]))
        if v:
            least = min(len(d) for d in v["devs"]) if v["devs"] else 0
            print("REPLAY ext=X07 verdict of TLC: violated=%s differs-from-documented-rule=%s explained-by-deviations=%s" % (
                sorted(v["viol"]), v["drift"], sorted(sorted(d) for d in v["devs"] if len(d) == least)))
        else:
            print("REPLAY ext=X07 verdict of TLC: accepted as conforming")

    # ---- verdicts ------------------------------------------------------------------
    def explain(v):
        devsets = sorted((sorted(d, key=DEVS.index) for d in v["devs"]),
                         key=lambda d: (len(d), [DEVS.index(x) for x in d]))
        minimal = devsets[0] if devsets else None
        explained = minimal is not None and all(d in open_by_dev for d in minimal)
        if explained and v["viol"]:
            allowed = set()
            for d in minimal:
                allowed |= set(open_by_dev[d]["match"].get("predicates", []))
            explained = set(v["viol"]) <= allowed
        return minimal, explained

    # The rows talk to their scanners over real sockets with the modules' real time-outs; on a starved machine a
    # time-out can fire in a row that does not script one.  A row that violates the property is therefore run a
    # second time, on its own, and reported when the violation shows again (a defect of the modules does; they
    # are sequential code).  Rows that do not reproduce are listed as UNCONFIRMED in the output and the evidence.
    unconfirmed = []
    suspects = [t for t, v in sorted(verdicts.items()) if v["viol"] and not explain(v)[1] and t not in {c[0] for c in crashed}]
    if suspects and not replay:
        again = suspects[:400]
        ev2 = [e for e in ctx.run_shards(binary, [{"id": t, "in": by_id[t]["in"]} for t in again], timeout=1500,
                                         name="confirm", shards=min(4, len(again))) if e["e"] == "Row"]
        if len(ev2) != len(again):
            raise vlib.Infra("confirmation run answered %d of %d rows" % (len(ev2), len(again)))
        v2 = {}
        for sub in SUBS:
            evs = [project(e) for e in ev2 if e["in"]["sub"] == sub]
            if evs:
                vv, _ = vtable.validate_rows(ctx, SUBS[sub]["module"] + "Trace",
                                             TRACE_CFG[sub] % dict(open=q(d for d in open_by_dev if d in SUBS[sub]["devs"])),
                                             evs, name="confirm-" + sub, batch=2500, par=4, timeout=1800)
                v2.update(vv)
        for e in ev2:
            t = e["t"]
            nv = v2.get(t)
            if nv is None or not nv["viol"] or explain(nv)[1]:
                unconfirmed.append({"row": t, "first": sorted(verdicts[t]["viol"]), "in": brief(by_id[t]["in"]),
                                    "first_out": brief_out(proj_out(ev_by_t[t]["out"]))})
                print(("UNCONFIRMED ext=X07 row=%d violated %s once, not on re-run: %s" % (
                    t, ",".join(sorted(verdicts[t]["viol"])), brief(by_id[t]["in"])))[:1200])
                if nv is None:
                    del verdicts[t]
                else:
                    verdicts[t] = nv
            else:
                verdicts[t] = nv
            ev_by_t[t] = e
        ctx.log("%d violating rows run again: %d confirmed" % (len(again), len(again) - len(unconfirmed)))
    ctx.cov["unconfirmed_rows"] = unconfirmed

    drift = 0
    finding_rows = {}
    preds = {}
    for t, v in sorted(verdicts.items()):
        row, ev = by_id[t], ev_by_t[t]
        outs = proj_out(ev["out"])
        minimal, explained = explain(v)
        if v["viol"] and not explained:
            for p in v["viol"]:
                preds[p] = preds.get(p, 0) + 1
            what = "check.%s violates %s: %s | real code: %s | documented: %s" % (
                row["in"]["sub"], ",".join(sorted(v["viol"])), brief(row["in"]), brief_out(outs),
                brief_out(row["exp"]) if row.get("exp") else "-")
            if ev["out"].get("note"):
                what += " | " + ev["out"]["note"][:300]
            if len(what) > 1400:
                what = what[:1400] + " ..."
            ctx.violation(what, {"property": PID, "row": row, "out": ev["out"], "violated": sorted(v["viol"]),
                                 "how": "bin/check X07 --replay <this file>"})
        elif explained:
            # exactly the behaviour of the named deviation(s) of open findings
            for d in minimal:
                e = open_by_dev[d]
                if (e["id"], e["what"]) not in ext_seen:
                    ext_seen.append((e["id"], e["what"]))
                k = finding_rows.setdefault(e["id"], {"rows": 0, "violating_rows": 0, "predicates": {}, "example": None})
                k["rows"] += 1
                if v["viol"]:
                    k["violating_rows"] += 1
                    for p in v["viol"]:
                        k["predicates"][p] = k["predicates"].get(p, 0) + 1
                    if k["example"] is None:
                        k["example"] = {"in": row["in"], "out": outs, "documented": row.get("exp"), "violated": sorted(v["viol"]),
                                        "config": ev["out"].get("cfg")}
        else:
            drift += 1
            if drift <= 10:
                print(("DRIFT ext=X07 row=%d %s | real code: %s | documented: %s" % (
                    t, brief(row["in"]), brief_out(outs), brief_out(row["exp"]) if row.get("exp") else "-"))[:2500])
    ctx.cov["traces_validated_against_impl"] = accepted
    ctx.cov["drift_traces"] = drift
    ctx.cov["ext_finding_rows"] = finding_rows
    ctx.cov["ext_findings_seen"] = [fid for fid, _ in ext_seen]
    ctx.cov["evaluations"] = len(sel)
    ctx.cov["distinct_nontrivial"] = sum(1 for row in sel if nontrivial(row))
    tabs = sorted({(row["in"]["sub"], row["in"]["tab"]) for row in sel})
    ctx.cov["rows_by_table"] = {"%s/%s" % st: sum(1 for row in sel if (row["in"]["sub"], row["in"]["tab"]) == st) for st in tabs}
    ctx.cov["slow_rows_ms"] = sorted((e["out"].get("wallms", 0) for e in events), reverse=True)[:5]
    ctx.cov["rule"] = ("rows = complete states of ExtScanMilter.tla (scripts revealed answer by answer: main table = 12 answers "
                       "at each of connect / helo / mail / 2 x rcpt / 2 x header / eoh / body and 12 final answers x 7 (quick) or "
                       "12 (thorough) lists of modification actions at end of body, fail_open yes / no; side tables: fail_open "
                       "absent, session kinds x TLS x authentication x SMTPUTF8 x protocol version, nil connection, negotiated "
                       "protocol options, unreachable / failing negotiation x fail_open x endpoint forms, body sizes, header "
                       "shapes, go-milter's own server, progress packets, stalled milter, no-reply options (thorough), RandN "
                       "mixed rows from Seed = VERIF_SEED) and states of ExtScanRspamd.tla (10 action strings x 7 action "
                       "settings, 6 statuses x 7, 4 transport / parse failures x 7, request table, shapes, mixed); every row goes "
                       "through the real code in both tiers; non-trivial = some answer other than continue / accept / no action")
    ctx.cov["violated_predicates"] = preds
    ctx.cov["exhaustive"] = True
    picks = []
    for st in tabs:
        picks += [row for row in sel if (row["in"]["sub"], row["in"]["tab"]) == st and nontrivial(row)][:1]
    for row in picks[:8]:
        o = ev_by_t[row["id"]]["out"]
        ctx.cov["samples"].append({"row": brief(row["in"]), "documented": brief_out(row["exp"]) if row.get("exp") else None,
                                   "out": brief_out(proj_out(o)), "cfg": o.get("cfg")})
    ctx.assumptions += [
        "the milter is a scripted server speaking the wire protocol of go-milter/milter-protocol.txt over real TCP / unix "
        "sockets (plus go-milter's own server side in table lib); rspamd is a scripted net/http server; a stalled milter is "
        "only exercised with the module's own 10 s time-outs (table stall)",
        "the modules are the registered check.milter / check.rspamd, created and initialised from configuration text by "
        "msgpipeline.New; nothing is replaced inside them",
        "the SMTP endpoint is replaced by the calls it makes (Start, AddRcpt per recipient, Body, Commit / Abort) with the "
        "MsgMetadata / ConnState it builds; its reply is derived from the error annotations (exterrors.Fields, IsTemporary) "
        "the way wrapErr does",
        "recovered panics of a check are observed through the check runner's log line",
        "TLC 1.8.0, CommunityModules Json",
    ]
    # extension findings are printed here (vlib.finish prints KNOWN-FINDING lines only for listed properties)
    for fid, what in ext_seen:
        print("EXT-FINDING: ext=%s %s %s" % (PID, fid, what))


META = {
    "engine": "extscancheck",
    "level": "model_checking",
    "technique": "TLA+ specs ExtScanMilter.tla (the milter dialogue as a state machine over the milter's script, "
                 "documented procedure, property predicates, named deviations) and ExtScanRspamd.tla (response x action "
                 "tables, request) explored by TLC; every complete row run through the real check.milter / check.rspamd "
                 "modules configured from text inside a real message pipeline against a scripted milter / HTTP server; "
                 "recorded results and packets evaluated by TLC (ExtScanMilterTrace.tla, ExtScanRspamdTrace.tla)",
    "statement": "For every configuration of check.milter (endpoint given as argument or directive, tcp or unix; fail_open "
                 "yes / no / absent), every SMTP session (IPv4, IPv4-mapped, IPv6, unix, unknown or no connection "
                 "information; TLS or not; authenticated or not; SMTPUTF8; null sender), every message (1-2 recipients, "
                 "any header, empty to multi-chunk body) and every behaviour of the milter - at each of connect, helo, "
                 "mail, each rcpt, each header field, end of header, each body chunk and end of body: continue, accept, "
                 "reject, tempfail, discard, a reply code, progress, no reply negotiated, connection loss, protocol "
                 "garbage, a truncated packet, silence; steps negotiated away; at end of body any list of modification "
                 "actions; a milter that is down or fails the negotiation - the answer of the server to MAIL, to each "
                 "RCPT and to DATA is the translation of the milter's answer to the last step of that stage: continue / "
                 "accept - no action (accept ends the dialogue); reject - a 5xx refusal; tempfail - 4xx; reply code xyz "
                 "- a refusal with exactly that code and the matching class; discard - the message is not delivered; an "
                 "I/O failure (including a milter that cannot be reached) follows fail_open - the check is skipped when "
                 "yes, the command is refused with a temporary code when no (default) - and never crashes or hangs the "
                 "message; a quarantine action flags the delivered message and added / inserted header fields appear "
                 "byte for byte on top of the untouched header, the unsupported modifications change nothing. The "
                 "milter sees a prefix of connect, helo, mail, rcpt.., header.., end of header, body.., end of body - "
                 "each step at most once, in order, with the values of the real session (address family, address, port, "
                 "HELO name, sender with SMTPUTF8, recipients, unfolded header fields, the body bytes; macros i = message "
                 "id, auth_authen = authenticated user, tls_version) -, nothing after the dialogue ended and no step "
                 "withheld before; one connection per message, ended by quit. For check.rspamd: exactly one POST "
                 "/checkv2 per message carrying header and body and the fields From, Rcpt (each), Queue-Id, IP and "
                 "Helo, User when authenticated, Hostname when reverse DNS is known, MTA-Tag, MTA-Name, Settings-ID and "
                 "the configured flags; 'no action' and 'greylist' pass, 'add header' / 'rewrite subject' take "
                 "add_header_action / rewrite_subj_action (default quarantine) and add X-Spam-Flag / X-Spam-Score "
                 "whatever the action, 'soft reject' refuses with 4xx, 'reject' with 5xx, a 4xx / 5xx HTTP response takes "
                 "error_resp_action and a transport failure io_error_action (both default ignore; reject = temporary "
                 "code unless the action names one), an unparsable 200 answer takes one of the two, an action string the "
                 "documentation does not name passes (from the code).",
    "text": "TLC explores the scripts of ExtScanMilter.tla answer by answer and the tables of ExtScanRspamd.tla, checks the "
            "property predicates and the shape theorems on the documented procedure for every state, and evaluates the "
            "same predicates on the pipeline's answers, the delivery at the target and the packets / request the scripted "
            "scanner received from the real modules, for every complete row in both tiers.",
    "note": "scanners are scripted servers on real sockets; the SMTP endpoint is replaced by the calls it makes; six "
            "deviations of the unchanged tree are open extension findings (extensions/findings.json).",
    "design_ref": "extensions/X07.md",
}
