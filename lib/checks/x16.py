"""X16 - where target.remote delivers: MX discovery, candidate order, fall-back and
classification of the outcome.

(S) spec/MxSelect.tla (pattern A): per delivery the AddRcpt calls (recipients grouped by domain, one
    connection and one MAIL per domain, no-domain recipients refused), the MX lookup with every DNS
    situation (MX RRset with equal / different preferences and duplicate names, null MX, no MX ->
    implicit MX, NXDOMAIN, SERVFAIL, time-out, resolver down, IDN domain), the candidate iteration as
    ONE action per connection attempt with the host's behaviour as nondeterminism (refused, MX name
    does not resolve / cannot be resolved now, 4xx / 5xx greeting, dropped before the greeting / after
    EHLO, session up), MAIL / RCPT / final-dot replies, the class of the error returned, the pool
    keyed by domain over consecutive deliveries.  spec/MxSelectObs.tla: the predicates, over DNS
    questions, dials, commands seen by the MX hosts and returned classes only.
(T) TLC: NoViolation exhaustively on bounded configurations (deviations off); the as-is model (the
    three deviations of HEAD) must violate it and every as-is violation must be covered by a
    deviation taken (ViolationsExplained).
(B) TLC-printed behaviours are replayed by harness/mxselectcheck on the REAL remote.Target (export
    constructor, DNSSEC-aware resolver = production lookup path) against a scripted DNS server
    (loopback UDP) and scripted MX hosts (loopback TCP) behind an injected dialer; the recorded
    events are validated by TLC against spec/MxSelectTrace.tla (same Obs predicates).
"""
import concurrent.futures
import json
import os

import vlib

PID = "X16"

ALL_DEVS = ("UnspecAsPerm", "ResolverDownAsPerm", "IdnRawQuestion")
ALL_MAIL = ("ok", "m4", "m5", "mdrop")
ALL_RCPT = ("ok", "r4", "r5")
ALL_DOT = ("ok", "d4", "d5")
KEEP = {"Cfg", "Start", "Rcpt", "Q", "Dial", "Srv", "Ret", "Body", "BodyRet", "Fin", "End"}

CFG = """SPECIFICATION %(spec)s
CONSTANTS
  Domains = {%(domains)s}
  FactSet <- %(facts)s
  Outs %(outs)s
  MailRs = {%(mail)s}
  RcptRs = {%(rcpt)s}
  DotRs = {%(dot)s}
  Lps <- %(lps)s
  WithNoDom = %(nodom)s
  MaxDeliv = %(maxdeliv)d
  Devs = {%(devs)s}
  Gen = %(gen)s
%(tail)s
"""

MC_TAIL = "VIEW View\nINVARIANTS NoViolation TypeOK\n"
ASIS_TAIL = "VIEW View\nINVARIANTS ViolationsExplained TypeOK\n"
GEN_TAIL = "CHECK_DEADLOCK FALSE\n"
TRACE_TAIL = "CHECK_DEADLOCK FALSE\nPOSTCONDITION Post\n"


def q(xs):
    return ", ".join('"%s"' % x for x in xs)


def cfg(spec="Spec", domains=("d1",), facts="FactsOrder2", outs=None, mail=ALL_MAIL, rcpt=ALL_RCPT, dot=ALL_DOT,
        lps="Lps2", nodom=True, maxdeliv=1, devs=(), gen=False, tail=MC_TAIL):
    return CFG % dict(spec=spec, domains=q(domains), facts=facts,
                      outs="<- AllOuts" if outs is None else "= {%s}" % q(outs),
                      mail=q(mail), rcpt=q(rcpt), dot=q(dot), lps=lps, nodom="TRUE" if nodom else "FALSE",
                      maxdeliv=maxdeliv, devs=q(devs), gen="TRUE" if gen else "FALSE", tail=tail)


def findings():
    p = os.environ.get("VERIF_EXT_FINDINGS") or os.path.join(vlib.VERIF, "extensions", "findings.json")
    if not os.path.exists(p):
        return []
    return [f for f in json.load(open(p)).get("findings", []) if f.get("ext") == PID]


def open_findings():
    # VERIF_X16_FIXED=X16-F1,...: treat these findings as fixed (to try a proposed fix before the entry is closed)
    as_fixed = set(filter(None, os.environ.get("VERIF_X16_FIXED", "").split(",")))
    return [f for f in findings() if f.get("status", "open") == "open" and f["id"] not in as_fixed]


def plan_of(beh):
    """history printed by TLC -> what harness/mxselectcheck executes"""
    facts = {}
    for d, f in beh["facts"].items():
        if f["kind"] == "unknown":
            continue
        facts[d] = {"kind": f["kind"], "idn": bool(f["idn"]),
                    "recs": [{"pref": r["pref"], "host": r["host"], "up": bool(r["up"])} for r in f["recs"]]}
    delivs, cur, step = [], None, None
    for s in beh["steps"]:
        a = s["a"]
        if a == "start":
            cur = {"steps": [], "body": False, "dot": {}, "fin": "commit"}
            delivs.append(cur)
        elif a == "rcpt":
            step = {"to": {"lp": s["lp"], "dom": s["dom"]}, "att": [], "mail": "", "rcpt": ""}
            cur["steps"].append(step)
        elif a == "dial":
            step["att"].append({"host": s["host"], "out": s["out"]})
        elif a == "mail":
            step["mail"] = s["r"]
        elif a == "rcptcmd":
            step["rcpt"] = s["r"]
        elif a == "body":
            cur["body"] = True
        elif a == "data":
            cur["dot"][s["dom"]] = s["r"]
        elif a == "fin":
            cur["fin"] = s["op"]
    delivs = [d for d in delivs if d["steps"]]
    return {"facts": facts, "delivs": delivs}


def behaviours_from(r):
    out = []
    for tag, v in r["printed"]:
        if tag == "BEH":
            p = plan_of(v)
            if p["delivs"]:
                out.append(p)
    return out


def dedup(behs):
    seen, out = set(), []
    for x in behs:
        key = json.dumps(x, sort_keys=True)
        if key not in seen:
            seen.add(key)
            out.append(x)
    for i, x in enumerate(out):
        x["id"] = i + 1
    return out


def shape(x):
    """a behaviour without host identities: DNS situation + preference pattern + outcomes + replies"""
    fs = []
    for d in sorted(x["facts"]):
        f = x["facts"][d]
        hosts = [r["host"] for r in f["recs"]]
        fs.append((f["kind"], f["idn"], tuple(r["pref"] for r in f["recs"]), len(set(hosts)) < len(hosts),
                   any(r["up"] for r in f["recs"])))
    ds = []
    for d in x["delivs"]:
        ds.append((tuple((s["to"]["dom"], tuple(a["out"] for a in s["att"]), s["mail"], s["rcpt"]) for s in d["steps"]),
                   d["body"], tuple(sorted(d["dot"].items())), d["fin"]))
    return json.dumps([fs, ds])


def stratum(x):
    """DNS situations, spelling and attempt outcomes that occur in a behaviour (what must not be sampled away)"""
    return json.dumps([sorted((f["kind"], f["idn"], len(f["recs"])) for f in x["facts"].values()),
                       sorted({a["out"] for d in x["delivs"] for s in d["steps"] for a in s["att"]}),
                       sorted({s["to"]["dom"] for d in x["delivs"] for s in d["steps"]} & {"lit", "none"}),
                       len(x["delivs"])])


def stratified(rng, items, cap):
    """a sample of `cap` items that takes from every stratum in turn (rare strata are never lost)"""
    buckets = {}
    for x in items:
        buckets.setdefault(stratum(x), []).append(x)
    for v in buckets.values():
        rng.shuffle(v)
    out = []
    keys = sorted(buckets)
    while len(out) < cap and keys:
        for k in list(keys):
            if buckets[k]:
                out.append(buckets[k].pop())
                if len(out) >= cap:
                    break
            else:
                keys.remove(k)
    return out


def timeouts_in(x):
    """number of lookups that will wait for a DNS answer that never comes (2 s each)"""
    n = 0
    for d in x["delivs"]:
        for s in d["steps"]:
            f = x["facts"].get(s["to"]["dom"])
            if f and f["kind"] == "timeout":
                n += 1
    return n


def nontrivial(x):
    return any(f["kind"] != "mx" or len(f["recs"]) > 1 or f["idn"] for f in x["facts"].values()) or \
        any(a["out"] != "up" for d in x["delivs"] for s in d["steps"] for a in s["att"]) or \
        any(s["mail"] not in ("", "ok") or s["rcpt"] not in ("", "ok") for d in x["delivs"] for s in d["steps"])


def run(ctx, replay):
    thorough = ctx.tier == "thorough"
    known = open_findings()
    for f in known:
        if f["match"]["deviation"] not in ALL_DEVS:
            raise vlib.Infra("finding %s names an unknown deviation %s" % (f["id"], f["match"]["deviation"]))
    open_devs = sorted({f["match"]["deviation"] for f in known})
    allowed = {f["match"]["deviation"]: set(f["match"]["predicates"]) for f in known}
    by_dev = {f["match"]["deviation"]: f for f in known}
    robj = json.load(open(replay)) if replay else None
    skip_mc = bool(os.environ.get("VERIF_DEV_SKIP_MC"))   # development aid only (mutation drills)
    if skip_mc:
        ctx.notes.append("VERIF_DEV_SKIP_MC set: exhaustive model checking skipped in this run")

    tlc_pool = concurrent.futures.ThreadPoolExecutor(max_workers=4)
    mc_futs = None
    runs, asis, single = [], None, []

    # ---- (T) exhaustive model checking of the design ---------------------------------------------
    if not robj and not skip_mc:
        small_outs = ("refuse", "g5", "gdrop", "up")
        if thorough:
            runs = [("mc-order", cfg(facts="FactsOrder3", lps="Lps2")),
                    ("mc-rcpt3", cfg(facts="FactsOrder2", lps="Lps3")),
                    ("mc-spell", cfg(facts="FactsSpell", lps="Lps2")),
                    ("mc-group", cfg(domains=("d1", "d2"), facts="FactsGroup", outs=("refuse", "nohost", "g5", "gdrop", "up"),
                                     mail=("ok", "m4", "m5"), rcpt=("ok", "r5"), dot=("ok", "d4"), lps="Lps3")),
                    ("mc-pool", cfg(domains=("d1", "d2"), facts="FactsTiny", outs=("refuse", "up"), mail=("ok", "m4", "mdrop"),
                                    rcpt=("ok", "r5"), dot=("ok", "d4"), lps="Lps2", maxdeliv=3))]
        else:
            runs = [("mc-order", cfg(facts="FactsOrder2", lps="Lps1")),
                    ("mc-rcpt3", cfg(facts="FactsPairs", lps="Lps3")),
                    ("mc-spell", cfg(facts="FactsSpell", lps="Lps1")),
                    ("mc-group", cfg(domains=("d1", "d2"), facts="FactsTiny", outs=small_outs, mail=("ok", "m4", "m5"),
                                     rcpt=("ok", "r5"), dot=("ok", "d4"), lps="Lps3")),
                    ("mc-pool", cfg(domains=("d1", "d2"), facts="FactsTiny", outs=("refuse", "up"), mail=("ok", "m4"),
                                    rcpt=("ok", "r5"), dot=("ok", "d4"), lps="Lps2", nodom=False, maxdeliv=2))]
        asis = ("asis", cfg(facts="FactsSpell", lps="Lps2" if thorough else "Lps1", devs=ALL_DEVS, tail=ASIS_TAIL))
        single = [("asis-" + d, cfg(facts="FactsSpell", lps="Lps1", devs=(d,), nodom=False, tail="VIEW View\nINVARIANTS NoViolation\n"))
                  for d in ALL_DEVS]
        # the exhaustive runs and the behaviour generation below are independent: they share one executor
        # (at most 4 JVMs at a time, 4 resp. 2 workers each)
        mc_futs = {name: tlc_pool.submit(ctx.tlc, "MxSelect", None, name=name, workers=4, timeout=3000, cfg_text=text, heap="3g")
                   for name, text in runs + [asis] + single}

    def finish_mc():
        if mc_futs is None:
            return
        res = {name: f.result() for name, f in mc_futs.items()}
        states = trans = depth = 0
        for name, _ in runs + [asis]:
            r = res[name]
            if not r["ok"]:
                raise vlib.Infra("TLC did not accept MxSelect/%s: invariant=%s error=%s (see %s/tlc.out)" % (
                    name, r["invariant"], r["error"], r["dir"]))
            ctx.log("TLC exhaustive %s: %d distinct states, %d generated, depth %d, %.1fs" % (
                name, r["distinct"], r["generated"], r["depth"], r["wall"]))
            ctx.cov["states_" + name] = r["distinct"]
            if name != "asis":
                states += r["distinct"]
                trans += r["generated"]
                depth = max(depth, r["depth"])
        ctx.cov["states"] = states
        ctx.cov["transitions"] = trans
        ctx.cov["model_depth"] = depth
        for name, _ in single:
            if res[name]["invariant"] != "NoViolation":
                raise vlib.Infra("as-is model %s no longer violates NoViolation: the invariant is vacuous (%s %s)" % (
                    name, res[name]["invariant"], res[name]["error"]))
        ctx.cov["asis_counterexamples_found"] = [d for d in ALL_DEVS]

    # ---- (B) behaviours out of TLC ------------------------------------------------------------------
    if robj:
        behs = [robj["behaviour"]]
        behs[0]["id"] = 1
    else:
        gd = open_devs     # the model of the code as it is (open findings) writes the scripts
        two = ("refuse", "up")
        focus = [
            # every RRset of up to 2 records (3 in thorough) x every sequence of candidate behaviours, one recipient
            ("gen-order", cfg(facts="FactsOrder2" if thorough else "FactsPairs", mail=ALL_MAIL, rcpt=("ok", "r5"), dot=("ok", "d4"),
                              lps="Lps1", nodom=False, devs=gd, gen=True, tail=GEN_TAIL)),
            # every RRset of 3 records: published order x preferences x duplicates
            ("gen-order3", cfg(facts="FactsOrder3" if thorough else "FactsOrder2",
                               outs=("refuse", "gdrop", "g5", "up") if thorough else ("refuse", "g5", "up"),
                               mail=("ok",), rcpt=("ok",), dot=("ok",), lps="Lps1", nodom=False,
                               devs=gd, gen=True, tail=GEN_TAIL)),
            # spelling of MX targets, IDN recipient domains, recipients without a domain
            ("gen-spell", cfg(facts="FactsSpell", outs=("refuse", "hserv", "g4", "edrop", "up") if thorough else ("refuse", "g4", "edrop", "up"),
                              mail=("ok", "m5"), rcpt=("ok",), dot=("ok",), lps="Lps1", devs=gd, gen=True, tail=GEN_TAIL)),
            # two domains, three recipients: grouping, retry of a failed domain by the next recipient
            ("gen-group", cfg(domains=("d1", "d2"), facts="FactsTiny", outs=two, mail=("ok", "m4"),
                              rcpt=("ok", "r5") if thorough else ("ok",), dot=("ok", "d4"), lps="Lps3", devs=gd, gen=True,
                              tail=GEN_TAIL)),
            # consecutive deliveries sharing the pool (keyed by domain): two recipients per delivery, two deliveries
            ("gen-pool", cfg(domains=("d1", "d2"), facts="FactsTwo", outs=("up",), mail=("ok", "m4"), rcpt=("ok",),
                             dot=("ok", "d4"), lps="Lps2", nodom=False, maxdeliv=2, devs=gd, gen=True, tail=GEN_TAIL)),
        ]
        if thorough:    # one recipient per delivery, three deliveries, failing candidates and refused recipients
            focus.append(("gen-pool3", cfg(domains=("d1", "d2"), facts="FactsTwo", outs=two, mail=("ok", "m4"), rcpt=("ok", "r5"),
                                           dot=("ok", "d4"), lps="Lps1", nodom=False, maxdeliv=3, devs=gd, gen=True, tail=GEN_TAIL)))
        n = 4000 if thorough else 300
        jobs = [(name, dict(workers=2, timeout=2400, cfg_text=text, heap="2g")) for name, text in focus]
        jobs.append(("sim", dict(workers=1, timeout=1800, simulate=n, depth=120, heap="2g",
                                 cfg_text=cfg(domains=("d1", "d2"), facts="FactsSim", lps="Lps3", maxdeliv=3, devs=gd, gen=True,
                                              tail=GEN_TAIL))))
        futs = {name: tlc_pool.submit(ctx.tlc, "MxSelect", None, name=name, **kw) for name, kw in jobs}
        res = {name: f.result() for name, f in futs.items()}
        finish_mc()
        behs = []
        caps = {"gen-order": 40000, "gen-order3": 20000, "gen-spell": 8000, "gen-group": 12000, "gen-pool": 8000, "gen-pool3": 8000} if thorough else \
               {"gen-order": 700, "gen-order3": 300, "gen-spell": 250, "gen-group": 300, "gen-pool": 250}
        for name, _ in jobs:
            g = res[name]
            if not g["ok"]:
                raise vlib.Infra("behaviour generation %s failed: %s %s (see %s/tlc.out)" % (
                    name, g["invariant"], g["error"], g["dir"]))
            got = behaviours_from(g)
            g.pop("out", None)
            g.pop("printed", None)
            if not name.startswith("sim"):
                ctx.cov["exhaustive_" + name] = len(got)
                by_shape = {}
                for x in got:
                    by_shape.setdefault(shape(x), []).append(x)
                ctx.cov["shapes_" + name] = len(by_shape)
                pick = [ctx.rng.choice(v) for _, v in sorted(by_shape.items())]     # one per shape ...
                if len(pick) > caps[name]:
                    pick = stratified(ctx.rng, pick, caps[name])
                elif thorough:
                    picked = set(map(id, pick))
                    rest = [x for x in got if id(x) not in picked]
                    pick += vlib.sample(ctx.rng, rest, min(len(rest), caps[name] - len(pick)))  # ... plus a sample of the rest
                got = pick
            behs += got
        # a lookup that waits for an answer that never comes takes 2 s of real time: bound their number
        budget = 80 if thorough else 10
        kept = []
        for x in behs:
            t = timeouts_in(x)
            if t == 0:
                kept.append(x)
            elif t <= 2 and budget >= t:
                budget -= t
                kept.append(x)
        behs = dedup(kept)
        if not behs:
            raise vlib.Infra("TLC produced no behaviours")
    tlc_pool.shutdown()
    ctx.log("%d behaviours to replay" % len(behs))

    # ---- replay on the real remote.Target -------------------------------------------------------------
    binary = ctx.build_harness("mxselectcheck")
    events = ctx.run_shards(binary, behs, shards=min(vlib.NCPU, 8))
    by_id = {x["id"]: x for x in behs}

    # binding self-test: a corrupted and a truncated copy of an accepted trace must be rejected
    selftest = {}
    if not robj:
        base = None
        for x in behs:
            evs = [e for e in events if e["t"] == x["id"]]
            if any(e["e"] == "Dial" and e["out"] == "refuse" for e in evs) and \
                    any(e["e"] == "Ret" and e["cls"] == "ok" for e in evs) and len(x["facts"]) == 1 and \
                    not any(f["idn"] for f in x["facts"].values()):
                base = evs
                break
        if base:
            c1 = [json.loads(json.dumps(dict(e, t=900001))) for e in base]
            for e in c1:
                if e["e"] == "Dial" and e["out"] == "refuse":
                    e["host"] = "d1"          # the target dialled the domain itself instead of its MX
                    break
            c2 = [json.loads(json.dumps(dict(e, t=900002))) for e in base]
            for i, e in enumerate(c2):
                if e["e"] == "Srv" and e["st"] == "rcpt" and e["r"] == "ok":
                    del c2[i]                 # the accepted RCPT was never seen by the MX host
                    break
            events = events + c1 + c2
            selftest = {900001: "forged-dial", 900002: "dropped-rcpt"}

    tcfg = cfg(spec="TSpec", domains=("d1", "d2"), facts="FactsAny", lps="Lps3", maxdeliv=9, devs=open_devs, tail=TRACE_TAIL)
    ngroups = 6 if len(behs) > 6000 else 2
    groups = [[e for e in events if e["t"] % ngroups == g] for g in range(ngroups)]
    groups = [g for g in groups if g]
    verdicts, by_t = {}, {}
    with concurrent.futures.ThreadPoolExecutor(max_workers=len(groups)) as ex:
        futs = [ex.submit(ctx.validate, "MxSelectTrace", None, g, keep=KEEP, name="MxSelectTrace-g%d" % i, cfg_text=tcfg,
                          batch=1500, timeout=2400) for i, g in enumerate(groups)]
        for f in futs:
            v, bt = f.result()
            verdicts.update(v)
            by_t.update(bt)

    ok = drift = 0
    preds = {}
    seen = {}
    for t, recs in sorted(verdicts.items()):
        r0 = recs[0]
        if t in selftest:
            if not r0["drift"] and not r0["viol"]:
                raise vlib.Infra("binding self-test failed: %s trace was accepted" % selftest[t])
            continue
        viol = set(r0["viol"])
        conform = not r0["drift"]
        explained = set()
        # a violation belongs to an open finding only if the as-is design followed the whole trace, took
        # nothing but deviations of open findings, and the predicate is one that deviation accounts for
        if viol and conform and r0["taken"] and set(r0["taken"]) <= set(open_devs):
            cover = set()
            for d in r0["taken"]:
                cover |= allowed[d]
            explained = viol & cover
            for d in r0["taken"]:
                if allowed[d] & explained:
                    f = by_dev[d]
                    seen.setdefault(f["id"], [f["what"], 0])[1] += 1
        rest = viol - explained
        if rest:
            names = sorted(rest)
            for p in names:
                preds[p] = preds.get(p, 0) + 1
            ctx.violation("target.remote violates %s" % ",".join(names),
                          {"property": PID, "behaviour": by_id[t], "trace": by_t[t], "violated": names,
                           "how": "bin/check X16 --replay <this file>"})
        elif conform:
            ok += 1
        else:
            drift += 1
            print("DRIFT property=%s trace=%d first-unexplained-seq=%s" % (PID, t, r0["driftAt"]))
    for fid, (what, cnt) in sorted(seen.items()):
        print("EXT-FINDING: ext=%s %s %s (%d traces)" % (PID, fid, what, cnt))

    # not a verdict: the class of the final error is that of the LAST candidate tried
    mixed = 0
    for t, evs in by_t.items():
        if t in selftest:
            continue
        outs = []
        for e in evs:
            if e["e"] == "Rcpt":
                outs = []
            elif e["e"] == "Dial":
                outs.append(e["out"])
            elif e["e"] == "Ret" and e["cls"] == "perm" and outs and "up" not in outs and \
                    any(o in ("refuse", "hserv", "g4") for o in outs) and outs[-1] in ("g5", "nohost"):
                mixed += 1
    if mixed:
        print("OBSERVATION property=%s %d AddRcpt calls failed permanently on the last candidate's 5xx greeting / unresolvable "
              "name although an earlier candidate had only failed temporarily (the class of the last error decides)" % (PID, mixed))
    ctx.cov["observation_last_error_decides"] = mixed

    if selftest:
        ctx.cov["binding_selftest"] = "forged-dial and dropped-rcpt traces rejected"
    ctx.cov["ext_findings_seen"] = {k: v[1] for k, v in seen.items()}
    ctx.cov["traces_validated_against_impl"] = ok
    ctx.cov["drift_traces"] = drift
    ctx.cov["evaluations"] = len(behs)
    ctx.cov["distinct_nontrivial"] = sum(1 for x in behs if nontrivial(x))
    ctx.cov["dials_observed"] = sum(1 for e in events if e["e"] == "Dial" and e["t"] < 900000)
    ctx.cov["questions_observed"] = sum(1 for e in events if e["e"] == "Q" and e["t"] < 900000)
    ctx.cov["violated_predicates"] = preds
    ctx.cov["rule"] = ("behaviours = (DNS facts per recipient domain; per delivery the recipients, the behaviour of every "
                       "candidate host per connection attempt, MAIL / RCPT / final-dot replies, commit or abort) of MxSelect.tla "
                       "printed by TLC: exhaustive over four focused sub-spaces (one per shape in quick, plus a sample of the "
                       "rest in thorough) plus -simulate over the full space (2 domains, 3 recipients, 3 deliveries), "
                       "de-duplicated; non-trivial = a DNS situation other than one MX record, a failing candidate or a refused "
                       "MAIL / RCPT")
    ctx.cov["exhaustive"] = False
    for x in behs[:3]:
        ctx.cov["samples"].append({"behaviour": x, "trace": [e for e in by_t.get(x["id"], [])][:40]})
    ctx.assumptions += [
        "the target is built by the export constructor without security policies and without a TLS configuration (C05's "
        "subject); lookups go through the DNSSEC-aware resolver (dns.ExtResolver), the path used on every platform with "
        "/etc/resolv.conf",
        "DNS = a scripted miekg/dns server on loopback UDP (IDN domains exist under their A-labels only); 'resolver down' = the "
        "resolver port is switched to a reserved closed UDP port for that AddRcpt call; a time-out costs 2 s of real time",
        "MX hosts = scripted raw SMTP servers on loopback TCP behind an injected dialer that maps host names (lower case, one "
        "trailing dot removed) to them and fails dials with the errors net.Dialer returns (ECONNREFUSED, *net.DNSError)",
        "recipient domains reach the target in the form maddy's endpoints produce (U-labels, NFC, lower case)",
        "a harness-side time-out or an I/O time-out that nothing scripted is exit 2, never a violation",
        "TLC 1.8.0, CommunityModules Json reader",
    ]


META = {
    "engine": "mxselectcheck",
    "level": "model_checking",
    "statement": "For every recipient list of a delivery handed to target.remote (several recipients per domain, several "
                 "domains, address-literal and <postmaster> recipients, IDN domains), every DNS situation of each recipient "
                 "domain (MX records with equal or different preferences, duplicate or upper-case target names, the null MX "
                 "of RFC 7505, no MX record, NXDOMAIN, SERVFAIL, no answer, resolver not running) and every behaviour of "
                 "each candidate host at each connection attempt (connection refused, MX name unresolvable permanently / "
                 "temporarily, 4xx / 5xx greeting, connection closed before the greeting or after EHLO, MAIL accepted / "
                 "refused 4xx / 5xx / answered by closing, RCPT and final dot accepted or refused), over consecutive "
                 "deliveries sharing the connection cache: (1) the only DNS question about a recipient domain is the MX "
                 "question for that domain in its ASCII (A-label) form, and no question is asked and no connection made for a "
                 "recipient without a domain name, which is refused permanently (from the code); (2) connections are made only "
                 "to hosts among the domain's candidates - the targets of its MX records or, without MX records, the domain "
                 "itself (RFC 5321 5.1) - strictly in ascending preference order, every record at most once, and never after a "
                 "host has answered MAIL for that domain in the same AddRcpt call; (3) a null MX means permanent failure "
                 "without any connection, NXDOMAIN permanent failure without any connection (from the code), a temporary DNS "
                 "failure (SERVFAIL, time-out, resolver unreachable) never a permanent failure and never a connection; "
                 "(4) AddRcpt gives up at the connection stage only after every candidate was tried (from the code); when every "
                 "candidate tried failed at connection level or temporarily the error is not permanent, when every one gave a "
                 "definitive permanent answer (5xx greeting, MX name does not exist) it is permanent, mixed outcomes are left "
                 "free; a 4xx / dropped MAIL is never reported permanent and a 5xx MAIL or RCPT always is; (5) at most one "
                 "transaction per domain and delivery, on a connection that was opened for that very domain (also when it "
                 "comes from the cache), carrying only and all accepted recipients of that domain; a recipient is reported "
                 "accepted only if a host accepted RCPT for it; every accepted recipient gets exactly one status of the class "
                 "of its transaction's final reply; (6) after Commit/Abort and Target.Close no connection the target opened is "
                 "left open.",
    "technique": "TLA+ spec MxSelect.tla (AddRcpt / lookup / one action per connection attempt / MAIL / RCPT / DATA / Close "
                 "with the pool) model-checked by TLC; TLC-generated behaviours replayed on the real remote.Target against a "
                 "scripted DNS server and scripted MX hosts; DNS questions, dials, server-side commands and returned classes "
                 "validated by TLC against MxSelectTrace.tla (predicates in MxSelectObs.tla)",
    "text": "TLC visits every MX RRset of up to 3 records over 3 hosts x 2 preferences and every other DNS situation, every "
            "sequence of candidate behaviours (8 kinds per attempt), every MAIL / RCPT / final-dot reply, up to 3 recipients over "
            "2 domains and up to 3 deliveries sharing the pool, and checks the 27 predicates of MxSelectObs in every state; "
            "the same predicates are evaluated by TLC over the traces of the real target.",
    "note": "Scripted DNS (loopback UDP) and MX hosts (loopback TCP), injected dialer; predicates over what the DNS server, "
            "the dialer and the MX hosts saw; trusted: TLC, the harness, Go toolchain.",
    "design_ref": "extensions/X16.md",
}
