"""X01 - lookup tables backed by files reload consistently and shut down cleanly.

(T) TLC checks FileTable.tla exhaustively: every interleaving of the reloader's file-system calls
    (stat / open / one read per line / stat again), the ticker, reload events, Close and an
    environment that replaces, rewrites in place, removes, back-dates or breaks the file, inside
    the bound; the predicates of FileTableObs.tla are evaluated in every state.  With the named
    deviations of the code on HEAD switched on, the same invariant must produce a counterexample.
(B) TLC-generated behaviours (-simulate over larger bounds) are replayed on the real table.File
    working on a real file; the os calls of file.go go through an overlay shim that parks the
    reloader before each call, time is a synctest bubble's clock.  The recorded traces are
    validated against FileTableTrace.tla (conformance with the as-is design + the predicates).
"""
import json
import os

import vlib

EXT = "X01"

ALL_ENV = ["put", "putbad", "putold", "trunc", "app", "rm", "dir", "loop", "unread"]
ALL_INIT = ["good", "none", "bad", "dir", "loop", "unread"]

# predicates each named deviation is allowed to explain
DEV_PREDS = {
    "StatErrPanic": {"ReloaderPanicked", "CloseHangs", "ReloadEventHangs", "StaleTable", "ReloadEventIgnored"},
    "OldMtimeIgnored": {"StaleTable", "ReloadEventIgnored"},
}
ALL_DEVS = sorted(DEV_PREDS)


def tla_set(xs, quote=True):
    return "{" + ", ".join(('"%s"' % x) if quote else str(x) for x in xs) + "}"


def cfg(K=2, maxtime=4, maxenv=2, maxforce=1, envk=None, initk=ALL_INIT, old=(0, 21), devs=(), gen=False,
        tail="VIEW View\nINVARIANTS NoViolation TypeOK TableIsAVersion\nCHECK_DEADLOCK FALSE\n", spec="Spec"):
    return ("SPECIFICATION %s\nCONSTANTS\n  K = %d\n  MaxTime = %d\n  MaxEnv = %d\n  MaxForce = %d\n"
            "  EnvKinds = %s\n  InitKinds = %s\n  OldStamps = %s\n  Devs = %s\n  Gen = %s\n%s") % (
        spec, K, maxtime, maxenv, maxforce, tla_set(envk or ALL_ENV + ["close", "slow"]), tla_set(initk), tla_set(old, False),
        tla_set(devs), "TRUE" if gen else "FALSE", tail)


def trace_cfg(K, devs):
    return cfg(K=K, maxtime=1000, maxenv=1000, maxforce=1000, old=range(0, 61), devs=devs, spec="TSpec",
               tail="CHECK_DEADLOCK FALSE\nPOSTCONDITION Post\n")


def open_findings():
    p = os.path.join(vlib.VERIF, "extensions", "findings.json")
    if not os.path.exists(p):
        return []
    return [f for f in json.load(open(p)).get("findings", [])
            if f.get("ext") == EXT and f.get("status", "open") == "open"]


def make_overlay(ctx):
    src = os.path.join(ctx.repo, "internal/table/file.go")
    txt = open(src).read()
    needle = '\t"os"\n'
    if needle not in txt:
        raise vlib.Infra("internal/table/file.go no longer imports \"os\" on its own line; the tos overlay cannot be generated")
    txt = txt.replace(needle, '\tos "github.com/foxcpp/maddy/verifharness/tablecheck/tos"\n', 1)
    d = ctx.sub("overlay")
    repl = os.path.join(d, "file_tos.go.txt")
    open(repl, "w").write(txt)
    ov = os.path.join(d, "overlay.json")
    json.dump({"Replace": {src: repl}}, open(ov, "w"))
    return ov


def behaviours_from(r):
    return [{"cfg": val["cfg"], "hist": val["hist"], "viol": val.get("viol", [])}
            for tag, val in r["printed"] if tag == "BEH"]


def shape(b):
    """what a behaviour exercises, for stratified sampling"""
    sig = []
    for h in b["hist"]:
        a = h["a"]
        if a in ("Stat", "Open", "Read"):
            sig.append(a[0] + h["res"][0])
        elif a == "EPut":
            sig.append("P" + ("b" if any(l[0] == "!" for l in h["lines"]) else "") + ("o" if False else ""))
        else:
            sig.append(a)
    return " ".join(sig)


def nontrivial(b):
    """the file was edited between two file-system calls of one reload, or made unusable"""
    calls = ("Stat", "Open", "Read")
    hist = [h for h in b["hist"] if h["a"] != "Tick"]
    for i, h in enumerate(hist):
        if h["a"] in ("ELoop", "EDir", "EUnread"):
            return True
        if h["a"].startswith("E") and h["a"] != "End" and 0 < i < len(hist) - 1:
            prev, nxt = hist[i - 1]["a"], hist[i + 1]["a"]
            if prev in calls and nxt in ("Open", "Read") or prev in ("Open", "Read") and nxt in calls:
                return True
    return False


ALL_SW = ALL_ENV + ["close", "slow"]

SIM_PLANS = [
    # (name, K, maxtime, maxenv, maxforce, switches, share)
    ("all", 2, 8, 4, 2, ALL_SW, 0.30),
    ("inplace", 2, 8, 5, 1, ["trunc", "app", "put", "close", "slow"], 0.15),
    ("faults", 2, 8, 4, 2, ["loop", "dir", "unread", "rm", "put", "putbad", "close", "slow"], 0.20),
    ("backdated", 2, 8, 4, 2, ["put", "putold", "rm", "close"], 0.15),
    ("fine", 4, 12, 4, 2, ALL_SW, 0.20),
]

# exhaustive (breadth-first) generation: every position of ONE edit of every kind between the calls of the
# reloads of two intervals, with and without time passing inside reload(); every position of Close / a reload event
SWEEPS = [
    ("sweep-edit", dict(maxtime=4, maxenv=1, maxforce=0,
                        envk=["put", "putbad", "putold", "trunc", "rm", "dir", "loop", "unread", "slow"])),
    ("sweep-api", dict(maxtime=4, maxenv=1, maxforce=1, envk=["put", "close"], initk=["good"])),
]
# witnesses of the named deviations: behaviours of the as-is design up to the first violated predicate
WITNESS = {
    "StatErrPanic": dict(maxtime=4, maxenv=1, maxforce=1, envk=["loop", "close"], initk=["good"]),
    "OldMtimeIgnored": dict(maxtime=8, maxenv=1, maxforce=1, envk=["putold"], initk=["good"]),
}


def model_check(ctx, thorough):
    """(T) exhaustive model checking of the design"""
    if thorough:
        r = ctx.tlc_expect_ok("FileTable", None, name="mc", workers=12, timeout=2400,
                              cfg_text=cfg(maxtime=6, maxenv=2, envk=ALL_SW))
        r4 = ctx.tlc_expect_ok("FileTable", None, name="mc4", workers=12, timeout=2400,
                               cfg_text=cfg(K=4, maxtime=8, maxenv=2, old=(0, 22), envk=ALL_SW))
        ctx.cov["states_K4"] = r4["distinct"]
    else:
        r = ctx.tlc_expect_ok("FileTable", None, name="mc", workers=6, timeout=600,
                              cfg_text=cfg(maxtime=4, maxenv=2, envk=ALL_SW))
    ctx.cov["states"] = r["distinct"]
    ctx.cov["transitions"] = r["generated"]
    ctx.cov["model_depth"] = r["depth"]
    ctx.log("TLC exhaustive: %d distinct states, %d transitions, depth %d, %.1fs" % (
        r["distinct"], r["generated"], r["depth"], r["wall"]))
    # every named deviation must be found by the same invariant (non-vacuity)
    for dev in ALL_DEVS:
        ra = ctx.tlc("FileTable", None, name="asis-" + dev, workers=2, timeout=300,
                     cfg_text=cfg(maxtime=6, maxenv=2, devs=[dev], envk=ALL_SW,
                                  tail="VIEW View\nINVARIANTS NoViolation\nCHECK_DEADLOCK FALSE\n"))
        if ra["invariant"] != "NoViolation":
            raise vlib.Infra("as-is model (%s) no longer violates NoViolation: the invariant is vacuous (%s)" % (
                dev, ra["error"]))
    ctx.cov["asis_counterexamples_found"] = ALL_DEVS


def generate(ctx, thorough):
    """-> list of behaviours; all TLC runs in parallel"""
    from concurrent.futures import ThreadPoolExecutor
    total = 24000 if thorough else 420
    jobs = []
    for name, K, mt, me, mf, envk, share in SIM_PLANS:
        n = int(total * share)
        jobs.append((name, n, dict(name="sim-" + name, workers=1, timeout=1500, simulate=n, depth=120,
                                   cfg_text=cfg(K=K, maxtime=mt, maxenv=me, maxforce=mf, envk=envk,
                                                old=(0, 10, 21, 23, 25), gen=True, tail="CHECK_DEADLOCK FALSE\n"))))
    for name, kw in SWEEPS:
        jobs.append((name, None if thorough else 90,
                     dict(name=name, workers=2, timeout=1500,
                          cfg_text=cfg(gen=True, tail="CHECK_DEADLOCK FALSE\n", **kw))))
    for dev, kw in sorted(WITNESS.items()):
        jobs.append(("witness-" + dev, None if thorough else 40,
                     dict(name="witness-" + dev, workers=2, timeout=1500,
                          cfg_text=cfg(gen=True, devs=[dev], tail="CHECK_DEADLOCK FALSE\n", **kw))))

    def one(job):
        name, n, kw = job
        g = ctx.tlc("FileTable", None, **kw)
        if not g["ok"]:
            raise vlib.Infra("behaviour generation %s failed: %s %s" % (name, g["invariant"], g["error"]))
        return name, n, behaviours_from(g)

    with ThreadPoolExecutor(max_workers=6) as ex:
        results = list(ex.map(one, jobs))
    behs, seen = [], set()
    for name, n, got in results:
        got.sort(key=lambda b: json.dumps(b, sort_keys=True))
        ctx.cov.setdefault("generated", {})[name] = len(got)
        if name.startswith("witness-"):
            # the prefixes that end in a violation of the as-is design first, then complete behaviours
            bad = [b for b in got if b["viol"]]
            good = [b for b in got if not b["viol"]]
            ctx.rng.shuffle(bad)
            ctx.rng.shuffle(good)
            got = bad + good[:len(bad) // 4]
            if n is not None:
                got = bad[:n * 3 // 4] + good[:n // 4]
        else:
            ctx.rng.shuffle(got)
        k = 0
        for b in got:
            b.pop("viol", None)
            key = json.dumps(b, sort_keys=True)
            if key in seen:
                continue
            seen.add(key)
            b["plan"] = name
            behs.append(b)
            k += 1
            if n is not None and k >= n:
                break
    return behs


def run(ctx, replay):
    thorough = ctx.tier == "thorough"
    findings = open_findings()
    open_devs = sorted(set(f["match"]["dev"] for f in findings))
    by_dev = {f["match"]["dev"]: f for f in findings}

    if replay:
        obj = json.load(open(replay))
        behs = [obj["behaviour"]]
    else:
        from concurrent.futures import ThreadPoolExecutor
        with ThreadPoolExecutor(max_workers=2) as ex:
            fut = ex.submit(generate, ctx, thorough)      # (B) behaviours out of TLC, while (T) runs
            model_check(ctx, thorough)
            behs = fut.result()
        if not behs:
            raise vlib.Infra("TLC produced no behaviours")
    for i, b in enumerate(behs):
        b["id"] = i + 1
    ctx.log("%d behaviours to replay" % len(behs))

    # ---- replay on the real module -------------------------------------------------------------
    binary = ctx.build_harness("tablecheck", overlay=make_overlay(ctx))
    events = ctx.run_shards(binary, behs)
    by_id = {b["id"]: b for b in behs}

    # binding self-test: a corrupted and a truncated copy of an accepted trace must not be accepted
    selftest = {}
    if not replay:
        for b in behs:
            evs = [e for e in events if e["t"] == b["id"]]
            if b["cfg"]["K"] == 2 and sum(1 for e in evs if e["e"] == "Read" and e["res"] == "line") >= 2 \
                    and not any(e["e"] == "Look" and e["pan"] for e in evs):
                c1 = [dict(e, t=900001) for e in evs]
                for e in c1:
                    if e["e"] == "Read" and e["res"] == "line":
                        e["line"] = [e["line"][0], e["line"][1] + 7]      # another version was read
                        break
                c2 = [dict(e, t=900002) for e in evs]
                k = next(i for i, e in enumerate(c2) if e["e"] == "Read")
                del c2[k]                                                  # a call went unrecorded
                events = events + c1 + c2
                selftest = {900001: "corrupt-field", 900002: "drop-event"}
                break

    verdicts, by_t = {}, {}
    for K in sorted(set(b["cfg"]["K"] for b in behs)):
        ids = set(b["id"] for b in behs if b["cfg"]["K"] == K)
        if K == 2:
            ids |= set(selftest)
        evK = [e for e in events if e["t"] in ids]
        v, bt = ctx.validate("FileTableTrace", None, evK, name="trace-K%d" % K,
                             cfg_text=trace_cfg(K, open_devs), batch=2500)
        verdicts.update(v)
        by_t.update(bt)

    ok = drift = 0
    preds = {}
    for t, recs in sorted(verdicts.items()):
        if t in selftest:
            if any(not r["drift"] for r in recs):
                raise vlib.Infra("binding self-test failed: %s trace was accepted" % selftest[t])
            continue
        viol = sorted(set(v for r in recs for v in r["viol"]))
        conf = [r for r in recs if not r["drift"]]
        if viol:
            # an open finding explains the trace only if the as-is design (with that deviation) follows the
            # trace step by step, the deviation's branch was actually taken, and nothing else is violated
            explained = None
            for r in conf:
                used = set(r.get("devs", []))
                allowed = set()
                for d in used:
                    allowed |= DEV_PREDS.get(d, set())
                if used and used <= set(open_devs) and set(r["viol"]) <= allowed:
                    explained = used
                    break
            if explained:
                for d in sorted(explained):
                    f = by_dev[d]
                    ctx.known(f["id"], f["what"])
                ok += 1
                continue
            for v in viol:
                preds[v] = preds.get(v, 0) + 1
            ctx.violation("table.file violates " + ",".join(viol),
                          {"property": EXT, "behaviour": by_id[t], "trace": by_t[t], "violated": viol,
                           "how": "bin/check X01 --replay <this file>"})
        elif conf:
            ok += 1
        else:
            drift += 1
            print("DRIFT property=%s trace=%d first-unexplained-seq=%s" % (EXT, t, recs[0]["driftAt"]))
    if selftest:
        ctx.cov["binding_selftest"] = "corrupted-field and dropped-event traces rejected"
    ctx.cov["traces_validated_against_impl"] = ok
    ctx.cov["drift_traces"] = drift
    ctx.cov["evaluations"] = len(behs)
    ctx.cov["distinct_nontrivial"] = sum(1 for b in behs if nontrivial(b))
    ctx.cov["rule"] = ("behaviours = complete behaviours of FileTable.tla printed by TLC: breadth-first sweeps (one edit "
                       "of every kind / Close / a reload event at every position of two reload rounds), -simulate under "
                       "five bound/alphabet plans (all edits; in-place writer; faults; back-dated files; K=4) and the "
                       "as-is design's behaviours up to the first violated predicate for each named deviation; sampled "
                       "in quick, sweeps and witnesses complete in thorough; de-duplicated; non-trivial = the file was "
                       "edited between two file-system calls of one reload or made unusable")
    ctx.cov["violated_predicates"] = preds
    ctx.cov["events"] = len(events)
    for b in behs[:3]:
        ctx.cov["samples"].append({"behaviour": b, "trace": by_t.get(b["id"], [])[:30]})
    ctx.cov["exhaustive"] = False
    ctx.assumptions += [
        "a change of the file's content changes its mtime (one mtime per content)",
        "Init's own read of the file is atomic (nobody writes the file while maddy starts)",
        "time is the fake clock of a testing/synctest bubble; the file's mtime is set from it with os.Chtimes",
        "reads are cut at line boundaries by the overlay shim (a large file is read in several calls as well)",
        "EACCES is injected by the shim (the sandbox runs as root); ELOOP/EISDIR/ENOENT are produced by the real file system",
        "TLC 1.8.0, CommunityModules Json reader",
    ]
    if ctx.known_seen:
        # extension findings are announced as EXT-FINDING, not KNOWN-FINDING
        for fid, what in ctx.known_seen:
            print("EXT-FINDING: ext=%s %s %s" % (EXT, fid, what))
        ctx.cov["ext_findings_seen"] = [k for k, _ in ctx.known_seen]
        ctx.known_seen = []


META = {
    "engine": "tablecheck",
    "level": "model_checking",
    "technique": "TLA+ spec FileTable.tla model-checked by TLC; TLC-generated behaviours replayed on the real "
                 "table.file over a real file with the reloader parked before each file-system call; recorded "
                 "traces validated against FileTableTrace.tla (predicates in FileTableObs.tla)",
    "statement": "For any history of edits to the file behind a table.file table - atomic replacement, in-place "
                 "rewriting line by line, removal and re-creation, replacement by a version with an older "
                 "modification time, by a directory or by an unresolvable path, loss of read permission - arriving "
                 "at any instant, including between any two file-system calls of a reload: every lookup answers "
                 "from one complete, successfully parsed version of the file (never a mix of two versions, a "
                 "partially read file or the parsed part of a file with a syntax error), Lookup and LookupMulti "
                 "agree; once the file has been left unchanged for two reload intervals the table equals the file "
                 "(the empty table when the file is absent), and a reload event (SIGUSR2) applies a settled file "
                 "at once; an unreadable or syntactically wrong file leaves the previous contents in force; no "
                 "file state makes the reloader panic; the reload event handler and Close return in every state, "
                 "and after Close the reloader touches the file no more.",
    "text": "TLC visits every interleaving of reload()'s file-system calls with environment edits, ticks, reload "
            "events and Close inside the bound (K=2: horizon 4-6 slots, 2-3 edits; K=4 in thorough) and checks the "
            "X01 predicates in every state; the as-is deviations must violate them. The same predicates are "
            "evaluated by TLC over traces recorded from the real module driven with TLC-simulated behaviours "
            "(700 in quick, 24000 in thorough).",
    "note": "Time is a synctest bubble's clock, reads are cut at line boundaries and EACCES is injected by the "
            "overlay shim harness/tablecheck/tos; trusted: TLC, the harness, Go toolchain.",
    "design_ref": "extensions/X01.md",
}
