"""X01 - lookup tables backed by files reload consistently and shut down cleanly.

(T) TLC checks FileTable.tla exhaustively: every interleaving of the reloader's file-system calls
    (stat / open / one read per line / stat again), the ticker, reload events, Close and an
    environment that replaces, rewrites in place, removes, back-dates or breaks the file, inside
    the bound; the predicates of FileTableObs.tla are evaluated in every state.  With the named
    deviations of the code on HEAD switched on, the same invariant must produce a counterexample.
(B) TLC-generated behaviours (-simulate over larger bounds) are replayed on the real table.File
    working on a real file; the os calls of file.go go through an overlay shim that parks the
    reloader before each call, time is a synctest bubble's clock.  The recorded traces are
    validated against FileTableTrace.tla (conformance with the as-is design + the predicates).
(B2) pattern B for the pure tables: TLC enumerates the rows of TableLookup.tla (static, identity,
    email_with_domain, email_localpart(_optional), regexp, chain, the syntax of table.file), checks the
    documented rule against the property predicates, the rows are run through the real modules and
    TableLookupTrace.tla evaluates the predicates on what they answered.
"""
import json
import os

import vlib
import vtable

EXT = "X01"

ALL_ENV = ["put", "putbad", "putold", "trunc", "app", "rm", "dir", "loop", "unread"]
ALL_INIT = ["good", "none", "bad", "dir", "loop", "unread"]

# predicates each named deviation is allowed to explain
DEV_PREDS = {
    "StatErrPanic": {"ReloaderPanicked", "CloseHangs", "ReloadEventHangs", "StaleTable", "ReloadEventIgnored"},
    "OldMtimeIgnored": {"StaleTable", "ReloadEventIgnored"},
}
ALL_DEVS = sorted(DEV_PREDS)
# deviations of the pure tables (TableLookup.tla)
ROW_DEVS = ["ExpandDirectiveName", "IndentedCommentIsKey", "LocalpartNotUnquoted", "NoReplNoMatch"]
ALL_TABS = ["static", "identity", "ewd", "localpart", "regexp", "chain", "file"]

ROW_CFG = """SPECIFICATION %(spec)s
CONSTANTS
  Tabs = %(tabs)s
  MaxSteps = %(maxsteps)d
  MaxLines = %(maxlines)d
  Devs = %(devs)s
  Gen = %(gen)s
%(tail)s
"""


def row_cfg(spec="Spec", tabs=ALL_TABS, maxsteps=2, maxlines=2, devs=(), gen=False, tail=""):
    return ROW_CFG % dict(spec=spec, tabs=tla_set(tabs), maxsteps=maxsteps, maxlines=maxlines, devs=tla_set(devs),
                          gen="TRUE" if gen else "FALSE", tail=tail)


def run_rows(ctx, replay_obj, binary, findings):
    """pattern B: the pure lookup tables and the syntax of table.file"""
    thorough = ctx.tier == "thorough"
    by_dev = {f["match"]["dev"]: f for f in findings if f["match"]["dev"] in ROW_DEVS}
    maxsteps = 3 if thorough else 2
    maxlines = 3 if thorough else 2
    if replay_obj:
        rows = [replay_obj["row"]]
        rows[0]["id"] = 1
    else:
        r = ctx.tlc_expect_ok("TableLookup", None, name="rows", workers=4, timeout=1200,
                              cfg_text=row_cfg(maxsteps=maxsteps, maxlines=maxlines, gen=True,
                                               tail="INVARIANTS RuleSatisfiesProp\nCONSTRAINT Emit\nCHECK_DEADLOCK FALSE"))
        rows = vtable.rows_from(r)
        if len(rows) != r["distinct"]:
            raise vlib.Infra("TLC printed %d distinct rows for %d states" % (len(rows), r["distinct"]))
        ctx.cov["row_states"] = r["distinct"]
        ctx.log("TLC: %d lookup rows; the documented rule satisfies the predicates on all, %.1fs" % (r["distinct"], r["wall"]))
        for dev in ROW_DEVS:
            ra = ctx.tlc("TableLookup", None, name="rows-asis-" + dev, workers=1, timeout=300,
                         cfg_text=row_cfg(maxsteps=1, devs=[dev], tail="INVARIANTS AsIsSatisfiesProp\nCHECK_DEADLOCK FALSE"))
            if ra["invariant"] != "AsIsSatisfiesProp":
                raise vlib.Infra("as-is lookup model (%s) does not violate the property: predicates vacuous? (%s)" % (dev, ra["error"]))
    by_id = {row["id"]: row for row in rows}
    items = [{"id": row["id"], "in": row["in"]} for row in rows]
    events = ctx.run_shards(binary, items, test="TestRows", name="rows-replay", shards=8)
    events = [e for e in events if e["e"] == "Row"]
    if len(events) != len(rows):
        raise vlib.Infra("harness answered %d of %d rows" % (len(events), len(rows)))
    ev_by_t = {e["t"]: e for e in events}

    selftest = {}
    if not replay_obj:
        # binding self-test: forged answers must be rejected and not pass as a known deviation
        def forge(t, pred, chg):
            for e in events:
                if pred(by_id[e["t"]]):
                    f = json.loads(json.dumps(e))
                    f["t"] = t
                    f["out"] = dict(by_id[e["t"]]["exp"])
                    chg(f["out"])
                    return f
            raise vlib.Infra("binding self-test: no base row")
        def drop_first(o):
            o["multi"] = o["multi"][1:]
        def flip_ok(o):
            o["ok"] = not o["ok"]
        forged = [
            forge(900001, lambda row: row["in"]["tab"] == "static" and len(row["exp"]["multi"]) == 2, drop_first),
            forge(900002, lambda row: row["in"]["tab"] == "chain" and len(row["in"]["steps"]) == 2 and row["exp"]["ok"]
                  and all(s["c"] in ("S1", "S2", "I") for s in row["in"]["steps"]), flip_ok),
        ]
        selftest = {900001: "value dropped", 900002: "found flag flipped"}
        events = events + forged
    open_row_devs = sorted(by_dev)
    tcfg = ROW_CFG % dict(spec="TSpec", tabs="{}", maxsteps=maxsteps, maxlines=maxlines, devs="{}", gen="FALSE",
                          tail="  OpenDevs = %s\nCHECK_DEADLOCK FALSE\nPOSTCONDITION Post" % tla_set(open_row_devs))
    verdicts, accepted = vtable.validate_rows(ctx, "TableLookupTrace", tcfg, events, name="rows-trace", batch=20000, par=4)
    for t, what in selftest.items():
        v = verdicts.get(t)
        if not v or not v["viol"] or v["devs"]:
            raise vlib.Infra("binding self-test failed: forged row (%s) was accepted or explained by a deviation" % what)
        del verdicts[t]
    drift = 0
    known_rows = {}
    for t, v in sorted(verdicts.items()):
        row, ev = by_id[t], ev_by_t[t]
        devsets = sorted((sorted(d) for d in v["devs"]), key=lambda d: (len(d), d))
        minimal = devsets[0] if devsets else None
        explained = minimal is not None
        if explained and v["viol"]:
            allowed = set()
            for d in minimal:
                allowed |= set(by_dev[d]["match"].get("predicates", []))
            explained = set(v["viol"]) <= allowed
        if v["viol"] and not explained:
            what = "table %s answers against %s: in=%s out=%s" % (
                row["in"]["tab"], ",".join(sorted(v["viol"])), json.dumps(row["in"], sort_keys=True)[:300],
                json.dumps(ev["out"], sort_keys=True)[:300])
            pend(ctx, what, {"property": EXT, "row": row, "out": ev["out"], "violated": sorted(v["viol"]),
                             "how": "bin/check X01 --replay <this file>"})
        elif explained:
            for d in minimal:
                f = by_dev[d]
                ctx.known(f["id"], f["what"])
                known_rows[f["id"]] = known_rows.get(f["id"], 0) + 1
        else:
            drift += 1
            if drift <= 10:
                print("DRIFT property=%s row=%d in=%s out=%s expected=%s" % (
                    EXT, t, json.dumps(row["in"], sort_keys=True), json.dumps(ev["out"]), json.dumps(row.get("exp"))))
    ctx.cov["rows_run_through_real_tables"] = len(rows)
    ctx.cov["rows_accepted"] = accepted
    ctx.cov["rows_drift"] = drift
    ctx.cov["rows_explained_by_finding"] = known_rows
    ctx.cov["rows_by_table"] = {tab: sum(1 for row in rows if row["in"]["tab"] == tab) for tab in ALL_TABS}
    if selftest:
        ctx.cov["rows_binding_selftest"] = "forged rows rejected: " + "; ".join(selftest.values())
    for tab in ("regexp", "chain", "file"):
        pick = [row for row in rows if row["in"]["tab"] == tab]
        if pick:
            row = pick[len(pick) // 2]
            ctx.cov["samples"].append({"row": row, "out": ev_by_t[row["id"]]["out"]})
    return accepted


def tla_set(xs, quote=True):
    return "{" + ", ".join(('"%s"' % x) if quote else str(x) for x in xs) + "}"


def cfg(K=2, maxtime=4, maxenv=2, maxforce=1, envk=None, initk=ALL_INIT, old=(0, 21), devs=(), gen=False,
        tail="VIEW View\nINVARIANTS NoViolation TypeOK TableIsAVersion\nCHECK_DEADLOCK FALSE\n", spec="Spec"):
    return ("SPECIFICATION %s\nCONSTANTS\n  K = %d\n  MaxTime = %d\n  MaxEnv = %d\n  MaxForce = %d\n"
            "  EnvKinds = %s\n  InitKinds = %s\n  OldStamps = %s\n  Devs = %s\n  Gen = %s\n%s") % (
        spec, K, maxtime, maxenv, maxforce, tla_set(envk or ALL_ENV + ["close", "slow"]), tla_set(initk), tla_set(old, False),
        tla_set(devs), "TRUE" if gen else "FALSE", tail)


def trace_cfg(K, devs):
    return cfg(K=K, maxtime=1000, maxenv=1000, maxforce=1000, old=range(0, 61), devs=devs, spec="TSpec",
               tail="CHECK_DEADLOCK FALSE\nPOSTCONDITION Post\n")


def open_findings():
    p = os.path.join(vlib.VERIF, "extensions", "findings.json")
    if not os.path.exists(p):
        return []
    if os.environ.get("VERIF_X01_ASSUME_FIXED"):
        return []      # drills: judge the tree as if every finding had been repaired (nothing is suppressed)
    return [f for f in json.load(open(p)).get("findings", [])
            if f.get("ext") == EXT and f.get("status", "open") == "open"]


def make_overlay(ctx):
    src = os.path.join(ctx.repo, "internal/table/file.go")
    txt = open(src).read()
    needle = '\t"os"\n'
    if needle not in txt:
        raise vlib.Infra("internal/table/file.go no longer imports \"os\" on its own line; the tos overlay cannot be generated")
    txt = txt.replace(needle, '\tos "github.com/foxcpp/maddy/verifharness/tablecheck/tos"\n', 1)
    d = ctx.sub("overlay")
    repl = os.path.join(d, "file_tos.go.txt")
    open(repl, "w").write(txt)
    ov = os.path.join(d, "overlay.json")
    json.dump({"Replace": {src: repl}}, open(ov, "w"))
    return ov


def behaviours_from(r):
    return [{"cfg": val["cfg"], "hist": val["hist"], "viol": val.get("viol", [])}
            for tag, val in r["printed"] if tag == "BEH"]


def nontrivial(b):
    """the file was edited between two file-system calls of one reload, or made unusable"""
    calls = ("Stat", "Open", "Read")
    hist = [h for h in b["hist"] if h["a"] != "Tick"]
    for i, h in enumerate(hist):
        if h["a"] in ("ELoop", "EDir", "EUnread"):
            return True
        if h["a"].startswith("E") and h["a"] != "End" and 0 < i < len(hist) - 1:
            prev, nxt = hist[i - 1]["a"], hist[i + 1]["a"]
            if prev in calls and nxt in ("Open", "Read") or prev in ("Open", "Read") and nxt in calls:
                return True
    return False


ALL_SW = ALL_ENV + ["close", "slow"]

SIM_PLANS = [
    # (name, K, maxtime, maxenv, maxforce, switches, share)
    ("all", 2, 8, 4, 2, ALL_SW, 0.30),
    ("inplace", 2, 8, 5, 1, ["trunc", "app", "put", "close", "slow"], 0.15),
    ("faults", 2, 8, 4, 2, ["loop", "dir", "unread", "rm", "put", "putbad", "close", "slow"], 0.20),
    ("backdated", 2, 8, 4, 2, ["put", "putold", "rm", "close"], 0.15),
    ("fine", 4, 12, 4, 2, ALL_SW, 0.20),
]

# exhaustive (breadth-first) generation: every position of ONE edit of every kind between the calls of the
# reloads of two intervals, with and without time passing inside reload(); every position of Close / a reload event
SWEEPS = [
    ("sweep-edit", dict(maxtime=4, maxenv=1, maxforce=0,
                        envk=["put", "putbad", "putold", "trunc", "rm", "dir", "loop", "unread", "slow"])),
    ("sweep-api", dict(maxtime=4, maxenv=1, maxforce=1, envk=["put", "close"], initk=["good"])),
]
# witnesses of the named deviations: behaviours of the as-is design up to the first violated predicate
WITNESS = {
    "StatErrPanic": dict(maxtime=4, maxenv=1, maxforce=1, envk=["loop", "close"], initk=["good"]),
    "OldMtimeIgnored": dict(maxtime=8, maxenv=1, maxforce=1, envk=["putold"], initk=["good"]),
}


def model_check(ctx, thorough):
    """(T) exhaustive model checking of the design"""
    if thorough:
        r = ctx.tlc_expect_ok("FileTable", None, name="mc", workers=12, timeout=2400,
                              cfg_text=cfg(maxtime=6, maxenv=2, envk=ALL_SW))
        r4 = ctx.tlc_expect_ok("FileTable", None, name="mc4", workers=12, timeout=2400,
                               cfg_text=cfg(K=4, maxtime=8, maxenv=2, old=(0, 22), envk=ALL_SW))
        ctx.cov["states_K4"] = r4["distinct"]
        r3 = ctx.tlc_expect_ok("FileTable", None, name="mc3", workers=12, timeout=2400,
                               cfg_text=cfg(maxtime=4, maxenv=3, envk=ALL_SW))
        ctx.cov["states_three_edits"] = r3["distinct"]
    else:
        r = ctx.tlc_expect_ok("FileTable", None, name="mc", workers=6, timeout=600,
                              cfg_text=cfg(maxtime=4, maxenv=2, envk=ALL_SW))
    ctx.cov["states"] = r["distinct"]
    ctx.cov["transitions"] = r["generated"]
    ctx.cov["model_depth"] = r["depth"]
    ctx.log("TLC exhaustive: %d distinct states, %d transitions, depth %d, %.1fs" % (
        r["distinct"], r["generated"], r["depth"], r["wall"]))
    # every named deviation must be found by the same invariant (non-vacuity)
    for dev in ALL_DEVS:
        ra = ctx.tlc("FileTable", None, name="asis-" + dev, workers=2, timeout=300,
                     cfg_text=cfg(maxtime=6, maxenv=2, devs=[dev], envk=ALL_SW,
                                  tail="VIEW View\nINVARIANTS NoViolation\nCHECK_DEADLOCK FALSE\n"))
        if ra["invariant"] != "NoViolation":
            raise vlib.Infra("as-is model (%s) no longer violates NoViolation: the invariant is vacuous (%s)" % (
                dev, ra["error"]))
    ctx.cov["asis_counterexamples_found"] = ALL_DEVS


def generate(ctx, thorough):
    """-> list of behaviours; all TLC runs in parallel"""
    from concurrent.futures import ThreadPoolExecutor
    total = 24000 if thorough else 420
    jobs = []
    for name, K, mt, me, mf, envk, share in SIM_PLANS:
        n = int(total * share)
        jobs.append((name, n, dict(name="sim-" + name, workers=1, timeout=1500, simulate=n, depth=120,
                                   cfg_text=cfg(K=K, maxtime=mt, maxenv=me, maxforce=mf, envk=envk,
                                                old=(0, 10, 21, 23, 25), gen=True, tail="CHECK_DEADLOCK FALSE\n"))))
    for name, kw in SWEEPS:
        jobs.append((name, None if thorough else 90,
                     dict(name=name, workers=2, timeout=1500,
                          cfg_text=cfg(gen=True, tail="CHECK_DEADLOCK FALSE\n", **kw))))
    for dev, kw in sorted(WITNESS.items()):
        jobs.append(("witness-" + dev, None if thorough else 40,
                     dict(name="witness-" + dev, workers=2, timeout=1500,
                          cfg_text=cfg(gen=True, devs=[dev], tail="CHECK_DEADLOCK FALSE\n", **kw))))

    def one(job):
        name, n, kw = job
        g = ctx.tlc("FileTable", None, **kw)
        if not g["ok"]:
            raise vlib.Infra("behaviour generation %s failed: %s %s" % (name, g["invariant"], g["error"]))
        return name, n, behaviours_from(g)

    with ThreadPoolExecutor(max_workers=6) as ex:
        results = list(ex.map(one, jobs))
    behs, seen = [], set()
    for name, n, got in results:
        got.sort(key=lambda b: json.dumps(b, sort_keys=True))
        ctx.cov.setdefault("generated", {})[name] = len(got)
        if name.startswith("witness-"):
            # the prefixes that end in a violation of the as-is design first, then complete behaviours
            bad = [b for b in got if b["viol"]]
            good = [b for b in got if not b["viol"]]
            ctx.rng.shuffle(bad)
            ctx.rng.shuffle(good)
            got = bad + good[:len(bad) // 4]
            if n is not None:
                got = bad[:n * 3 // 4] + good[:n // 4]
        else:
            ctx.rng.shuffle(got)
            if n is not None:
                # a sample favours behaviours that edit the file between two calls of one reload / break it
                hot = [b for b in got if nontrivial(b)]
                cold = [b for b in got if not nontrivial(b)]
                got = hot[:n * 3 // 4] + cold + hot[n * 3 // 4:]
        k = 0
        for b in got:
            b.pop("viol", None)
            key = json.dumps(b, sort_keys=True)
            if key in seen:
                continue
            seen.add(key)
            b["plan"] = name
            behs.append(b)
            k += 1
            if n is not None and k >= n:
                break
    return behs


def run(ctx, replay):
    thorough = ctx.tier == "thorough"
    findings = open_findings()
    open_devs = sorted(set(f["match"]["dev"] for f in findings) & set(ALL_DEVS))
    by_dev = {f["match"]["dev"]: f for f in findings}

    if replay:
        obj = json.load(open(replay))
        if "row" in obj:
            binary = ctx.build_harness("tablecheck", overlay=make_overlay(ctx))
            run_rows(ctx, obj, binary, findings)
            announce(ctx)
            return
        behs = [obj["behaviour"]]
    else:
        from concurrent.futures import ThreadPoolExecutor
        with ThreadPoolExecutor(max_workers=2) as ex:
            fut = ex.submit(generate, ctx, thorough)      # (B) behaviours out of TLC, while (T) runs
            model_check(ctx, thorough)
            behs = fut.result()
        if not behs:
            raise vlib.Infra("TLC produced no behaviours")
    for i, b in enumerate(behs):
        b["id"] = i + 1
    ctx.log("%d behaviours to replay" % len(behs))

    # ---- replay on the real module -------------------------------------------------------------
    binary = ctx.build_harness("tablecheck", overlay=make_overlay(ctx))
    rows_ok = 0
    if not replay:
        rows_ok = run_rows(ctx, None, binary, findings)
    events = ctx.run_shards(binary, behs)
    by_id = {b["id"]: b for b in behs}

    # binding self-test: a corrupted and a truncated copy of an accepted trace must not be accepted
    selftest = {}
    if not replay:
        for b in behs:
            evs = [e for e in events if e["t"] == b["id"]]
            if b["cfg"]["K"] == 2 and sum(1 for e in evs if e["e"] == "Read" and e["res"] == "line") >= 2 \
                    and not any(e["e"] == "Look" and e["pan"] for e in evs):
                c1 = [dict(e, t=900001) for e in evs]
                for e in c1:
                    if e["e"] == "Read" and e["res"] == "line":
                        e["line"] = [e["line"][0], e["line"][1] + 7]      # another version was read
                        break
                c2 = [dict(e, t=900002) for e in evs]
                k = next(i for i, e in enumerate(c2) if e["e"] == "Read")
                del c2[k]                                                  # a call went unrecorded
                events = events + c1 + c2
                selftest = {900001: "corrupt-field", 900002: "drop-event"}
                break

    verdicts, by_t = {}, {}
    from concurrent.futures import ThreadPoolExecutor
    groups = []
    for K in sorted(set(b["cfg"]["K"] for b in behs)):
        ids = sorted(b["id"] for b in behs if b["cfg"]["K"] == K)
        if K == 2:
            ids += sorted(selftest)
        per = 2500
        for gi in range(0, len(ids), per):
            groups.append((K, gi // per, set(ids[gi:gi + per])))
    ev_by_t = {}
    for e in events:
        ev_by_t.setdefault(e["t"], []).append(e)

    def val_group(g):
        K, gi, ids = g
        evK = [e for t in sorted(ids) for e in ev_by_t.get(t, [])]
        return ctx.validate("FileTableTrace", None, evK, name="trace-K%d-g%d" % (K, gi),
                            cfg_text=trace_cfg(K, open_devs), batch=2500)
    with ThreadPoolExecutor(max_workers=6) as ex:
        for v, bt in ex.map(val_group, groups):
            verdicts.update(v)
            by_t.update(bt)

    ok = drift = 0
    preds = {}
    for t, recs in sorted(verdicts.items()):
        if t in selftest:
            if any(not r["drift"] for r in recs):
                raise vlib.Infra("binding self-test failed: %s trace was accepted" % selftest[t])
            continue
        viol = sorted(set(v for r in recs for v in r["viol"]))
        conf = [r for r in recs if not r["drift"]]
        if viol:
            # an open finding explains the trace only if the as-is design (with that deviation) follows the
            # trace step by step, the deviation's branch was actually taken, and nothing else is violated
            explained = None
            for r in conf:
                used = set(r.get("devs", []))
                allowed = set()
                for d in used:
                    allowed |= DEV_PREDS.get(d, set())
                if used and used <= set(open_devs) and set(r["viol"]) <= allowed:
                    explained = used
                    break
            if explained:
                for d in sorted(explained):
                    f = by_dev[d]
                    ctx.known(f["id"], f["what"])
                ok += 1
                continue
            for v in viol:
                preds[v] = preds.get(v, 0) + 1
            pend(ctx, "table.file violates " + ",".join(viol),
                 {"property": EXT, "behaviour": by_id[t], "trace": by_t[t], "violated": viol,
                  "how": "bin/check X01 --replay <this file>"})
        elif conf:
            ok += 1
        else:
            drift += 1
            print("DRIFT property=%s trace=%d first-unexplained-seq=%s" % (EXT, t, recs[0]["driftAt"]))
    if selftest:
        ctx.cov["binding_selftest"] = "corrupted-field and dropped-event traces rejected"
    ctx.cov["traces_validated_against_impl"] = ok
    ctx.cov["behaviours_validated"] = ok
    ctx.cov["traces_validated_against_impl"] = ok + rows_ok
    ctx.cov["drift_traces"] = drift
    ctx.cov["evaluations"] = len(behs)
    ctx.cov["distinct_nontrivial"] = sum(1 for b in behs if nontrivial(b))
    ctx.cov["rule"] = ("behaviours = complete behaviours of FileTable.tla printed by TLC: breadth-first sweeps (one edit "
                       "of every kind / Close / a reload event at every position of two reload rounds), -simulate under "
                       "five bound/alphabet plans (all edits; in-place writer; faults; back-dated files; K=4) and the "
                       "as-is design's behaviours up to the first violated predicate for each named deviation; sampled "
                       "in quick, sweeps and witnesses complete in thorough; de-duplicated; non-trivial = the file was "
                       "edited between two file-system calls of one reload or made unusable")
    ctx.cov["violated_predicates"] = preds
    ctx.cov["events"] = len(events)
    for b in behs[:3]:
        ctx.cov["samples"].append({"behaviour": b, "trace": by_t.get(b["id"], [])[:30]})
    ctx.cov["exhaustive"] = False
    ctx.assumptions += [
        "a change of the file's content changes its mtime (one mtime per content)",
        "Init's own read of the file is atomic (nobody writes the file while maddy starts)",
        "time is the fake clock of a testing/synctest bubble; the file's mtime is set from it with os.Chtimes",
        "reads are cut at line boundaries by the overlay shim (a large file is read in several calls as well)",
        "EACCES is injected by the shim (the sandbox runs as root); ELOOP/EISDIR/ENOENT are produced by the real file system",
        "TLC 1.8.0, CommunityModules Json reader",
    ]
    announce(ctx)


def pend(ctx, what, obj):
    if not hasattr(ctx, "x01_pending"):
        ctx.x01_pending = []
    ctx.x01_pending.append((what, obj))


def announce(ctx):
    """report the violations (one artefact per distinct set of violated predicates first: vlib keeps the
    first eight), then the extension findings - as EXT-FINDING, not KNOWN-FINDING"""
    pending = getattr(ctx, "x01_pending", [])
    seen, first, rest = set(), [], []
    for what, obj in pending:
        k = (tuple(obj["violated"]), "row" in obj and obj["row"]["in"]["tab"])
        (rest if k in seen else first).append((what, obj))
        seen.add(k)
    for what, obj in first + rest:
        ctx.violation(what, obj)
    ctx.x01_pending = []
    if ctx.known_seen:
        for fid, what in sorted(ctx.known_seen):
            print("EXT-FINDING: ext=%s %s %s" % (EXT, fid, what))
        ctx.cov["ext_findings_seen"] = sorted(k for k, _ in ctx.known_seen)
        ctx.known_seen = []


META = {
    "engine": "tablecheck",
    "level": "model_checking",
    "technique": "TLA+ spec FileTable.tla model-checked by TLC; TLC-generated behaviours replayed on the real "
                 "table.file over a real file with the reloader parked before each file-system call; recorded "
                 "traces validated against FileTableTrace.tla (predicates in FileTableObs.tla); pattern B rows of "
                 "TableLookup.tla run through the real table modules and evaluated by TableLookupTrace.tla",
    "statement": "For any history of edits to the file behind a table.file table - atomic replacement, in-place "
                 "rewriting line by line, removal and re-creation, replacement by a version with an older "
                 "modification time, by a directory or by an unresolvable path, loss of read permission - arriving "
                 "at any instant, including between any two file-system calls of a reload: every lookup answers "
                 "from one complete, successfully parsed version of the file (never a mix of two versions, a "
                 "partially read file or the parsed part of a file with a syntax error), Lookup and LookupMulti "
                 "agree; once the file has been left unchanged for two reload intervals the table equals the file "
                 "(the empty table when the file is absent), and a reload event (SIGUSR2) applies a settled file "
                 "at once; an unreadable or syntactically wrong file leaves the previous contents in force; no "
                 "file state makes the reloader panic; the reload event handler and Close return in every state, "
                 "and after Close the reloader touches the file no more.",
    "text": "TLC visits every interleaving of reload()'s file-system calls with environment edits, ticks, reload "
            "events and Close inside the bound (K=2: horizon 4-6 slots, 2-3 edits; K=4 in thorough) and checks the "
            "X01 predicates in every state; the as-is deviations must violate them. The same predicates are "
            "evaluated by TLC over traces recorded from the real module driven with TLC-simulated behaviours "
            "(638 sampled in quick; every sweep and witness behaviour plus 24000 simulated, about 36000 distinct, in thorough). "
            "The pure tables (static, identity, email_localpart, email_with_domain, regexp, chain) and table.file's syntax are "
            "rows of TableLookup.tla: TLC checks the documented rule against the predicates on every row and evaluates the "
            "predicates on what the real modules answered for every row (4230 in quick, 24694 in thorough).",
    "note": "Time is a synctest bubble's clock, reads are cut at line boundaries and EACCES is injected by the "
            "overlay shim harness/tablecheck/tos; trusted: TLC, the harness, Go toolchain.",
    "design_ref": "extensions/X01.md",
}
